---------------------------- MODULE MeasureUnits ----------------------------
(***************************************************************************)
(* Units, boundary targets and value counts for the machine of Measures.   *)
(*                                                                         *)
(* Measures.tla computes with small integers.  This module says what those *)
(* integers may DENOTE and adds the boundary calls Measures.tla leaves out. *)
(*                                                                         *)
(* 1. THE LAW OF UNITS.  Every observable of Measures.tla is homogeneous    *)
(*    in the weights, the positions and the values: if every weight is      *)
(*    multiplied by a, every position by b and every value by c (a, b, c    *)
(*    > 0), then                                                            *)
(*      ws, mass            are multiplied by a                             *)
(*      wts, total, pof     by a^d  (d = number of factors), and the        *)
(*                          support at tolerance a^d * tol is the support   *)
(*                          of the original at tol                          *)
(*      xs, pos, center_mass, range  by b;   var  by b^2                    *)
(*      vals, mean_value    by c                                            *)
(*      flatten()           slot by slot (weight slots a, position slots b, *)
(*                          values c)                                       *)
(*      expect / expect_var / pof of a test function that reads the         *)
(*      coordinates (values) in the ORIGINAL unit are unchanged resp. a^d.  *)
(*    and every action commutes with the change of unit (UnitsStep).  TLC   *)
(*    checks UnitsLaw (on the states at most LawSteps edits after a load)   *)
(*    and UnitsStep (every step) for the integer multipliers MultSeq.       *)
(*    Dims is the table of these degrees.                                   *)
(*    UnitSeq is the catalogue of DYADIC units <<ew, ex, ey>> the harness   *)
(*    may replay a state in: model weight w denotes w * 2^ew, position x    *)
(*    denotes x * 2^ex, value y denotes y * 2^ey (exact in binary floating  *)
(*    point, so the law carries over bit for bit as long as nothing leaves  *)
(*    the normal double range: UnitOK).  That puts 0.5, 0.125, 2^-30        *)
(*    (9.3e-10, more than 8 decimals), 2^33 (8.6e9), 2^-330 (4.6e-100),     *)
(*    2^-1000 (9.3e-302) and 2^1000 (1.07e301) into weights, positions and  *)
(*    values without leaving exact arithmetic.                              *)
(*                                                                         *)
(* 2. BOUNDARY CALLS (XEnabled = Enabled of Measures.tla plus)             *)
(*      ZeroTargets  center_mass = 0 (the falsy target) on a factor whose   *)
(*                   centre of mass is a non-zero integer                   *)
(*      ValCounts    how many values a loaded vector carries: "all" (one    *)
(*                   per product point, as in Measures.tla), "none" (the    *)
(*                   bare measure vector: an empty values list), "one"      *)
(*                   (fewer values than points)                             *)
(*    Shapes / WFam of an instance may name factors with two-digit point    *)
(*    counts and products of more than three factors (MC_MeasureUnits:      *)
(*    LShapes); nothing in Measures.tla depends on the bound 3.             *)
(*                                                                         *)
(* 3. CALLS THAT LEAVE THE INTEGER LATTICE (HalfCalls, emitted with every    *)
(*    loaded state, not steps of the machine): a weight raised by 1/2, an    *)
(*    update whose first / last entry is raised by 1/2 (stated in half units *)
(*    through the doubled model), center_mass = cm + k/2.  They put a        *)
(*    non-integral number next to integer data.                              *)
(*                                                                         *)
(* XSpec = Init /\ [][XNext]_vars; the invariants and action properties of  *)
(* Measures.tla are stated over vars / last and are checked for XSpec too.  *)
(***************************************************************************)
EXTENDS Measures

CONSTANTS UnitSeq,     \* sequence of dyadic units <<ew, ex, ey>> (binary exponents of the weight / position / value unit)
          MultSeq,     \* sequence of integer multipliers <<a, b, c>> on which TLC checks the law of units
          ZeroTargets, \* BOOLEAN: SetCenterMass with target 0
          ValCounts,   \* subset of {"all", "none", "one"}: number of values a loaded vector carries
          KShapes,     \* the shapes whose slot kinds the header lists (all shapes reachable in the instance)
          LawSteps     \* the law of units is checked on the states at most LawSteps edits after a load (all: MaxSteps)

-----------------------------------------------------------------------------
(* the change of unit on the model *)
RECURSIVE Pow(_, _)
Pow(a, n) == IF n = 0 THEN 1 ELSE a * Pow(a, n - 1)
ScaleF(f, a, b) == [j \in 1..Len(f) |-> <<a * f[j][1], b * f[j][2]>>]
ScalePM(p, a, b) == [m \in 1..Len(p) |-> ScaleF(p[m], a, b)]
ScaleSeq(s, c) == [i \in 1..Len(s) |-> c * s[i]]
(* kind of every entry of a parameter vector for pts = sh: 1 weight, 2 position, 3 value (beyond 2*sum(pts)) *)
SlotKinds(sh) == [i \in 1..ParLen(sh) |-> SlotSeq(sh)[i][3]]
KindAt(sh, i) == IF i > ParLen(sh) THEN 3 ELSE SlotSeq(sh)[i][3]
ScaleVec(vec, sh, a, b, c) == [i \in 1..Len(vec) |-> (CASE KindAt(sh, i) = 1 -> a [] KindAt(sh, i) = 2 -> b [] OTHER -> c) * vec[i]]

(* degrees: <<weight degree per factor, weight degree, position degree, value degree>>; the binary exponent of an *)
(* observable under the unit <<ew, ex, ey>> on a product of d factors is (D[1]*d + D[2])*ew + D[3]*ex + D[4]*ey  *)
Dims == [ws |-> <<0, 1, 0, 0>>, mass |-> <<0, 1, 0, 0>>, w |-> <<0, 1, 0, 0>>,
         wts |-> <<1, 0, 0, 0>>, total |-> <<1, 0, 0, 0>>, pof |-> <<1, 0, 0, 0>>, tol |-> <<1, 0, 0, 0>>,
         xs |-> <<0, 0, 1, 0>>, pos |-> <<0, 0, 1, 0>>, cm |-> <<0, 0, 1, 0>>, rng |-> <<0, 0, 1, 0>>, x |-> <<0, 0, 1, 0>>,
         var |-> <<0, 0, 2, 0>>,
         vals |-> <<0, 0, 0, 1>>, vmean |-> <<0, 0, 0, 1>>, y |-> <<0, 0, 0, 1>>,
         e |-> <<0, 0, 0, 0>>, v |-> <<0, 0, 0, 0>>]

AbsI(n) == IF n < 0 THEN -n ELSE n
(* a unit may be used on a product of d factors when the products of d weights, weight * position^2 and value * product *)
(* weight stay inside the normal double range with room for the small integer mantissas (2^-1022 .. 2^1023)            *)
UnitOK(u, d) == /\ AbsI(d * u[1]) <= 1000 /\ AbsI(u[2]) <= 1000 /\ AbsI(u[3]) <= 1000
                /\ AbsI(2 * u[2] + u[1]) <= 1000 /\ AbsI(u[3] + d * u[1]) <= 1000
UnitsFor(d) == {i \in 1..Len(UnitSeq) : UnitOK(UnitSeq[i], d)}

-----------------------------------------------------------------------------
(* THE LAW OF UNITS on a state *)
UnitsLawFor(u) ==
  LET a == u[1]  b == u[2]  c == u[3]
      q == ScalePM(pm, a, b)  d == Len(pm)  A == Pow(a, d)
      W == Weights(pm)  P == Positions(pm)  N == Len(W)  AW == ScaleSeq(W, A)
  IN /\ Shape(q) = Shape(pm)
     /\ Flatten(q) = ScaleVec(Flatten(pm), Shape(pm), a, b, c)
     /\ FlattenAll(q, ScaleSeq(vals, c)) = ScaleVec(FlattenAll(pm, vals), Shape(pm), a, b, c)
     /\ Weights(q) = AW
     /\ Positions(q) = [k \in 1..N |-> ScaleSeq(P[k], b)]
     /\ Masses(q) = ScaleSeq(Masses(pm), a)
     /\ SumSeq(AW) = A * SumSeq(W)
     /\ \A m \in 1..d : /\ CenterMass(q[m]) = RatTimes(CenterMass(pm[m]), b)
                        /\ SpreadOf(q[m]) = b * SpreadOf(pm[m])
                        /\ VarOf(q[m]) = RatTimes(VarOf(pm[m]), b * b)
     /\ \A i \in 1..Len(FuncSeq) :
          LET fv == [k \in 1..N |-> EvalF(FuncSeq[i], P[k])]          \* the test function reads model coordinates
          IN /\ ExpectOf(AW, fv) = ExpectOf(W, fv)
             /\ (A * SumSeq(W) <= 200 => ExpectVarOf(AW, fv) = ExpectVarOf(W, fv))   \* where TLC's 32-bit integers suffice
             /\ PofOf(AW, fv) = A * PofOf(W, fv)
     /\ \A t \in 1..Len(TolSeq) : SupportIdx(AW, A * TolSeq[t]) = SupportIdx(W, TolSeq[t])
     /\ Len(vals) = N =>
          /\ ExpectOf(AW, ScaleSeq(vals, c)) = RatTimes(ExpectOf(W, vals), c)
          /\ \A i \in 1..Len(VFuncSeq) :
               LET vv == [k \in 1..N |-> EvalV(VFuncSeq[i], vals[k])]
               IN PofOf(AW, vv) = A * PofOf(W, vv)
UnitsLaw == (Len(pm) > 0 /\ steps <= LawSteps) => \A i \in 1..Len(MultSeq) : UnitsLawFor(MultSeq[i])

(* every action commutes with the change of unit *)
UnitsStepFor(u) ==
  LET a == u[1]  b == u[2]  c == u[3]
      q == ScalePM(pm, a, b)  q2 == ScalePM(pm', a, b)
      act == last'  m == act.a
  IN /\ act.op \in {"load", "append"} =>
          LET sv == ScaleVec(act.vec, act.sh, a, b, c)
          IN LoadPM(q, sv, act.sh) = q2 /\ LoadVals(ScaleSeq(vals, c), sv, act.sh) = ScaleSeq(vals', c)
     /\ act.op = "upd" =>
          LET sv == ScaleVec(act.vec, Shape(pm), a, b, c)
          IN UpdatePM(q, sv) = q2 /\ UpdateVals(q, ScaleSeq(vals, c), sv) = ScaleSeq(vals', c)
     /\ act.op = "setw" => q2 = [q EXCEPT ![m][act.b] = <<a * act.c, @[2]>>]
     /\ act.op = "setx" => q2 = [q EXCEPT ![m][act.b] = <<@[1], b * act.c>>]
     /\ act.op = "cm"  => q2[m] = Shift(q[m], b * act.b) /\ CenterMass(q2[m]) = RatTimes(act.vec, b)
     /\ act.op = "rng" => q2[m] = ScaleAboutMin(q[m], act.b) /\ <<SpreadOf(q2[m]), 1>> = RatTimes(act.vec, b)
     /\ act.op = "var" => q2[m] = ScaleAboutMin(q[m], act.b) /\ VarOf(q2[m]) = RatTimes(act.vec, b * b)
UnitsStep == [][\A i \in 1..Len(MultSeq) : UnitsStepFor(MultSeq[i])]_vars

-----------------------------------------------------------------------------
(* BOUNDARY CALLS *)
(* the falsy target: center_mass = 0 where the centre of mass is a non-zero integer (a translation by -cm) *)
ZeroCmActs ==
  IF ~ZeroTargets THEN {}
  ELSE {Act("cm", m, -(CenterMass(pm[m])[1]), 0, <<0, 1>>, << >>) :
          m \in {n \in 1..Len(pm) : Mass(pm[n]) # 0 /\ CenterMass(pm[n])[2] = 1 /\ CenterMass(pm[n])[1] # 0}}

(* loads whose vector carries no values (vals stays empty) or a single value (fewer values than points) *)
ValsFor(kind, n) == CASE kind = "all" -> VBase(n) [] kind = "one" -> <<3>> [] OTHER -> << >>
XLoadActs == UNION {{Act("load", 0, 0, 0, LoadVec(sh, ws, 1) \o ValsFor(kind, ProdSeq(sh)), sh) :
                       ws \in WChoices(sh), kind \in ValCounts \ {"all"}} : sh \in Shapes}

XEnabled ==
  IF Len(pm) = 0 THEN LoadActs \cup XLoadActs
  ELSE Enabled \cup (IF steps < MaxSteps THEN {a \in ZeroCmActs : InBox(Apply(a).pm)} ELSE {})

XNext == \E a \in XEnabled : Do(a)
XSpec == Init /\ [][XNext]_vars

(* the zero target is reached: stated on its own so that it cannot pass vacuously inside SetterPost *)
ZeroTargetPost == [][(last'.op = "cm" /\ last'.vec = <<0, 1>>) => Moment1(pm'[last'.a]) = 0]_vars

-----------------------------------------------------------------------------
(* CALLS THAT LEAVE THE INTEGER LATTICE.  The machine keeps integer weights and positions, so it only ever writes an  *)
(* integer next to integers and only ever translates by an integer.  HalfCalls are further calls on a loaded measure, *)
(* stated in HALF units (den = 2: every number of act.c / act.vec / flat / vals is a numerator over 2) through the     *)
(* doubled model q = ScalePM(pm, 2, 2), which by the law of units is the same measure:                                 *)
(*   setw   the weight w of point (m, j) becomes w + 1/2        (successor: SetFootprint on q)                          *)
(*   upd    update(vector) with the first (a weight) resp. last (a position) entry raised by 1/2  (UpdatePM on q)      *)
(*   cm     center_mass = cm + k/2, k in HalfShifts (den = 1, act.vec the rational target; the successor is a          *)
(*          translation off the lattice: flat = <<>>, the post-condition of SetterPost is what is stated)              *)
(* They are emitted with the state (calls) and are not steps of the machine: the successors are not model states.      *)
HalfShifts == {1, -3}
Call(a, den, flat, v) == [act |-> a, den |-> den, shape |-> Shape(pm), flat |-> flat, vals |-> v]
HalfCalls ==
  IF Len(pm) = 0 \/ steps >= MaxSteps THEN {}
  ELSE LET q == ScalePM(pm, 2, 2)  v2 == ScaleSeq(vals, 2)  fq == Flatten(q)
       IN UNION {{Call(Act("setw", m, j, q[m][j][1] + 1, << >>, << >>), 2,
                       Flatten([q EXCEPT ![m][j] = <<@[1] + 1, @[2]>>]), v2) : j \in 1..Len(pm[m])} : m \in 1..Len(pm)}
          \cup {Call(Act("upd", i, fq[i] + 1, 0, [fq EXCEPT ![i] = @ + 1], << >>), 2,
                      Flatten(UpdatePM(q, [fq EXCEPT ![i] = @ + 1])), v2) : i \in {1, Len(fq)}}
          \cup UNION {{Call(Act("cm", m, k, 0, LET cm == CenterMass(pm[m]) IN Rat(2 * cm[1] + k * cm[2], 2 * cm[2]), << >>), 1, << >>, vals) :
                          k \in HalfShifts} : m \in {n \in 1..Len(pm) : Mass(pm[n]) # 0}}
(* what is stated about them: the half-unit successor differs from the doubled state in exactly the addressed slot, by 1; *)
(* the off-lattice target is the centre of mass plus k/2                                                                  *)
HalfCallsOK ==
  \A call \in HalfCalls :
    LET a == call.act  fq == Flatten(ScalePM(pm, 2, 2))
    IN /\ a.op = "setw" => \A i \in 1..Len(fq) : call.flat[i] = fq[i] + (IF i = SlotIndex(Shape(pm), a.a, a.b, 1) THEN 1 ELSE 0)
       /\ a.op = "upd"  => \A i \in 1..Len(fq) : call.flat[i] = fq[i] + (IF i = a.a THEN 1 ELSE 0)
       /\ a.op = "cm"   => RatTimes(a.vec, 2) = RatPlus(RatTimes(CenterMass(pm[a.a]), 2), a.b)

-----------------------------------------------------------------------------
(* EMISSION: the header of Measures.tla extended by the units, the degrees, the units admissible for d factors and the *)
(* slot kinds of every shape; then every reachable state with XSucc                                                      *)
XSucc == {[act |-> a, shape |-> Shape(Apply(a).pm), flat |-> Flatten(Apply(a).pm), vals |-> Apply(a).vals] : a \in XEnabled}

MaxD == LET S == {Len(sh) : sh \in KShapes} IN CHOOSE x \in S : \A y \in S : y <= x
RECURSIVE SetAsSeq(_)
SetAsSeq(S) == IF S = {} THEN << >> ELSE LET x == CHOOSE y \in S : TRUE IN <<x>> \o SetAsSeq(S \ {x})
RECURSIVE IntsAsSeq(_)
IntsAsSeq(S) == IF S = {} THEN << >> ELSE LET x == MinOf(S) IN <<x>> \o IntsAsSeq(S \ {x})

ASSUME PrintT(<<"@@", ToJson([units |-> UnitSeq, mults |-> MultSeq, dims |-> Dims,
                               unitsfor |-> [d \in 1..MaxD |-> IntsAsSeq(UnitsFor(d))],
                               kinds |-> LET S == SetAsSeq(KShapes) IN [i \in 1..Len(S) |-> [sh |-> S[i], k |-> SlotKinds(S[i])]],
                               funcs |-> FuncSeq, vfuncs |-> VFuncSeq, tols |-> TolSeq,
                               zerotargets |-> ZeroTargets, valcounts |-> SetAsSeq(ValCounts)])>>)
XEmit == PrintT(<<"@@", ToJson(IF Len(pm) = 0 THEN [empty |-> TRUE, succ |-> XSucc]
                                 ELSE [obs |-> Obs, succ |-> XSucc, calls |-> HalfCalls])>>)
=============================================================================
