------------------------------- MODULE Moments -------------------------------
(***************************************************************************)
(* C18 -- moments of a weighted point set: the DEFINITIONS                 *)
(* (mystic.math.measures mean / moment / variance / std / spread /         *)
(* expectation / _expected_moment / ess_minimum / ess_maximum / ess_ptp /  *)
(* support / median / mad / tmean / tvariance, mystic.math.distance Lnorm  *)
(* / chebyshev / hamming / minkowski / euclidean / manhattan) and the      *)
(* moment-imposing TRANSFORMS (impose_mean / _variance / _std / _spread /  *)
(* _moment / _median / _mad / _tmean / _tvariance / _tstd, normalize /     *)
(* impose_sum / impose_product / impose_weight_norm, impose_support /      *)
(* impose_unweighted / impose_collapse) as POST-CONDITIONS.                *)
(*                                                                         *)
(* All arithmetic is exact: a number is a normalised rational <<num,den>>  *)
(* (den > 0, gcd 1).  Quantities that are roots in the library (std,       *)
(* L2 norm, euclidean, minkowski) are specified in their squared / cubed   *)
(* form.  <<0,0>> (Undef) marks "not specified here".                      *)
(*                                                                         *)
(* State machine.  A state is a weighted point set:                        *)
(*    samples  -- sequence of positions (rationals)                        *)
(*    weights  -- sequence of weights, same length (rationals >= 0,        *)
(*                not all zero)                                            *)
(* plus ghost variables used by the invariants and by the emitter only:    *)
(*    init -- the initial point set <<samples, weights>> (integers)        *)
(*    hist -- the calls made so far (one record per public call)           *)
(*    cur  -- light observables (mean, var, spread, total, zeros) of the   *)
(*            state (a function of samples, weights: invariant CurIsLight) *)
(*    pre  -- the light observables of the state before the last call      *)
(*    det  -- names of the light observables whose value is fixed by the   *)
(*            post-conditions of the calls made so far (an observable the  *)
(*            last call neither reaches nor promises to keep leaves det)   *)
(* One action per public call.  An action is specified by its              *)
(* post-condition RELATION only (target reached, promised observables      *)
(* kept, designated weights zero): every candidate successor that          *)
(* satisfies the relation is a successor, e.g. ImposeMean(t) admits the    *)
(* shifted point set and its mirror image alike.  The unweighted call      *)
(* f(x) (weights=None) is by definition the weighted one with all weights  *)
(* equal to 1.                                                             *)
(*                                                                         *)
(* Stats.tla EXTENDS this module (standardised moments, tol= forms, a       *)
(* second trimming catalogue, normalisation cases); StatsDist.tla states   *)
(* the distances between SETS of points.                                   *)
(*                                                                         *)
(* Every reachable state is emitted once (INVARIANT Emit): initial states  *)
(* with every definition evaluated on them (Obs) -- the harness compares   *)
(* the real functions with these and checks each single-call               *)
(* post-condition listed in OpTable against them -- and the states reached *)
(* after one or two calls with their history, light observables and det.   *)
(***************************************************************************)
EXTENDS Integers, Sequences, FiniteSets, TLC, Json, SequencesExt, FiniteSetsExt, IOUtils

CONSTANTS Vals,          \* integer sample values of initial states
          Wts,           \* integer weights of initial states (>= 0)
          Lens,          \* lengths of initial states
          MaxSteps,      \* number of transform calls explored (0: definitions only)
          Full,          \* TRUE: emit every definition (initial states); FALSE: light observables only
          SeqMeans,      \* targets <<n,d>> of ImposeMean in explored sequences
          SeqScales,     \* rationals a > 0: ImposeVariance target a*a*var, ImposeSpread target a*spread
          SeqSums,       \* targets of Normalize in explored sequences
          MeanTargets, VarTargets, StdTargets, SpreadTargets, SumTargets, ProdTargets,
          MomTargets, MedTargets, MadTargets,     \* targets of the single-call post-conditions (OpTable)
          TrimMeanTargets, TrimVarTargets, TrimStdTargets   \* ... of the trimmed / winsorised variants

VARIABLES samples, weights, init, hist, cur, pre, det
vars == <<samples, weights, init, hist, cur, pre, det>>

-----------------------------------------------------------------------------
(* exact rational arithmetic                                                *)
Abs(x) == IF x < 0 THEN -x ELSE x
RECURSIVE GCD(_, _)
GCD(a, b) == IF b = 0 THEN a ELSE GCD(b, a % b)           \* a, b >= 0
Q(n, d) == LET g == GCD(Abs(n), Abs(d))                    \* d # 0
               s == IF d < 0 THEN -1 ELSE 1
           IN <<(s * n) \div g, (s * d) \div g>>
Zero == <<0, 1>>
One == <<1, 1>>
Undef == <<0, 0>>
QI(i) == <<i, 1>>
QAdd(a, b) == IF a[2] = b[2] THEN (IF a[2] = 1 THEN <<a[1] + b[1], 1>> ELSE Q(a[1] + b[1], a[2]))
              ELSE LET g == GCD(a[2], b[2])
                   IN Q(a[1] * (b[2] \div g) + b[1] * (a[2] \div g), (a[2] \div g) * b[2])
QNeg(a) == <<-a[1], a[2]>>
QSub(a, b) == QAdd(a, QNeg(b))
QMul(a, b) == IF a[1] = 0 \/ b[1] = 0 THEN Zero
              ELSE IF a[2] = 1 /\ b[2] = 1 THEN <<a[1] * b[1], 1>>
              ELSE LET g1 == GCD(Abs(a[1]), b[2])
                       g2 == GCD(Abs(b[1]), a[2])
                   IN <<(a[1] \div g1) * (b[1] \div g2), (a[2] \div g2) * (b[2] \div g1)>>
QInv(a) == Q(a[2], a[1])                                   \* a # 0
QDiv(a, b) == QMul(a, QInv(b))                             \* b # 0
QLt(a, b) == a[1] * b[2] < b[1] * a[2]
QLe(a, b) == a[1] * b[2] <= b[1] * a[2]
QAbs(a) == <<Abs(a[1]), a[2]>>
QMaxOf(a, b) == IF QLt(a, b) THEN b ELSE a
QMinOf(a, b) == IF QLt(b, a) THEN b ELSE a
RECURSIVE QPow(_, _)
QPow(a, k) == IF k = 0 THEN One ELSE QMul(a, QPow(a, k - 1))

(* sums / extrema of a sequence of rationals *)
RECURSIVE SumTo(_, _)
SumTo(v, k) == IF k = 0 THEN Zero ELSE QAdd(SumTo(v, k - 1), v[k])
QSum(v) == SumTo(v, Len(v))
RECURSIVE MaxTo(_, _)
MaxTo(v, k) == IF k = 1 THEN v[1] ELSE QMaxOf(MaxTo(v, k - 1), v[k])
RECURSIVE MinTo(_, _)
MinTo(v, k) == IF k = 1 THEN v[1] ELSE QMinOf(MinTo(v, k - 1), v[k])
QMax(v) == MaxTo(v, Len(v))
QMin(v) == MinTo(v, Len(v))
RECURSIVE ProdTo(_, _)
ProdTo(v, k) == IF k = 0 THEN One ELSE QMul(ProdTo(v, k - 1), v[k])
Dot(w, v) == QSum(TLCEval([i \in 1..Len(w) |-> QMul(w[i], v[i])]))      \* TLCEval: evaluate eagerly, once
Ones(n) == [i \in 1..n |-> One]            \* f(x) with weights=None means f(x, Ones(Len(x)))

-----------------------------------------------------------------------------
(* DEFINITIONS (textbook, weighted).  Premise everywhere: Total(w) # 0.     *)
Total(w) == QSum(w)
Mean(s, w) == QDiv(Dot(w, s), Total(w))
(* k-th central moment; population form (no Bessel correction), as          *)
(* documented: "the weighted nth-order moment", variance = moment 2         *)
CMoment(s, w, k) == LET m == Mean(s, w)
                    IN QDiv(Dot(w, TLCEval([i \in 1..Len(s) |-> QPow(QSub(s[i], m), k)])), Total(w))
Variance(s, w) == CMoment(s, w, 2)
Spread(s) == QSub(QMax(s), QMin(s))                         \* max - min, weights play no role
SupportIdx(w) == {i \in 1..Len(w) : QLt(Zero, w[i])}        \* positions carrying weight
ZeroIdx(w) == {i \in 1..Len(w) : w[i] = Zero}

(* integer test functions f for expectation / ess-extrema (points are integers there) *)
FnNames == {"sq", "abs", "step", "lin"}
Fn(name, x) == CASE name = "sq" -> x * x
                 [] name = "abs" -> Abs(x)
                 [] name = "step" -> IF x > 0 THEN 1 ELSE 0
                 [] name = "lin" -> 2 * x + 1
FImage(f, s) == TLCEval([i \in 1..Len(s) |-> QI(Fn(f, s[i][1]))])    \* s integer-valued
Expectation(f, s, w) == Mean(FImage(f, s), w)               \* sum w_i f(x_i) / sum w_i
ExpectedMoment(f, s, w, k) == CMoment(FImage(f, s), w, k)   \* expected_variance: k = 2
EssMax(f, s, w) == Max({Fn(f, s[i][1]) : i \in SupportIdx(w)})
EssMin(f, s, w) == Min({Fn(f, s[i][1]) : i \in SupportIdx(w)})
EssPtp(f, s, w) == EssMax(f, s, w) - EssMin(f, s, w)

(* L-p norms of a vector; p = 2 in squared form; p = 0 counts the non-zeros *)
L1(v) == QSum([i \in 1..Len(v) |-> QAbs(v[i])])
L2sq(v) == QSum([i \in 1..Len(v) |-> QMul(v[i], v[i])])
Linf(v) == QMax([i \in 1..Len(v) |-> QAbs(v[i])])
L0(v) == QI(Cardinality({i \in 1..Len(v) : v[i] # Zero}))
(* point-to-point metrics between two points x, y of the same dimension *)
Diff(x, y) == [i \in 1..Len(x) |-> QSub(x[i], y[i])]
Chebyshev(x, y) == Linf(Diff(x, y))
Hamming(x, y) == L0(Diff(x, y))
Manhattan(x, y) == L1(Diff(x, y))                           \* = minkowski p=1
EuclidSq(x, y) == L2sq(Diff(x, y))                          \* = minkowski p=2, squared
Mink3Cube(x, y) == QSum([i \in 1..Len(x) |-> QPow(QAbs(QSub(x[i], y[i])), 3)])  \* default p=3, cubed

(* order statistics: positions sorted ascending (ties by index) and cumulative weight *)
Ord(s) == SetToSortSeq(1..Len(s), LAMBDA i, j : QLt(s[i], s[j]) \/ (s[i] = s[j] /\ i < j))
RECURSIVE CumSeq(_, _, _)                                  \* <<c_1..c_p>>, c_q = weight of the q lowest positions
CumSeq(w, ord, p) == IF p = 0 THEN << >>
                     ELSE LET c == CumSeq(w, ord, p - 1)
                          IN Append(c, QAdd(IF p = 1 THEN Zero ELSE c[p - 1], w[ord[p]]))
Rank(ord) == TLCEval([i \in 1..Len(ord) |-> CHOOSE p \in 1..Len(ord) : ord[p] = i])
AllEqual(w) == \A i \in 1..Len(w) : w[i] = w[1]
(* median: equal weights -> the usual midpoint convention; otherwise the lower weighted      *)
(* median (least position whose cumulative weight reaches half of the total).  For an even   *)
(* number of points with unequal weights mystic uses a convention of its own (mean of that   *)
(* position and its successor), which C18 does not ask to be textbook: Undef here.           *)
Median(s, w) ==
  LET n == Len(s)
      ord == Ord(s)
      cum == CumSeq(w, ord, n)
      half == QMul(<<1, 2>>, cum[n])
      p == Min({q \in 1..n : QLe(half, cum[q])})
  IN IF AllEqual(w)
     THEN IF n % 2 = 1 THEN s[ord[(n + 1) \div 2]]
          ELSE QMul(<<1, 2>>, QAdd(s[ord[n \div 2]], s[ord[n \div 2 + 1]]))
     ELSE IF n % 2 = 1 THEN s[ord[p]] ELSE Undef
Mad(s, w) == LET m == Median(s, w)                          \* median absolute deviation from the median
             IN IF m = Undef THEN Undef ELSE Median(TLCEval([i \in 1..Len(s) |-> QAbs(QSub(s[i], m))]), w)

(* trimming catalogue: <<lo, hi>> percent cut from the lower / upper tail (k = <<lo,hi>>)   *)
Ks == << <<0, 0>>, <<25, 25>>, <<25, 0>>, <<10, 40>> >>
(* interpolated trimmed weights: the part of each point's weight inside [lo*W, (1-hi)*W]    *)
(* general form: klo / khi percent (integers) cut from the lower / upper tail; TrimW(.., k) is entry k of Ks   *)
TrimWq(ord, cum, klo, khi) ==
  LET n == Len(ord)
      W == cum[n]
      lo == QMul(Q(klo, 100), W)
      hi == QMul(Q(100 - khi, 100), W)
      tw(p) == LET a == IF p = 1 THEN Zero ELSE cum[p - 1]
                   b == cum[p]
                   d == QSub(QMinOf(b, hi), QMaxOf(a, lo))
               IN IF QLt(d, Zero) THEN Zero ELSE d
      rank == Rank(ord)
  IN TLCEval([i \in 1..n |-> tw(rank[i])])
TrimW(ord, cum, k) == TrimWq(ord, cum, Ks[k][1], Ks[k][2])
TMean(s, w, k) == LET ord == Ord(s) IN Mean(s, TrimW(ord, CumSeq(w, ord, Len(s)), k))
TVar(s, w, k) == LET ord == Ord(s) IN Variance(s, TrimW(ord, CumSeq(w, ord, Len(s)), k))
(* winsorised weights: the trimmed mass is moved onto the boundary points instead           *)
(* (general form WinsWq: klo / khi percent; defined when the two quantile positions do not cross, which   *)
(* is the case whenever klo + khi < 100)                                                                  *)
WinsWq(w, ord, cum, klo, khi) ==
  LET n == Len(ord)
      W == cum[n]
      lo == QMul(Q(klo, 100), W)
      hi == QMul(Q(khi, 100), W)
      below(p) == IF p = 1 THEN Zero ELSE cum[p - 1]
      plo == Min({p \in 1..n : QLt(lo, cum[p])})                  \* position of the lo-quantile
      phi == Max({p \in 1..n : QLt(hi, QSub(W, below(p)))})       \* position of the (1-hi)-quantile
      ww(p) == IF p < plo \/ p > phi THEN Zero
               ELSE IF p = plo /\ p = phi THEN W
               ELSE IF p = plo THEN cum[p]
               ELSE IF p = phi THEN QSub(W, below(p))
               ELSE w[ord[p]]
      rank == Rank(ord)
  IN TLCEval([i \in 1..n |-> ww(rank[i])])
WinsW(w, ord, cum, k) == WinsWq(w, ord, cum, Ks[k][1], Ks[k][2])
WinsMean(s, w, k) == LET ord == Ord(s) IN Mean(s, WinsW(w, ord, CumSeq(w, ord, Len(s)), k))

-----------------------------------------------------------------------------
(* OBSERVABLES                                                              *)
(* light: what the state machine reasons about *)
Light(s, w) == [mean |-> Mean(s, w), var |-> Variance(s, w), spread |-> Spread(s),
                total |-> Total(w), zeros |-> ZeroIdx(w)]
LightNames == {"mean", "var", "spread", "total", "zeros"}

(* full: every definition, evaluated on an integer-valued state *)
Obs(s, w) ==
  LET ord == Ord(s)
      cum == CumSeq(w, ord, Len(s))
      tw == TLCEval([k \in 1..Len(Ks) |-> TrimW(ord, cum, k)])
  IN
  [mean |-> Mean(s, w), var |-> Variance(s, w), m3 |-> CMoment(s, w, 3), m4 |-> CMoment(s, w, 4),
   spread |-> Spread(s), total |-> Total(w), prod |-> ProdTo(w, Len(w)),
   support |-> SupportIdx(w),
   median |-> Median(s, w), mad |-> Mad(s, w),
   tmean |-> [k \in 1..Len(Ks) |-> Mean(s, tw[k])],
   tvar |-> [k \in 1..Len(Ks) |-> Variance(s, tw[k])],
   wmean |-> [k \in 1..Len(Ks) |-> Mean(s, WinsW(w, ord, cum, k))],
   wvar |-> [k \in 1..Len(Ks) |-> Variance(s, WinsW(w, ord, cum, k))],      \* winsorised variance (clip=True)
   exp |-> [f \in FnNames |-> Expectation(f, s, w)],
   expvar |-> [f \in FnNames |-> ExpectedMoment(f, s, w, 2)],
   essmin |-> [f \in FnNames |-> EssMin(f, s, w)],
   essmax |-> [f \in FnNames |-> EssMax(f, s, w)],
   essptp |-> [f \in FnNames |-> EssPtp(f, s, w)],
   norm |-> [s1 |-> L1(s), s2sq |-> L2sq(s), sinf |-> Linf(s), s0 |-> L0(s),
             w1 |-> L1(w), w2sq |-> L2sq(w), winf |-> Linf(w), w0 |-> L0(w)],
   dist |-> [cheb |-> Chebyshev(s, w), hamming |-> Hamming(s, w), manh |-> Manhattan(s, w),
             euclsq |-> EuclidSq(s, w), mink3cube |-> Mink3Cube(s, w)]]

-----------------------------------------------------------------------------
(* POST-CONDITIONS of the sample / weight transforms, as a table.           *)
(* A row: calling `fn` (trimming entry k of Ks, winsorising if clip, moment *)
(* order `ord`) with target t on a state where observable `needs` is not    *)
(* zero returns a point set / weight vector on which observable `reach`     *)
(* equals t (t*t if sq) and every observable in `keep` has the value it had *)
(* before.  An observable is named by [o, j]: field o of Obs (entry j of    *)
(* it if j > 0).                                                            *)
R(o, j) == [o |-> o, j |-> j]
None == R("", 0)
Row(fn, k, clip, ord, reach, keep, needs, sq, targets) ==
  [fn |-> fn, k |-> k, clip |-> clip, ord |-> ord, reach |-> reach, keep |-> keep, needs |-> needs,
   sq |-> sq, targets |-> targets]
OpTable ==
  {Row("impose_mean", 0, FALSE, 0, R("mean", 0), {R("var", 0), R("spread", 0)}, None, FALSE, MeanTargets),
   Row("impose_variance", 0, FALSE, 0, R("var", 0), {R("mean", 0)}, R("var", 0), FALSE, VarTargets),
   Row("impose_std", 0, FALSE, 0, R("var", 0), {R("mean", 0)}, R("var", 0), TRUE, StdTargets),
   Row("impose_spread", 0, FALSE, 0, R("spread", 0), {R("mean", 0)}, R("spread", 0), FALSE, SpreadTargets),
   Row("impose_moment", 0, FALSE, 2, R("var", 0), {R("mean", 0)}, R("var", 0), FALSE, VarTargets),
   Row("impose_moment", 0, FALSE, 3, R("m3", 0), {R("mean", 0)}, R("m3", 0), FALSE, MomTargets),
   Row("impose_moment", 0, FALSE, 4, R("m4", 0), {R("mean", 0)}, R("m4", 0), FALSE, VarTargets),
   Row("impose_median", 0, FALSE, 0, R("median", 0), {R("spread", 0), R("mad", 0)}, None, FALSE, MedTargets),
   Row("impose_mad", 0, FALSE, 0, R("mad", 0), {R("median", 0)}, R("mad", 0), FALSE, MadTargets),
   Row("normalize", 0, FALSE, 0, R("total", 0), {}, None, FALSE, SumTargets),
   Row("impose_sum", 0, FALSE, 0, R("total", 0), {}, None, FALSE, SumTargets),
   Row("impose_weight_norm", 0, FALSE, 0, R("total", 0), {R("mean", 0)}, None, FALSE, SumTargets \ {Zero}),  \* no mean without weight
   Row("impose_product", 0, FALSE, 0, R("prod", 0), {}, R("prod", 0), FALSE, ProdTargets)}
  \cup {Row("impose_tmean", k, FALSE, 0, R("tmean", k), {R("tvar", k), R("spread", 0)}, None, FALSE, TrimMeanTargets)
          : k \in 1..Len(Ks)}
  \cup {Row("impose_tvariance", k, FALSE, 0, R("tvar", k), {R("tmean", k)}, R("tvar", k), FALSE, TrimVarTargets)
          : k \in 1..Len(Ks)}
  \cup {Row("impose_tstd", k, FALSE, 0, R("tvar", k), {R("tmean", k)}, R("tvar", k), TRUE, TrimStdTargets)
          : k \in 1..Len(Ks)}
  \cup {Row("impose_tmean", k, TRUE, 0, R("wmean", k), {R("spread", 0)}, None, FALSE, TrimMeanTargets)
          : k \in 1..Len(Ks)}
  \* winsorised (clip=True) variance / std: the winsorised mean is what they promise to keep
  \cup {Row("impose_tvariance", k, TRUE, 0, R("wvar", k), {R("wmean", k)}, R("wvar", k), FALSE, TrimVarTargets)
          : k \in 1..Len(Ks)}
  \cup {Row("impose_tstd", k, TRUE, 0, R("wvar", k), {R("wmean", k)}, R("wvar", k), TRUE, TrimStdTargets)
          : k \in 1..Len(Ks)}

(* support surgery.  A selection is a set of positions (support / unweighted) or a set of   *)
(* pairs <<i,j>> (collapse: j hands its weight to i and moves to the position of i, as in    *)
(* the examples of the docstring).  `zero` is the set of designated positions: exactly      *)
(* these lose their weight (a position that is not designated keeps a non-zero weight       *)
(* non-zero); total weight and weighted mean are kept.                                      *)
Firsts(P) == {p[1] : p \in P}
Seconds(P) == {p[2] : p \in P}
(* unambiguous collapse: no position both gives and receives, nobody gives twice *)
SimplePairs(P) == Firsts(P) \cap Seconds(P) = {} /\ Cardinality(Seconds(P)) = Cardinality(P)
Touched(P) == Firsts(P) \cup Seconds(P)
(* every single pair; every two pairs (for n = 4: those among positions 1..3 and those touching all four) *)
PairSets(n) == {P \in SUBSET {<<i, j>> \in (1..n) \X (1..n) : i # j} :
                  \/ Cardinality(P) = 1
                  \/ Cardinality(P) = 2 /\ (n <= 3 \/ Touched(P) \subseteq 1..3 \/ Cardinality(Touched(P)) = 4)}
               \* a position "collapsed onto itself" designates nothing (Seconds \ Firsts is empty): alone, and beside a real pair
               \cup {{<<i, i>>} : i \in 1..n}
               \cup {{<<t[1], t[1]>>, <<t[2], t[3]>>} :
                        t \in {u \in (1..n) \X (1..n) \X (1..n) : u[2] # u[3] /\ u[3] # u[1] /\ u[2] # u[1]}}
Selections ==       \* per length n: the catalogue of selections, each with its designated set
  [n \in 1..4 |->
     [support |-> SetToSeq({[arg |-> I, zero |-> (1..n) \ I] : I \in (SUBSET (1..n)) \ {{}}}),
      unweighted |-> SetToSeq({[arg |-> I, zero |-> I] : I \in (SUBSET (1..n)) \ {1..n}}),
      collapse |-> SetToSeq({[arg |-> P, zero |-> Seconds(P) \ Firsts(P), simple |-> SimplePairs(P),
                              cyclic |-> \E q \in P : <<q[2], q[1]>> \in P]      \* a pair listed in both orientations
                               : P \in PairSets(n)})]]
(* a selection is applicable iff the weight that remains is not zero *)
Remaining(w, Z) == QSum([i \in 1..Len(w) |-> IF i \in Z THEN Zero ELSE w[i]])
(* weights after a simple collapse: receivers take the weight of their givers *)
Merged(w, P) == [i \in 1..Len(w) |-> IF i \in Seconds(P) THEN Zero
                                       ELSE QAdd(w[i], QSum([j \in 1..Len(w) |-> IF <<i, j>> \in P THEN w[j] ELSE Zero]))]
ZeroExactly(w2, w, Z) == \A i \in 1..Len(w) : (i \in Z => w2[i] = Zero) /\ (i \notin Z /\ w[i] # Zero => w2[i] # Zero)
PostSurgery(s, w, s2, w2, Z) ==          \* the relation; action Surgery below tests it on the light observables
  /\ ZeroExactly(w2, w, Z)
  /\ Total(w2) = Total(w)
  /\ Mean(s2, w2) = Mean(s, w)

(* a collapse along chains / with shared givers is order dependent in its details; what is    *)
(* claimed for it: every position that only gives ends with weight zero, total and mean kept  *)
PostCollapseAny(s, w, s2, w2, P) ==
  /\ \A i \in Seconds(P) \ Firsts(P) : w2[i] = Zero
  /\ Total(w2) = Total(w)
  /\ Mean(s2, w2) = Mean(s, w)
-----------------------------------------------------------------------------
(* THE STATE MACHINE                                                        *)
Shard == IF "SHARD" \in DOMAIN IOEnv THEN atoi(IOEnv.SHARD) ELSE 0
NShards == IF "NSHARDS" \in DOMAIN IOEnv THEN atoi(IOEnv.NSHARDS) ELSE 1
RECURSIVE MixTo(_, _, _)
MixTo(s, w, k) == IF k = 0 THEN 0 ELSE (MixTo(s, w, k - 1) * 3 + s[k][1] + 7 * w[k][1] + 40) % 1000003

Init == /\ \E n \in Lens : /\ samples \in [1..n -> {QI(v) : v \in Vals}]
                           /\ weights \in [1..n -> {QI(v) : v \in Wts}]
        /\ Total(weights) # Zero
        /\ MixTo(samples, weights, Len(samples)) % NShards = Shard      \* one shard of the initial states per TLC process
        /\ init = <<[i \in 1..Len(samples) |-> samples[i][1]], [i \in 1..Len(weights) |-> weights[i][1]]>>
        /\ hist = << >>
        /\ cur = Light(samples, weights)
        /\ pre = cur
        /\ det = LightNames

N == Len(samples)
Call(fn, t, sel) == [fn |-> fn, t |-> t, sel |-> sel]       \* sel: index into Selections[N][...] or 0
(* every action: the successor <<s2, w2>> with light observables l2 is recorded, the call is logged *)
Step(fn, t, sel, s2, w2, l2, newdet) ==
  /\ samples' = s2 /\ weights' = w2 /\ cur' = l2
  /\ hist' = Append(hist, Call(fn, t, sel))
  /\ UNCHANGED init
  /\ pre' = cur
  /\ det' = newdet
(* candidate images of the point set: x -> a*(x - c) + d *)
Affine(a, c, d) == TLCEval([i \in 1..N |-> QAdd(QMul(a, QSub(samples[i], c)), d)])
Signed(S) == S \cup {QNeg(a) : a \in S}

(* ImposeMean(t): mean' = t, variance and spread as before (weights are not touched) *)
ImposeMean(t) ==
  \E a \in Signed({One}) :
     LET s2 == Affine(a, cur.mean, t)
         l2 == Light(s2, weights) IN
       /\ l2.mean = t
       /\ l2.var = cur.var
       /\ l2.spread = cur.spread
       /\ Step("impose_mean", t, 0, s2, weights, l2, {"mean"} \cup (det \cap {"var", "spread", "total", "zeros"}))

(* ImposeVariance(v): defined for non-degenerate variance; variance' = v, mean as before *)
ImposeVariance(v) ==
  /\ cur.var # Zero
  /\ \E a \in Signed(SeqScales) :
       LET s2 == Affine(a, cur.mean, cur.mean)
           l2 == Light(s2, weights) IN
         /\ l2.var = v
         /\ l2.mean = cur.mean
         /\ Step("impose_variance", v, 0, s2, weights, l2, {"var"} \cup (det \cap {"mean", "total", "zeros"}))

(* ImposeSpread(r): defined for non-degenerate spread; spread' = r, mean as before *)
ImposeSpread(r) ==
  /\ cur.spread # Zero
  /\ \E a \in Signed(SeqScales) :
       LET s2 == Affine(a, cur.mean, cur.mean)
           l2 == Light(s2, weights) IN
         /\ l2.spread = r
         /\ l2.mean = cur.mean
         /\ Step("impose_spread", r, 0, s2, weights, l2, {"spread"} \cup (det \cap {"mean", "total", "zeros"}))

(* Normalize(t) (= impose_sum): total weight' = t; nothing else is promised *)
Normalize(t) ==
  LET w2 == TLCEval([i \in 1..N |-> QMul(weights[i], QDiv(t, cur.total))])
      l2 == Light(samples, w2) IN
    /\ l2.total = t
    /\ Step("normalize", t, 0, samples, w2, l2, {"total"} \cup (det \cap {"spread"}))

(* the three surgeries: candidate = rescale what remains to the old total, shift to the old mean *)
Surgery(fn, j, Z, wcut, scut, newdet) ==
  LET w2 == TLCEval([i \in 1..N |-> QMul(wcut[i], QDiv(cur.total, Total(wcut)))])
      s2 == TLCEval([i \in 1..N |-> QAdd(scut[i], QSub(cur.mean, Mean(scut, w2)))])
      l2 == Light(s2, w2) IN
    /\ ZeroExactly(w2, weights, Z) /\ l2.total = cur.total /\ l2.mean = cur.mean     \* = PostSurgery
    /\ Step(fn, Zero, j, s2, w2, l2, newdet)
ImposeSupport(j) ==
  LET sel == Selections[N].support[j] IN
    /\ Remaining(weights, sel.zero) # Zero
    /\ Surgery("impose_support", j, sel.zero, [i \in 1..N |-> IF i \in sel.zero THEN Zero ELSE weights[i]], samples,
               det \cap {"mean", "total", "zeros"})
ImposeUnweighted(j) ==
  LET sel == Selections[N].unweighted[j] IN
    /\ Remaining(weights, sel.zero) # Zero
    /\ Surgery("impose_unweighted", j, sel.zero, [i \in 1..N |-> IF i \in sel.zero THEN Zero ELSE weights[i]], samples,
               det \cap {"mean", "total", "zeros"})
(* impose_unweighted(..., nullable=False): "avoid null weights by reweighting non-index weights".  When the   *)
(* weight remaining outside the designated set is zero (but the total is not), the non-designated positions     *)
(* are weighted equally before the usual normalisation: designated weights are zero, every other position       *)
(* carries total/(N - |Z|), total weight and weighted mean are kept.  When something remains, nullable=False     *)
(* changes nothing (same post-state as ImposeUnweighted).  The harness replays the call on every state      *)
(* with the RescueWeights printed by Emit as the expected weights.                                              *)
RescueWeights(w, Z) == [i \in 1..Len(w) |-> IF i \in Z THEN Zero
                                              ELSE QDiv(Total(w), <<Len(w) - Cardinality(Z), 1>>)]
NeedsRescue(w, Z) == Remaining(w, Z) = Zero /\ Total(w) # Zero /\ Z # 1..Len(w)
(* the rescue keeps the total: TLC checks it on every emitted state (see RescueKeepsTotal below) *)
RescueKeepsTotal == \A j \in 1..Len(Selections[N].unweighted) :
                      LET Z == Selections[N].unweighted[j].zero IN
                        NeedsRescue(weights, Z) => Total(RescueWeights(weights, Z)) = Total(weights)

ImposeCollapse(j) ==
  LET sel == Selections[N].collapse[j]
      rcv(i) == IF \E p \in sel.arg : p[2] = i THEN (CHOOSE p \in sel.arg : p[2] = i)[1] ELSE i IN
    /\ sel.simple
    /\ Surgery("impose_collapse", j, sel.zero, Merged(weights, sel.arg), [i \in 1..N |-> samples[rcv(i)]],
               det \cap {"mean", "total"})       \* whether a weightless receiver ends up weightless is not fixed by the relation
    /\ \A p \in sel.arg : samples'[p[1]] = samples'[p[2]]             \* the pair now shares one position

Next == /\ Len(hist) < MaxSteps
        /\ \/ \E t \in SeqMeans : ImposeMean(t)
           \/ \E a \in SeqScales : ImposeVariance(QMul(QMul(a, a), cur.var))
           \/ \E a \in SeqScales : ImposeSpread(QMul(a, cur.spread))
           \/ \E t \in SeqSums : Normalize(t)
           \/ \E j \in 1..Len(Selections[N].support) : ImposeSupport(j)
           \/ \E j \in 1..Len(Selections[N].unweighted) : ImposeUnweighted(j)
           \/ \E j \in 1..Len(Selections[N].collapse) : ImposeCollapse(j)
Spec == Init /\ [][Next]_vars

-----------------------------------------------------------------------------
(* INVARIANTS (design facts TLC checks on every reachable state)            *)
Cur == cur
LastCall == hist[Len(hist)]
TypeOK == /\ Len(samples) = Len(weights) /\ cur.total # Zero
          /\ \A i \in 1..N : weights[i][2] > 0 /\ QLe(Zero, weights[i]) /\ samples[i][2] > 0
CurIsLight == cur = Light(samples, weights)          \* the ghost really is the observation of the state
(* after ImposeMean(t): mean = t and variance and spread unchanged *)
AfterImposeMean == (hist # << >> /\ LastCall.fn = "impose_mean") =>
                      Cur.mean = LastCall.t /\ Cur.var = pre.var /\ Cur.spread = pre.spread
AfterImposeVariance == (hist # << >> /\ LastCall.fn = "impose_variance") => Cur.var = LastCall.t /\ Cur.mean = pre.mean
AfterImposeSpread == (hist # << >> /\ LastCall.fn = "impose_spread") => Cur.spread = LastCall.t /\ Cur.mean = pre.mean
AfterNormalize == (hist # << >> /\ LastCall.fn = "normalize") => Cur.total = LastCall.t
AfterSurgery == (hist # << >> /\ LastCall.fn \in {"impose_support", "impose_unweighted", "impose_collapse"}) =>
                   /\ Cur.total = pre.total /\ Cur.mean = pre.mean
                   /\ (LastCall.fn # "impose_collapse" => pre.zeros \subseteq Cur.zeros)
(* sequences: a later call keeps what an earlier one established, when it promises to *)
VarianceThenMean == (Len(hist) = 2 /\ hist[1].fn = "impose_variance" /\ hist[2].fn = "impose_mean") =>
                       Cur.var = hist[1].t /\ Cur.mean = hist[2].t
MeanThenVariance == (Len(hist) = 2 /\ hist[1].fn = "impose_mean" /\ hist[2].fn = "impose_variance") =>
                       Cur.mean = hist[1].t /\ Cur.var = hist[2].t
MeanThenSpread == (Len(hist) = 2 /\ hist[1].fn = "impose_mean" /\ hist[2].fn = "impose_spread") =>
                       Cur.mean = hist[1].t /\ Cur.spread = hist[2].t
SurgeryThenMean == (Len(hist) = 2 /\ hist[1].fn \in {"impose_support", "impose_unweighted", "impose_collapse"}
                      /\ hist[2].fn = "impose_mean") => Cur.mean = hist[2].t /\ Cur.total = pre.total /\ Cur.zeros = pre.zeros
(* definitions: sanity relations between them *)
DefFacts == /\ QLe(Zero, Cur.var) /\ QLe(Zero, Cur.spread)
            /\ (Cur.var = Zero <=> \A i, j \in SupportIdx(weights) : samples[i] = samples[j])
            /\ QLe(QMul(<<4, 1>>, Cur.var), QMul(Cur.spread, Cur.spread))        \* Popoviciu
            /\ CMoment(samples, weights, 1) = Zero
(* TRANSLATION: the mean moves with the samples, central moments do not (what licenses the harness to ask for the   *)
(* moments of the same samples moved by +-2^22 and to expect the values printed for the unmoved ones)                *)
Shifted(s, c) == [i \in 1..Len(s) |-> QAdd(s[i], <<c, 1>>)]
ShiftLaw == \A c \in {1, -3, 7} :
               /\ Mean(Shifted(samples, c), weights) = QAdd(Cur.mean, <<c, 1>>)
               /\ Variance(Shifted(samples, c), weights) = Cur.var
               /\ CMoment(Shifted(samples, c), weights, 3) = CMoment(samples, weights, 3)
MedianFacts == LET m == Median(samples, weights) IN         \* a median splits the weight in halves
                 m # Undef =>
                     /\ QLe(QMul(<<2, 1>>, QSum([i \in 1..N |-> IF QLt(samples[i], m) THEN weights[i] ELSE Zero])), Cur.total)
                     /\ QLe(QMul(<<2, 1>>, QSum([i \in 1..N |-> IF QLt(m, samples[i]) THEN weights[i] ELSE Zero])), Cur.total)
(* trimming nothing is no trimming; trimmed weights keep the total (1 - lo - hi) * W *)
TrimFacts == /\ TMean(samples, weights, 1) = Cur.mean /\ TVar(samples, weights, 1) = Cur.var
             /\ WinsMean(samples, weights, 1) = Cur.mean
             /\ \A k \in 1..Len(Ks) :
                   LET ord == Ord(samples)
                       cum == CumSeq(weights, ord, N) IN
                     /\ QSum(TrimW(ord, cum, k)) = QMul(Q(100 - Ks[k][1] - Ks[k][2], 100), Cur.total)
                     /\ QSum(WinsW(weights, ord, cum, k)) = Cur.total
(* vacuity probes: configured as invariants in MC_Moments_probe.cfg, TLC must violate each *)
NeverVarianceThenMean == ~(Len(hist) = 2 /\ hist[1].fn = "impose_variance" /\ hist[2].fn = "impose_mean")
NeverCollapse == ~(hist # << >> /\ LastCall.fn = "impose_collapse")
NeverUndetermined == "spread" \in det

-----------------------------------------------------------------------------
(* EMISSION                                                                 *)
FnTable == [f \in FnNames |-> [x \in Vals |-> Fn(f, x)]]
ASSUME PrintT(<<"@@", ToJson([ops |-> SetToSeq(OpTable), ks |-> Ks, fns |-> FnTable,
                              selections |-> Selections])>>)
Emit == PrintT(<<"@@", ToJson(IF Full /\ hist = << >>
                              THEN [s |-> samples, w |-> weights, obs |-> Obs(samples, weights),
                                    supp_ok |-> {j \in 1..Len(Selections[N].support) :
                                                   Remaining(weights, Selections[N].support[j].zero) # Zero},
                                    unw_ok |-> {j \in 1..Len(Selections[N].unweighted) :
                                                   Remaining(weights, Selections[N].unweighted[j].zero) # Zero},
                                    unw_rescue |-> {<<j, RescueWeights(weights, Selections[N].unweighted[j].zero)>> :
                                                       j \in {k \in 1..Len(Selections[N].unweighted) :
                                                                NeedsRescue(weights, Selections[N].unweighted[k].zero)}}]
                              ELSE [init |-> init, s |-> samples, w |-> weights, hist |-> hist, light |-> Cur, det |-> det])>>)
=============================================================================
