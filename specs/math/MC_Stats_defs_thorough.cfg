SPECIFICATION StatsSpec
CONSTANTS
  Vals <- V7
  Wts <- W4
  Lens = {1, 2, 3}
  MaxSteps = 0
  StatSteps = 0
  Full = TRUE
  SeqMeans <- SMeans
  SeqScales <- SScales
  SeqSums <- SSums
  MeanTargets <- TMeanT
  VarTargets <- TVarT
  StdTargets <- TStdT
  SpreadTargets <- TSpreadT
  SumTargets <- TSumT
  ProdTargets <- TProdT
  MomTargets <- TMomT
  MedTargets <- TMedT
  MadTargets <- TMadT
  TrimMeanTargets <- TTrimMeanT
  TrimVarTargets <- TTrimVarT
  TrimStdTargets <- TTrimStdT
  Tols <- STols
  MeanTols <- SMeanTols
  Us <- SUs
  MedTargets2 <- TMedT2
  MadTargets2 <- TMadT2
  TrimMeanTargets2 <- TTrimMeanT2
  TrimVarTargets2 <- TTrimVarT2
  TrimStdTargets2 <- TTrimStdT2
  NormVals <- NV7
  NormLens = {1, 2, 3}
  NormMasses <- TNormM
  ZMasses <- TZM
INVARIANT TypeOK
INVARIANT CurIsLight
INVARIANT IntFacts
INVARIANT EmitStats
