SPECIFICATION Spec
CONSTANTS
  Vals <- V3
  Wts <- W3
  Lens = {2, 3}
  MaxSteps = 1
  Full = FALSE
  SeqMeans <- SMeans
  SeqScales <- SScales
  SeqSums <- SSums
  MeanTargets <- QMeanT
  VarTargets <- QVarT
  StdTargets <- QStdT
  SpreadTargets <- QSpreadT
  SumTargets <- QSumT
  ProdTargets <- QProdT
  MomTargets <- QMomT
  MedTargets <- QMedT
  MadTargets <- QMadT
  TrimMeanTargets <- QTrimMeanT
  TrimVarTargets <- QTrimVarT
  TrimStdTargets <- QTrimStdT
INVARIANT TypeOK
INVARIANT AfterImposeMean
INVARIANT AfterImposeVariance
INVARIANT AfterImposeSpread
INVARIANT AfterNormalize
INVARIANT AfterSurgery
INVARIANT VarianceThenMean
INVARIANT MeanThenVariance
INVARIANT MeanThenSpread
INVARIANT SurgeryThenMean
INVARIANT DefFacts
INVARIANT ShiftLaw
INVARIANT MedianFacts
INVARIANT TrimFacts
INVARIANT CurIsLight
