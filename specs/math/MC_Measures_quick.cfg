SPECIFICATION Spec
CONSTANTS
  Shapes <- MCShapes
  WFam <- QWFam
  WAlt <- MCWAlt
  XAlt <- MCXAlt
  PMin <- MCPMin
  PMax = 10
  MaxFactors = 3
  MaxSteps = 1
  Shifts <- MCShifts
  Scales <- MCScales
  TolSeq <- MCTols
  FuncSeq <- MCFuncs
  VFuncSeq <- MCVFuncs
VIEW View
INVARIANT TypeOK
INVARIANT RoundTrip
INVARIANT ComposeDecompose
INVARIANT PackUnpack
INVARIANT PackOrder
INVARIANT FlattenLayout
INVARIANT MassProduct
INVARIANT Factorizes
INVARIANT PofComplement
INVARIANT SupportWeight
PROPERTY UpdateFootprint
PROPERTY SetFootprint
PROPERTY LoadPost
PROPERTY SetterPost
INVARIANT Emit
