SPECIFICATION StatsSpec
CONSTANTS
  Vals <- V3
  Wts <- W3
  Lens = {2, 3}
  MaxSteps = 0
  StatSteps = 1
  Full = TRUE
  SeqMeans <- SMeans
  SeqScales <- SScales
  SeqSums <- SSums
  MeanTargets <- QMeanT
  VarTargets <- QVarT
  StdTargets <- QStdT
  SpreadTargets <- QSpreadT
  SumTargets <- QSumT
  ProdTargets <- QProdT
  MomTargets <- QMomT
  MedTargets <- QMedT
  MadTargets <- QMadT
  TrimMeanTargets <- QTrimMeanT
  TrimVarTargets <- QTrimVarT
  TrimStdTargets <- QTrimStdT
  Tols <- STols
  MeanTols <- SMeanTols
  Us <- SUs
  MedTargets2 <- QMedT2
  MadTargets2 <- QMadT2
  TrimMeanTargets2 <- QTrimMeanT2
  TrimVarTargets2 <- QTrimVarT2
  TrimStdTargets2 <- QTrimStdT2
  NormVals <- NV5
  NormLens = {2, 3}
  NormMasses <- QNormM
  ZMasses <- QZM
INVARIANT TypeOK
INVARIANT CurIsLight
INVARIANT StatsFacts
INVARIANT AfterImposeMedian
INVARIANT AfterImposeMad
INVARIANT AfterImposeTMean
INVARIANT AfterImposeTVariance
INVARIANT WeightsUntouched
INVARIANT NeverClippedTVariance
