SPECIFICATION FairSpec
CONSTANTS
  N = 8
  Vals = {0, 1, 2, 3}
  K = 1
  Confs <- MConfs22
  Points <- MPoints22s
  Design = "closed"
  MaskRule = "extend"
  Record = FALSE
INVARIANT ReportedDisjoint
INVARIANT MaskGrewByReported
INVARIANT MaskBounded
INVARIANT CollapseBound
INVARIANT EvalSatisfies
PROPERTY MaskMonotone
PROPERTY StrictGrowth
PROPERTY NeverTwice
PROPERTY CollapseOnlyOnCollapseStop
PROPERTY Terminates
