------------------------------ MODULE TermTree ------------------------------
(***************************************************************************)
(* And / Or / When expression trees over leaf conditions.                  *)
(*                                                                         *)
(* A tree is a record [op, i, kids]: op = "L" is leaf number i (kids = <<>>)*)
(* and "And" / "Or" / "When" are compound nodes.  A state of the machine   *)
(* is a tree together with a valuation of the leaves (which leaf           *)
(* conditions currently hold on the solver); the solver changing state is  *)
(* a change of valuation.                                                  *)
(*   Sat(t, v)   the tree is satisfied                                     *)
(*   Info(t, v)  the set of leaves named by t(solver, info=True)           *)
(*   Self(t, v)  the direct members returned by t(solver, info='self')     *)
(***************************************************************************)
EXTENDS Integers, Sequences, FiniteSets, TLC, Json, SequencesExt, IOUtils

CONSTANTS NLeaves, Depth, Wide   \* Wide: also build 3-ary nodes over leaves

Leaf(i)      == [op |-> "L", i |-> i, kids |-> << >>]
Node(op, ks) == [op |-> op, i |-> 0, kids |-> ks]
Leaves == {Leaf(i) : i \in 1..NLeaves}

Grow(S, B) ==   \* one more level; B = operands allowed beside a deep one
  S \cup {Node("When", <<t>>) : t \in S}
    \cup {Node(op, <<t>>) : op \in {"And", "Or"}, t \in S}
    \cup {Node(op, <<a, b>>) : op \in {"And", "Or"}, a \in S, b \in B}
    \cup {Node(op, <<b, a>>) : op \in {"And", "Or"}, a \in S, b \in B}
    \cup (IF Wide THEN {Node(op, <<a, b, c>>) : op \in {"And", "Or"}, a \in Leaves, b \in Leaves, c \in Leaves}
          ELSE {})

RECURSIVE TreesOf(_)
TreesOf(d) == IF d = 0 THEN Leaves
              ELSE IF d = 1 THEN Grow(Leaves, Leaves)
              ELSE Grow(TreesOf(d - 1), Leaves \cup (IF d = 2 THEN TreesOf(1) ELSE {}))

Trees == TreesOf(Depth)
Valuations == [1..NLeaves -> BOOLEAN]

RECURSIVE Sat(_, _)
Sat(t, v) ==
  CASE t.op = "L"    -> v[t.i]
    [] t.op = "Or"   -> \E k \in 1..Len(t.kids) : Sat(t.kids[k], v)
    [] OTHER         -> \A k \in 1..Len(t.kids) : Sat(t.kids[k], v)   \* And, When

RECURSIVE Info(_, _)
Info(t, v) ==
  CASE t.op = "L"    -> IF v[t.i] THEN {t.i} ELSE {}
    [] t.op = "Or"   -> UNION {Info(t.kids[k], v) : k \in {j \in 1..Len(t.kids) : Sat(t.kids[j], v)}}
    [] OTHER         -> IF Sat(t, v) THEN UNION {Info(t.kids[k], v) : k \in 1..Len(t.kids)} ELSE {}

(* info='self': positions of the direct members reported *)
Self(t, v) ==
  CASE t.op = "L"    -> {}
    [] t.op = "Or"   -> {k \in 1..Len(t.kids) : Sat(t.kids[k], v)}
    [] OTHER         -> IF Sat(t, v) THEN 1..Len(t.kids) ELSE {}

RECURSIVE LeavesOf(_)
LeavesOf(t) == IF t.op = "L" THEN {t.i} ELSE UNION {LeavesOf(t.kids[k]) : k \in 1..Len(t.kids)}

-----------------------------------------------------------------------------
VARIABLES tree, val
vars == <<tree, val>>

(* the catalogue of trees can be split over several TLC runs (environment TREE_PARTS / TREE_PART); the  *)
(* split is by the shape of the root and of its first operand, every tree belongs to exactly one part  *)
EnvNat(name, dflt) == IF name \in DOMAIN IOEnv THEN CHOOSE n \in 0..64 : ToString(n) = IOEnv[name] ELSE dflt
NParts == EnvNat("TREE_PARTS", 1)
PartIdx == EnvNat("TREE_PART", 0)
OpIdx(op) == CASE op = "L" -> 0 [] op = "And" -> 1 [] op = "Or" -> 2 [] OTHER -> 3
Shape(t) == OpIdx(t.op) + 4 * Len(t.kids)
            + (IF Len(t.kids) > 0 THEN 16 * OpIdx(t.kids[1].op) + 64 * Len(t.kids[1].kids)
                                      + 7 * Len(t.kids[Len(t.kids)].kids) ELSE 0)
Init == tree \in {t \in Trees : Shape(t) % NParts = PartIdx} /\ val \in Valuations
(* the solver moves: exactly one leaf changes its truth value *)
Flip(i) == val' = [val EXCEPT ![i] = ~val[i]] /\ UNCHANGED tree
Next == \E i \in 1..NLeaves : Flip(i)
Spec == Init /\ [][Next]_vars

(* C10: info names only satisfied member conditions, and only when satisfied *)
InfoOnlySatisfied == Info(tree, val) \subseteq {i \in LeavesOf(tree) : val[i]}
InfoIffSat == (Info(tree, val) # {}) <=> Sat(tree, val)
WhenTransparent == tree.op = "When" => (Sat(tree, val) <=> Sat(tree.kids[1], val))
SingletonTransparent == Len(tree.kids) = 1 => (Sat(tree, val) <=> Sat(tree.kids[1], val))
(* monotone: making a leaf true never un-satisfies a tree (no negation in the algebra) *)
Monotone == [][\A i \in 1..NLeaves : (Flip(i) /\ ~val[i] /\ Sat(tree, val)) => Sat(tree', val')]_vars

Emit == PrintT(<<"@@", ToJson([tree |-> tree, val |-> val, sat |-> Sat(tree, val),
                               info |-> Info(tree, val), self |-> Self(tree, val)])>>)
=============================================================================
