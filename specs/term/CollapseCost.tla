---------------------------- MODULE CollapseCost ----------------------------
(***************************************************************************)
(* S6 addendum -- the MASK ALGEBRA of the bounds collapse                  *)
(* mystic.collapse.collapse_cost (property C11).  The interval search of   *)
(* collapse_cost (which regions of a parameter have a comparably high      *)
(* cost) is NOT specified here: the unmasked result D = collapse_cost(mon) *)
(* of a recorded monitor is an INPUT (computed by the implementation and   *)
(* handed over in IOEnv.COST_FILE).  What is specified is what the         *)
(* documentation says about the mask:                                      *)
(*                                                                         *)
(*   "if mask is provided, the intersection of bounds and mask is          *)
(*    returned.  mask is a dict of {index:bounds}, formatted same as the   *)
(*    return value"                                                        *)
(*                                                                         *)
(* A collapse / a mask is a function from parameter indices to a non-empty *)
(* set of open intervals <<lo, hi>>, lo < hi (integers; -INF / INF for an  *)
(* unbounded end).                                                         *)
(*   Report(D, m)[k] = D[k] /\ m[k]  (all pairwise intersections with      *)
(*                     lo < hi) for a parameter both name, D[k] / m[k] for *)
(*                     a parameter only one names;                         *)
(*   nothing ({}) is reported when that equals the mask (nothing new).     *)
(* A parameter whose bounds and mask do not intersect at all is outside    *)
(* what the documentation defines (`defined` is FALSE for such a case).    *)
(*   update_mask: the termination's mask becomes the reported collapse     *)
(*   (which already is the intersection with the previous mask).           *)
(* Checked by TLC on every case: the report only narrows (Narrows), and a  *)
(* detector fed its own output as mask reports nothing new (FixedPoint).   *)
(***************************************************************************)
EXTENDS Integers, Sequences, FiniteSets, TLC, Json, IOUtils, SequencesExt

INF == 1000000

(* input: a sequence of cases [d, m], each a sequence of [k |-> index, iv |-> sequence of <<lo, hi>>] *)
Cases == JsonDeserialize(IOEnv.COST_FILE)

AsFun(s) == [k \in {s[i].k : i \in DOMAIN s} |-> UNION {ToSet(s[i].iv) : i \in {j \in DOMAIN s : s[j].k = k}}]

Max2(a, b) == IF a > b THEN a ELSE b
Min2(a, b) == IF a < b THEN a ELSE b
InterOf(A, B) == {iv \in {<<Max2(a[1], b[1]), Min2(a[2], b[2])>> : a \in A, b \in B} : iv[1] < iv[2]}

Defined(D, m) == \A k \in DOMAIN D \cap DOMAIN m : InterOf(D[k], m[k]) # {}

Narrowed(D, m) ==
  [k \in DOMAIN D \cup DOMAIN m |->
     IF k \in DOMAIN D /\ k \in DOMAIN m THEN InterOf(D[k], m[k])
     ELSE IF k \in DOMAIN D THEN D[k] ELSE m[k]]

Empty == [k \in {} |-> {}]
Report(D, m) == LET R == Narrowed(D, m) IN IF R = m THEN Empty ELSE R

(* every point of an interval set A lies in B (intervals with integer ends: compare through intersection) *)
Within(A, B) == InterOf(A, B) = A

VARIABLE i
Init == i = 1
Next == i < Len(Cases) /\ i' = i + 1
Spec == Init /\ [][Next]_i

D == AsFun(Cases[i].d)
M == AsFun(Cases[i].m)

(* the report only narrows: inside the bounds and inside the mask for every parameter both name *)
Narrows == Defined(D, M) =>
  LET R == Report(D, M) IN
  \A k \in DOMAIN R : (k \in DOMAIN D => Within(R[k], D[k])) /\ (k \in DOMAIN M => Within(R[k], M[k]))
(* fed its own output (or the bounds themselves) as mask, the detector reports nothing new *)
FixedPoint ==
  /\ Report(D, D) = Empty
  /\ Defined(D, M) => LET R == Report(D, M) IN (R # Empty => Report(D, R) = Empty)

AsSeq(f) == SetToSeq({[k |-> k, iv |-> SetToSeq(f[k])] : k \in DOMAIN f})
Emit == PrintT(<<"@@", ToJson([case |-> i, defined |-> Defined(D, M), r |-> AsSeq(Report(D, M)),
                               self |-> AsSeq(Report(D, D))])>>)
=============================================================================
