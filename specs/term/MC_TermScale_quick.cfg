SPECIFICATION Spec
CONSTANTS
  Energies <- SEnergies
  MaxLen = 3
  MaxChanges = 3
  Tols <- STols
  FTols <- SFTols
  Windows <- SWindows
  Targets <- STargets
  Limits <- SLimits
  Scales <- SScales
  Exits <- SExits
  EmitLens <- SLens
  Extra <- SExtra
INVARIANT WindowRespected
INVARIANT VTRCOGisOr
INVARIANT EmptyHistory
INVARIANT Homogeneous
INVARIANT Emit
