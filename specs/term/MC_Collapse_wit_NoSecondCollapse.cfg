SPECIFICATION Spec
CONSTANTS
  N = 2
  Vals = {0, 1, 2}
  K = 2
  Confs <- ConfsQuick
  Design = "closed"
  MaskRule = "extend"
  Record = FALSE
INVARIANT NoSecondCollapse
