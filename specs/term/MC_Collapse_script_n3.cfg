SPECIFICATION Spec
CONSTANTS
  N = 3
  Vals = {0, 1}
  K = 1
  Confs <- ConfsChain
  Design = "closed"
  MaskRule = "extend"
  Record = TRUE
INVARIANT ReportedDisjoint
INVARIANT MaskGrewByReported
INVARIANT MaskBounded
INVARIANT CollapseBound
INVARIANT EvalSatisfies
INVARIANT EmitStop
