SPECIFICATION Spec
CONSTANTS
  Energies <- LEnergies
  MaxLen = 32
  MaxChanges = 1
  Tols <- LTols
  FTols <- LFTols
  Windows <- LWindows
  Targets <- LTargets
  Limits <- LLimits
  Scales <- LScales
  Exits <- LExits
  EmitLens <- LLens
  Extra <- LExtra
INVARIANT WindowRespected
INVARIANT VTRCOGisOr
INVARIANT EmptyHistory
INVARIANT Homogeneous
INVARIANT Emit
