---------------------------- MODULE CollapseDefs ----------------------------
(***************************************************************************)
(* S6(a) -- the collapse DETECTORS of mystic.collapse and the MASK algebra *)
(* of mystic.collapse / mystic.mask as constant-level definitions.         *)
(* Collapse.tla (the solver loop) and CollapseCases.tla (the case          *)
(* generator replayed on the real detectors) both EXTEND this module.      *)
(*                                                                         *)
(* A recorded history h is a non-empty sequence of points (the step        *)
(* monitor's x, oldest first); a point is a sequence of integers.          *)
(* Parameters / measures / support points are numbered from 0 as in        *)
(* Python: parameter i of point p is p[i+1].                               *)
(* A tolerance is a rational <<n, d>>, d > 0 ("x <= tol" is x*d <= n), so  *)
(* that the implementation's float comparison is exact on the emitted      *)
(* cases.                                                                  *)
(*                                                                         *)
(* Look-back window of `generations = g` (monitors._solutions): the last g *)
(* recorded points; g = None (-1), g = 0 and g >= Len(h) all mean "the     *)
(* whole history" (python h[-g:]).                                         *)
(*                                                                         *)
(*   collapse_at        {i : ptp over the window of x_i <= tol}     (no    *)
(*                      target), or {i : max |x_i - t_i| <= tol} with a    *)
(*                      scalar or per-parameter target t                   *)
(*   collapse_as        {(i,j), i<j : max over the window of |x_i - x_j|   *)
(*                      <= tol}; offset=True: ptp over the window of       *)
(*                      |x_i - x_j| <= tol                                 *)
(*   collapse_weight    {(m,k) : max over the window of w[m][k] <= tol}    *)
(*   collapse_position  {(m,(i,j)), i<j : max over the window of           *)
(*                      |p[m][i] - p[m][j]| <= tol}                        *)
(* for a product measure of M factor measures with P support points EACH   *)
(* (equal sizes are the supported premise of Monitor.wts/pos, DESIGN 7/F9);*)
(* its flat parameter vector is  w[0] p[0] w[1] p[1] ... (each of length   *)
(* P).                                                                     *)
(*                                                                         *)
(*   Report = Detect \ mask            in every accepted mask format       *)
(*   update_mask: mask' = mask \cup reported (format preserved)            *)
(*   fixed point: Report with mask' is empty                               *)
(***************************************************************************)
EXTENDS Integers, Sequences, FiniteSets

None == -1

Abs(a) == IF a < 0 THEN -a ELSE a
SetMax(S) == CHOOSE x \in S : \A y \in S : y <= x
SetMin(S) == CHOOSE x \in S : \A y \in S : x <= y
Ptp(S) == SetMax(S) - SetMin(S)
Leq(x, tol) == x * tol[2] <= tol[1]

(* the last g entries of h, python h[-g:] *)
Window(h, g) == IF g = None \/ g = 0 \/ g >= Len(h) THEN h
                ELSE SubSeq(h, Len(h) - g + 1, Len(h))

PairsOf(n) == {q \in (0..(n - 1)) \X (0..(n - 1)) : q[1] < q[2]}
Rev(q) == <<q[2], q[1]>>

-----------------------------------------------------------------------------
(* ---- parameter collapse ------------------------------------------------ *)

(* a target is [mode |-> "none" | "scalar" | "list", v |-> sequence of one value per parameter]; *)
(* a scalar target t is the constant sequence                                                   *)
NoTarget(n) == [mode |-> "none", v |-> [i \in 1..n |-> 0]]

DetectAt(h, g, tol, tgt) ==
  LET w == Window(h, g)
      n == Len(h[1]) IN
  {i \in 0..(n - 1) :
      IF tgt.mode = "none"
      THEN Leq(Ptp({w[k][i + 1] : k \in 1..Len(w)}), tol)
      ELSE \A k \in 1..Len(w) : Leq(Abs(w[k][i + 1] - tgt.v[i + 1]), tol)}

DetectAs(h, g, tol, offset) ==
  LET w == Window(h, g)
      n == Len(h[1])
      D(q) == {Abs(w[k][q[1] + 1] - w[k][q[2] + 1]) : k \in 1..Len(w)} IN
  {q \in PairsOf(n) : IF offset THEN Leq(Ptp(D(q)), tol) ELSE Leq(SetMax(D(q)), tol)}

(* masks.  collapse_at: a set of indices.  collapse_as: a set holding pairs (either orientation)  *)
(* and/or single indices; a single index masks every pair it occurs in.  TLC sets are homogeneous, *)
(* so an `as` mask is the record [idx, prs]; the python mask is the union of the two.              *)
(* none = TRUE is python's mask=None.                                                              *)
MaskedPair(q, mk) == q \in mk.prs \/ Rev(q) \in mk.prs \/ q[1] \in mk.idx \/ q[2] \in mk.idx

ReportAt(h, g, tol, tgt, mk) == DetectAt(h, g, tol, tgt) \ mk.idx
ReportAs(h, g, tol, offset, mk) == {q \in DetectAs(h, g, tol, offset) : ~MaskedPair(q, mk)}

-----------------------------------------------------------------------------
(* ---- measure collapse (product measure, M factors x P points each) ------ *)

Wt(p, P, m, k) == p[2 * P * m + k + 1]
Ps(p, P, m, k) == p[2 * P * m + P + k + 1]
(* the flat vector of weights w and positions q given as M sequences of length P *)
Flat(w, q) ==
  LET M == Len(w)
      P == Len(w[1]) IN
  [z \in 1..(2 * M * P) |->
     LET m == (z - 1) \div (2 * P)
         r == (z - 1) % (2 * P) IN
     IF r < P THEN w[m + 1][r + 1] ELSE q[m + 1][r - P + 1]]

DetectWeight(h, g, tol, M, P) ==
  LET w == Window(h, g) IN
  {e \in (0..(M - 1)) \X (0..(P - 1)) : \A t \in 1..Len(w) : Leq(Wt(w[t], P, e[1], e[2]), tol)}

DetectPosition(h, g, tol, M, P) ==
  LET w == Window(h, g) IN
  {e \in (0..(M - 1)) \X PairsOf(P) :
      \A t \in 1..Len(w) : Leq(Abs(Ps(w[t], P, e[1], e[2][1]) - Ps(w[t], P, e[1], e[2][2])), tol)}

(* masks for measures come in three formats that denote the same set of (measure, index) -- or    *)
(* (measure, pair) -- elements:  "dict" {measure: set}, "set" {(measure, index)}, "where"          *)
(* ((measures...), (indices...)); "none" is mask=None (the report then has the dict format).      *)
(* A position mask may give a pair in either orientation.                                          *)
ReportWeight(h, g, tol, M, P, ms) == DetectWeight(h, g, tol, M, P) \ ms
ReportPosition(h, g, tol, M, P, ms) ==
  {e \in DetectPosition(h, g, tol, M, P) : e \notin ms /\ <<e[1], Rev(e[2])>> \notin ms}

-----------------------------------------------------------------------------
(* ---- update_mask: the mask after a reported collapse was applied --------- *)
UpdateIdx(mk, rep) == [mk EXCEPT !.none = FALSE, !.idx = mk.idx \cup rep]
UpdatePrs(mk, rep) == [mk EXCEPT !.none = FALSE, !.prs = mk.prs \cup rep]
UpdateSet(ms, rep) == ms \cup rep

(* a termination condition Collapse*(generations=g) reports nothing until the history is longer than g *)
Live(h, g) == Len(h) > g
=============================================================================
