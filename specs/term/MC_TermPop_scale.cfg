SPECIFICATION Spec
CONSTANTS Coords <- SCoords
  PEnergies <- SPEnergies
  Shapes <- SShapes
  PTols <- SPTols
  PScales <- SPScales
INVARIANT IdenticalPopulationConverged
INVARIANT PopHomogeneous
INVARIANT Emit
