------------------------------- MODULE TermPop -------------------------------
(***************************************************************************)
(* Population-based termination conditions (CandidateRelativeTolerance,    *)
(* PopulationSpread, SolutionImprovement) over small integer populations.  *)
(* A state is a population with energies, a best and a trial solution; the *)
(* transition replaces one member by a new point with a new energy (what a *)
(* DE selection or a simplex update does), so every population of the      *)
(* bounded shape is reachable and emitted once with the expected verdicts. *)
(***************************************************************************)
EXTENDS Termination, TLC, Json, SequencesExt

CONSTANTS Coords,     \* coordinate values
          PEnergies,  \* member energies (may contain INF)
          Shapes,     \* set of <<npop, ndim>>
          PTols       \* tolerances <<n,d>>

VARIABLES pop, popE, trialIsPop
vars == <<pop, popE, trialIsPop>>

Vec(d) == [1..d -> Coords]

Init == \E s \in Shapes :
          /\ pop \in [1..s[1] -> Vec(s[2])]
          /\ popE \in [1..s[1] -> PEnergies]
          /\ trialIsPop \in BOOLEAN

Replace(i, x, e) == /\ pop' = [pop EXCEPT ![i] = x]
                    /\ popE' = [popE EXCEPT ![i] = e]
                    /\ UNCHANGED trialIsPop
Next == \E i \in 1..Len(pop) : \E x \in Vec(Len(pop[1])) : \E e \in PEnergies : Replace(i, x, e)
Spec == Init /\ [][Next]_vars

(* best = member 1 (the solvers keep the best first / decoupled copy of it);   *)
(* trial = the last member, or the whole population for map solvers            *)
Best == pop[1]
Trial == IF trialIsPop THEN pop ELSE pop[Len(pop)]

TolSeq == SetToSeq(PTols)
Verdicts ==
  [crt |-> {<<a, b>> \in (1..Len(TolSeq)) \X (1..Len(TolSeq)) :
               CandidateRelativeTolerance(pop, popE, TolSeq[a], TolSeq[b])},
   spread |-> {a \in 1..Len(TolSeq) : PopulationSpread(pop, TolSeq[a])},
   simp |-> {a \in 1..Len(TolSeq) : SolutionImprovement(Best, Trial, trialIsPop, TolSeq[a])}]

(* design facts *)
IdenticalPopulationConverged ==
  (\A i \in 1..Len(pop) : pop[i] = pop[1] /\ popE[i] = popE[1] /\ popE[i] # INF)
     => \A a \in 1..Len(TolSeq) : /\ (Len(pop) >= 2 => CandidateRelativeTolerance(pop, popE, TolSeq[a], TolSeq[a]))
                                  /\ PopulationSpread(pop, TolSeq[a])

ASSUME PrintT(<<"@@", ToJson([tols |-> TolSeq])>>)
Emit == PrintT(<<"@@", ToJson([pop |-> pop, popE |-> popE, tp |-> trialIsPop, v |-> Verdicts])>>)
=============================================================================
