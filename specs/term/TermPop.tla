------------------------------- MODULE TermPop -------------------------------
(***************************************************************************)
(* Population-based termination conditions (CandidateRelativeTolerance,    *)
(* PopulationSpread, SolutionImprovement) over small integer populations.  *)
(* A state is a population with energies, a best and a trial solution; the *)
(* transition replaces one member by a new point with a new energy (what a *)
(* DE selection or a simplex update does), so every population of the      *)
(* bounded shape is reachable and emitted once with the expected verdicts. *)
(* `scale` is the unit of the model: a coordinate x stands for x * 2^scale,  *)
(* an energy e for e * 2^scale, and so do the absolute tolerances (xtol and  *)
(* ftol of CandidateRelativeTolerance, the tolerance of                      *)
(* SolutionImprovement); the tolerance of PopulationSpread is relative.      *)
(* The inequalities are homogeneous (invariant PopHomogeneous: twice the     *)
(* population, twice the absolute tolerances, same verdicts), which lets the *)
(* small-integer model speak about 1e-300, 1e-9, 1e10.                       *)
(***************************************************************************)
EXTENDS Termination, TLC, Json, SequencesExt

CONSTANTS Coords,     \* coordinate values
          PEnergies,  \* member energies (may contain INF)
          Shapes,     \* set of <<npop, ndim>>
          PTols,      \* tolerances <<n,d>>
          PScales     \* units: exponents s, the unit is 2^s

VARIABLES pop, popE, trialIsPop, scale
vars == <<pop, popE, trialIsPop, scale>>

Vec(d) == [1..d -> Coords]

Init == \E s \in Shapes :
          /\ pop \in [1..s[1] -> Vec(s[2])]
          /\ popE \in [1..s[1] -> PEnergies]
          /\ trialIsPop \in BOOLEAN
          /\ scale \in PScales

Replace(i, x, e) == /\ pop' = [pop EXCEPT ![i] = x]
                    /\ popE' = [popE EXCEPT ![i] = e]
                    /\ UNCHANGED <<trialIsPop, scale>>
Next == \E i \in 1..Len(pop) : \E x \in Vec(Len(pop[1])) : \E e \in PEnergies : Replace(i, x, e)
Spec == Init /\ [][Next]_vars

(* best = member 1 (the solvers keep the best first / decoupled copy of it);   *)
(* trial = the last member, or the whole population for map solvers            *)
Best == pop[1]
Trial == IF trialIsPop THEN pop ELSE pop[Len(pop)]

TolSeq == SetToSeq(PTols)
Verdicts ==
  [crt |-> {<<a, b>> \in (1..Len(TolSeq)) \X (1..Len(TolSeq)) :
               CandidateRelativeTolerance(pop, popE, TolSeq[a], TolSeq[b])},
   spread |-> {a \in 1..Len(TolSeq) : PopulationSpread(pop, TolSeq[a])},
   simp |-> {a \in 1..Len(TolSeq) : SolutionImprovement(Best, Trial, trialIsPop, TolSeq[a])}]

(* design facts *)
IdenticalPopulationConverged ==
  (\A i \in 1..Len(pop) : pop[i] = pop[1] /\ popE[i] = popE[1] /\ popE[i] # INF)
     => \A a \in 1..Len(TolSeq) : /\ (Len(pop) >= 2 => CandidateRelativeTolerance(pop, popE, TolSeq[a], TolSeq[a]))
                                  /\ PopulationSpread(pop, TolSeq[a])

(* the unit does not matter *)
Dbl(v) == IF v = INF THEN INF ELSE 2 * v
Pop2 == [i \in DOMAIN pop |-> [j \in DOMAIN pop[i] |-> 2 * pop[i][j]]]
PopE2 == [i \in DOMAIN popE |-> Dbl(popE[i])]
T2(t) == <<2 * t[1], t[2]>>
PopHomogeneous ==
  \A a, b \in 1..Len(TolSeq) :
     /\ CandidateRelativeTolerance(pop, popE, TolSeq[a], TolSeq[b])
          <=> CandidateRelativeTolerance(Pop2, PopE2, T2(TolSeq[a]), T2(TolSeq[b]))
     /\ PopulationSpread(pop, TolSeq[a]) <=> PopulationSpread(Pop2, TolSeq[a])
     /\ SolutionImprovement(Best, Trial, trialIsPop, TolSeq[a])
          <=> SolutionImprovement(Pop2[1], IF trialIsPop THEN Pop2 ELSE Pop2[Len(pop)], trialIsPop, T2(TolSeq[a]))

ASSUME PrintT(<<"@@", ToJson([tols |-> TolSeq])>>)
Emit == PrintT(<<"@@", ToJson([pop |-> pop, popE |-> popE, tp |-> trialIsPop, scale |-> scale, v |-> Verdicts])>>)
=============================================================================
