SPECIFICATION Spec
CONSTANTS
  Energies <- SEnergies
  MaxLen = 4
  MaxChanges = 4
  Tols <- STols
  FTols <- SFTols
  Windows <- SWindows
  Targets <- STargets
  Limits <- SLimits
  Scales <- TScales
  Exits <- SExits
  EmitLens <- SLens
  Extra <- SExtra
INVARIANT WindowRespected
INVARIANT VTRCOGisOr
INVARIANT EmptyHistory
INVARIANT Homogeneous
INVARIANT Emit
