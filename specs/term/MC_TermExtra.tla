---- MODULE MC_TermExtra ----
EXTENDS TermExtra
QSecs  == {0, 2, 4}                 \* quarter seconds
QTicks == {1, 2}
QGrads == {<<0, 0>>, <<3, 4>>, <<-3, 4>>, <<1, -1>>, <<2, 0>>}
QGTols == {<<0, 1>>, <<5, 1>>, <<7, 1>>, <<3, 2>>, <<2, 1>>}
QNorms == {1, 2, INF}
QGScales == {0}
TSecs  == {0, 1, 2, 4, 5}
TTicks == {1, 2, 3}
TGrads == QGrads \cup {<<0, -2>>, <<1, 2, -2>>, <<0, 0, 0>>, <<-4, 3>>}
TGTols == QGTols \cup {<<4, 1>>, <<1, 2>>, <<3, 1>>}
\* wide: two-digit limits (10 s, 12 s) and the documented default (86400 s: `seconds` omitted) reached EXACTLY by
\* two ticks; recorded gradients in units of 2^-30 (1e-9) and 2^33 (1e10), a one-element and an all-equal gradient
WSecs  == {40, 48, 345600}
WTicks == {20, 28, 345580}
WGrads == {<<0, 0>>, <<3, 4>>, <<-3, 4>>, <<5>>, <<2, 2, 2, 2>>}
WGTols == {<<0, 1>>, <<5, 1>>, <<7, 1>>, <<4, 1>>, <<1, 1024>>}
WGScales == {-30, 33}
XGScales == {-30, -8, 10, 33}
====
