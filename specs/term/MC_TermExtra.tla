---- MODULE MC_TermExtra ----
EXTENDS TermExtra
QSecs  == {0, 2, 4}                 \* quarter seconds
QTicks == {1, 2}
QGrads == {<<0, 0>>, <<3, 4>>, <<-3, 4>>, <<1, -1>>, <<2, 0>>}
QGTols == {<<0, 1>>, <<5, 1>>, <<7, 1>>, <<3, 2>>, <<2, 1>>}
QNorms == {1, 2, INF}
TSecs  == {0, 1, 2, 4, 5}
TTicks == {1, 2, 3}
TGrads == QGrads \cup {<<0, -2>>, <<1, 2, -2>>, <<0, 0, 0>>, <<-4, 3>>}
TGTols == QGTols \cup {<<4, 1>>, <<1, 2>>, <<3, 1>>}
====
