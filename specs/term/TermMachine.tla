----------------------------- MODULE TermMachine -----------------------------
(***************************************************************************)
(* The history-driven state machine for the primitive conditions, and the  *)
(* generator of (state, expected verdicts) behaviours replayed into the    *)
(* real mystic.termination closures (spec -> code).                        *)
(*                                                                         *)
(* State: the energy history `hist` (grows by one entry per solver         *)
(* iteration) and the interrupt flag.  gens/fcalls are functions of the    *)
(* history length as in a DE run with NP evaluations per generation.       *)
(* Every reachable state is emitted once (INVARIANT Emit) together with    *)
(* the indices of the catalogue conditions that hold in it.                *)
(***************************************************************************)
EXTENDS Termination, TLC, Json, SequencesExt

CONSTANTS Energies,     \* finite energies a step may record
          MaxLen,       \* longest history explored
          Tols,         \* tolerances <<n,d>>
          Windows,      \* generation windows (None = -1)
          Targets,      \* finite targets / fvals
          Limits        \* limits for EvaluationLimits (None = -1)

VARIABLES hist, exitreq
vars == <<hist, exitreq>>

NP == 4
Gens   == IF Len(hist) = 0 THEN 0 ELSE Len(hist) - 1
FCalls == NP * Len(hist)

Vals == Energies \cup {INF}

(* uniform-shape records so that the catalogue is one set *)
C(k, tol, tol2, g, t) == [k |-> k, tol |-> tol, tol2 |-> tol2, g |-> g, t |-> t]
Z == <<0, 1>>
Conds ==
       {C("VTR", tol, Z, None, t) : tol \in Tols, t \in Targets}
  \cup {C("COG", tol, Z, g, 0) : tol \in Tols, g \in Windows}
  \cup {C("NCOG", tol, Z, g, 0) : tol \in Tols, g \in Windows}
  \cup {C("NCT", tol, Z, g, t) : tol \in Tols, g \in Windows, t \in Targets \cup {None}}
  \cup {C("VTRCOG", ftol, gtol, g, t) : ftol \in Tols, gtol \in Tols, g \in Windows, t \in Targets}
  \cup {C("EL", Z, Z, g, e) : g \in Limits, e \in Limits}
  \cup {C("SI", Z, Z, None, 0)}

CondSeq == SetToSeq(Conds)

Sat(c) ==
  CASE c.k = "VTR"    -> VTR(hist, c.tol, c.t)
    [] c.k = "COG"    -> ChangeOverGeneration(hist, c.tol, c.g)
    [] c.k = "NCOG"   -> NormalizedChangeOverGeneration(hist, c.tol, c.g)
    [] c.k = "NCT"    -> NormalizedCostTarget(hist, c.t, c.tol, c.g)
    [] c.k = "VTRCOG" -> VTRChangeOverGeneration(hist, c.tol, c.tol2, c.g, c.t)
    [] c.k = "EL"     -> EvaluationLimits(Gens, FCalls, c.g, c.t)
    [] c.k = "SI"     -> SolverInterrupt(exitreq)

Init == hist = << >> /\ exitreq \in BOOLEAN

Step(e) == /\ Len(hist) < MaxLen
           /\ hist' = Append(hist, e)
           /\ UNCHANGED exitreq

Next == \E e \in Vals : Step(e)

Spec == Init /\ [][Next]_vars

-----------------------------------------------------------------------------
(* properties of the design checked by TLC on every reachable state *)

(* a satisfied change-based condition needs a history longer than its window *)
WindowRespected ==
  \A c \in Conds : (c.k \in {"COG", "NCOG"} /\ Sat(c)) => Len(hist) > Window(c.g)

(* VTRCOG is the disjunction of its two halves *)
VTRCOGisOr ==
  \A c \in Conds : c.k = "VTRCOG" =>
     (Sat(c) <=> (ChangeOverGeneration(hist, c.tol2, c.g) \/ VTR(hist, c.tol, c.t)))

(* monotone in the tolerance: a larger tolerance never un-satisfies VTR / COG *)
TolMonotone ==
  \A c1, c2 \in Conds :
     (/\ c1.k = c2.k /\ c1.k \in {"VTR", "COG"} /\ c1.g = c2.g /\ c1.t = c2.t
      /\ c1.tol[1] * c2.tol[2] <= c2.tol[1] * c1.tol[2] /\ Sat(c1)) => Sat(c2)

(* nothing is satisfied on the empty history except the counters-only conditions *)
EmptyHistory ==
  hist = << >> => \A c \in Conds : Sat(c) => c.k \in {"EL", "SI"}

-----------------------------------------------------------------------------
(* emission: the catalogue once, then one line per reachable state *)
ASSUME PrintT(<<"@@", ToJson([catalogue |-> CondSeq])>>)

Emit == PrintT(<<"@@", ToJson([hist |-> hist, exit |-> exitreq, gens |-> Gens, fcalls |-> FCalls,
                               sat |-> {i \in 1..Len(CondSeq) : Sat(CondSeq[i])}])>>)
=============================================================================
