----------------------------- MODULE TermMachine -----------------------------
(***************************************************************************)
(* The history-driven state machine for the primitive conditions, and the  *)
(* generator of (state, expected verdicts) behaviours replayed into the    *)
(* real mystic.termination closures (spec -> code).                        *)
(*                                                                         *)
(* State: the energy history `hist` (grows by one entry per solver         *)
(* iteration), the interrupt flag, and the UNIT of energy `scale`:         *)
(* the history entry e stands for the energy e * 2^scale, and so does      *)
(* every setting of a condition that has the dimension of an energy        *)
(* (field `dim` of the catalogue: VTR tolerance/target, COG tolerance,     *)
(* NCT fval, VTRCOG ftol/gtol/target; the tolerances of NCOG and NCT are   *)
(* relative, windows and limits are counts).  The documented inequalities  *)
(* are homogeneous in the energies, so Sat(c) does not mention the unit:   *)
(* this is checked (invariant Homogeneous: doubling every energy and every *)
(* setting of that dimension changes no verdict), and it is what lets a    *)
(* small-integer model speak about energies of 1e-300, 1e-9, 1e10, 1e300.  *)
(* gens/fcalls are functions of the history length as in a DE run with NP  *)
(* evaluations per generation.                                             *)
(* Every reachable state whose length is in EmitLens is emitted once       *)
(* (INVARIANT Emit) together with the indices of the catalogue conditions  *)
(* that hold in it, and of those the specification leaves open (Open).     *)
(***************************************************************************)
EXTENDS Termination, TLC, Json, SequencesExt

CONSTANTS Energies,     \* finite energies a step may record (integers, negative ones too)
          MaxLen,       \* longest history explored
          Tols,         \* tolerances <<n,d>>
          FTols,        \* ftol of VTRChangeOverGeneration (its gtol ranges over Tols)
          Windows,      \* generation windows (None = -1)
          Targets,      \* finite targets / fvals
          Limits,       \* limits for EvaluationLimits (None = -1)
          Scales,       \* units of energy: exponents s, the unit is 2^s
          Exits,        \* values of the interrupt flag explored
          MaxChanges,   \* a history has at most this many places where the energy changes (long plateaus)
          EmitLens,     \* history lengths that are emitted
          Extra         \* further catalogue entries (conditions created with NO argument: the documented
                        \* defaults, written in the unit of the model; flagged dflt)

VARIABLES hist, exitreq, scale
vars == <<hist, exitreq, scale>>

NP == 4
Gens   == IF Len(hist) = 0 THEN 0 ELSE Len(hist) - 1
FCalls == NP * Len(hist)

Vals == Energies \cup {INF}

(* uniform-shape records so that the catalogue is one set *)
C(k, tol, tol2, g, t) == [k |-> k, tol |-> tol, tol2 |-> tol2, g |-> g, t |-> t, dflt |-> FALSE]
D(k, tol, tol2, g, t) == [k |-> k, tol |-> tol, tol2 |-> tol2, g |-> g, t |-> t, dflt |-> TRUE]
Z == <<0, 1>>
Conds ==
       {C("VTR", tol, Z, None, t) : tol \in Tols, t \in Targets}
  \cup {C("COG", tol, Z, g, 0) : tol \in Tols, g \in Windows}
  \cup {C("NCOG", tol, Z, g, 0) : tol \in Tols, g \in Windows}
  \cup {C("NCT", tol, Z, g, t) : tol \in Tols, g \in Windows, t \in Targets \cup {None}}
  \cup {C("VTRCOG", ftol, gtol, g, t) : ftol \in FTols, gtol \in Tols, g \in Windows, t \in Targets}
  \cup {C("EL", Z, Z, g, e) : g \in Limits, e \in Limits}
  \cup {C("SI", Z, Z, None, 0)}
  \cup Extra

CondSeq == SetToSeq(Conds)

(* which settings of a condition are energies (scale with the unit) *)
Dim(k) == CASE k = "VTR"    -> {"tol", "t"}
            [] k = "COG"    -> {"tol"}
            [] k = "NCT"    -> {"t"}
            [] k = "VTRCOG" -> {"tol", "tol2", "t"}
            [] OTHER        -> {}

SatOn(c, h) ==
  CASE c.k = "VTR"    -> VTR(h, c.tol, c.t)
    [] c.k = "COG"    -> ChangeOverGeneration(h, c.tol, c.g)
    [] c.k = "NCOG"   -> NormalizedChangeOverGeneration(h, c.tol, c.g)
    [] c.k = "NCT"    -> NormalizedCostTarget(h, c.t, c.tol, c.g)
    [] c.k = "VTRCOG" -> VTRChangeOverGeneration(h, c.tol, c.tol2, c.g, c.t)
    [] c.k = "EL"     -> EvaluationLimits(Gens, FCalls, c.g, c.t)
    [] c.k = "SI"     -> SolverInterrupt(exitreq)
Sat(c) == SatOn(c, hist)

(* NormalizedChangeOverGeneration is implemented with a regularisation eta = 1e-20 added to the right-hand  *)
(* side; the documented quotient has none.  For energies of the size of eta or below the two differ, and   *)
(* the specification leaves the verdict open there (unit below 2^-40; the histories are small multiples    *)
(* of the unit).                                                                                           *)
Open(c) == c.k = "NCOG" /\ scale < -40

Init == hist = << >> /\ exitreq \in Exits /\ scale \in Scales

Changes(h) == Cardinality({i \in 1..(Len(h) - 1) : h[i] # h[i + 1]})

Step(e) == /\ Len(hist) < MaxLen
           /\ Changes(Append(hist, e)) <= MaxChanges
           /\ hist' = Append(hist, e)
           /\ UNCHANGED <<exitreq, scale>>

Next == \E e \in Vals : Step(e)

Spec == Init /\ [][Next]_vars

-----------------------------------------------------------------------------
(* properties of the design checked by TLC on every reachable state *)

(* a satisfied change-based condition needs a history longer than its window *)
WindowRespected ==
  \A c \in Conds : (c.k \in {"COG", "NCOG"} /\ Sat(c)) => Len(hist) > Window(c.g)

(* VTRCOG is the disjunction of its two halves *)
VTRCOGisOr ==
  \A c \in Conds : c.k = "VTRCOG" =>
     (Sat(c) <=> (ChangeOverGeneration(hist, c.tol2, c.g) \/ VTR(hist, c.tol, c.t)))

(* monotone in the tolerance: a larger tolerance never un-satisfies VTR / COG *)
AbsTolConds == {c \in Conds : c.k \in {"VTR", "COG"}}
TolMonotone ==
  \A c1, c2 \in AbsTolConds :
     (/\ c1.k = c2.k /\ c1.g = c2.g /\ c1.t = c2.t
      /\ c1.tol[1] * c2.tol[2] <= c2.tol[1] * c1.tol[2] /\ Sat(c1)) => Sat(c2)

(* nothing is satisfied on the empty history except the counters-only conditions *)
EmptyHistory ==
  hist = << >> => \A c \in Conds : Sat(c) => c.k \in {"EL", "SI"}

(* the unit of energy does not matter: twice the energies, twice the settings that are energies *)
Twice(x) == IF x = INF THEN x ELSE 2 * x
TwiceTol(t) == <<2 * t[1], t[2]>>
TwiceCond(c) == [c EXCEPT !.tol  = IF "tol" \in Dim(c.k) THEN TwiceTol(@) ELSE @,
                          !.tol2 = IF "tol2" \in Dim(c.k) THEN TwiceTol(@) ELSE @,
                          !.t    = IF "t" \in Dim(c.k) /\ ~(c.k = "NCT" /\ @ = None) THEN 2 * @ ELSE @]
Homogeneous ==
  \A c \in Conds : Sat(c) <=> SatOn(TwiceCond(c), [i \in 1..Len(hist) |-> Twice(hist[i])])

-----------------------------------------------------------------------------
(* emission: the catalogue once, then one line per reachable state *)
ASSUME PrintT(<<"@@", ToJson([catalogue |-> CondSeq,
                              dims |-> [i \in 1..Len(CondSeq) |-> Dim(CondSeq[i].k)]])>>)

Emit == Len(hist) \in EmitLens =>
        PrintT(<<"@@", ToJson([hist |-> hist, exit |-> exitreq, gens |-> Gens, fcalls |-> FCalls, scale |-> scale,
                               sat |-> {i \in 1..Len(CondSeq) : Sat(CondSeq[i])},
                               open |-> {i \in 1..Len(CondSeq) : Open(CondSeq[i])}])>>)
=============================================================================
