SPECIFICATION Spec
CONSTANTS Coords <- QCoords
  PEnergies <- QPEnergies
  Shapes <- QShapes
  PTols <- QPTols
INVARIANT IdenticalPopulationConverged
INVARIANT Emit
