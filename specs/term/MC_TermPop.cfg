SPECIFICATION Spec
CONSTANTS Coords <- QCoords
  PEnergies <- QPEnergies
  Shapes <- QShapes
  PTols <- QPTols
  PScales <- QPScales
INVARIANT IdenticalPopulationConverged
INVARIANT PopHomogeneous
INVARIANT Emit
