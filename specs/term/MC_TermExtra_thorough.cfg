SPECIFICATION Spec
CONSTANTS
  Secs <- TSecs
  Ticks <- TTicks
  Grads <- TGrads
  GTols <- TGTols
  Norms <- QNorms
  MaxLen = 3
INVARIANT LoggedIsVerdict
INVARIANT Emit
PROPERTY OtherClockIrrelevant
PROPERTY MonotoneWithoutReset
PROPERTY ResetRestarts
