----------------------------- MODULE Termination -----------------------------
(***************************************************************************)
(* S5 -- termination conditions of mystic.termination as a specification.  *)
(*                                                                         *)
(* The "solver" seen by a termination condition is the tuple of variables  *)
(*   hist    energy history (sequence of extended integers, INF = +inf)    *)
(*   pop     population (sequence of vectors), popE its energies           *)
(*   best, trial   best / trial solution (SolutionImprovement)             *)
(*   gens, fcalls  counters, exitreq the interrupt flag.                   *)
(* The state machine is the way a solver feeds a condition: each Step      *)
(* appends one energy to the history, bumps the counters, may change the   *)
(* population.  `Sat(c)` is the documented inequality of condition `c` on  *)
(* the current state, with Python's indexing (hist[-0] is hist[0]) and     *)
(* IEEE semantics for +inf (inf - inf is NaN and every comparison with     *)
(* NaN is false).  Expression trees And/Or/When are in TermTree.tla.       *)
(*                                                                         *)
(* Rationals: a tolerance is a pair <<n, d>> with d > 0.                   *)
(***************************************************************************)
EXTENDS Integers, Sequences, FiniteSets

INF == 1000000          \* +infinity (sentinel; finite energies are far below)
None == -1              \* "generations=None" / "fval=None" / limit None

Fin(a) == a # INF
Abs(a) == IF a < 0 THEN -a ELSE a

(* python: seq[i] for i >= 0, seq[-k] for k > 0; seq[-0] == seq[0] *)
PyNeg(h, k) == IF k = 0 THEN h[1] ELSE h[Len(h) - k + 1]
Last(h) == h[Len(h)]

(* a - b <= n/d in IEEE extended reals, a,b \in Int \cup {INF}            *)
DiffLeq(a, b, tol) ==
  CASE a = INF /\ b = INF -> FALSE                   \* nan <= tol
    [] a = INF            -> FALSE                   \* +inf <= tol
    [] b = INF            -> TRUE                    \* -inf <= tol
    [] OTHER              -> (a - b) * tol[2] <= tol[1]

(* abs(a - t) <= n/d, t finite *)
AbsDiffLeq(a, t, tol) ==
  IF a = INF THEN FALSE ELSE Abs(a - t) * tol[2] <= tol[1]

Window(g) == IF g = None THEN 0 ELSE g

-----------------------------------------------------------------------------
(* primitive conditions on an energy history h *)

VTR(h, tol, target) ==
  /\ Len(h) > 0
  /\ AbsDiffLeq(Last(h), target, tol)

ChangeOverGeneration(h, tol, g) ==
  LET w == Window(g) IN
  /\ Len(h) > w            \* also excludes the empty history
  /\ \/ DiffLeq(PyNeg(h, w), Last(h), tol)
     \/ PyNeg(h, w) = Last(h)

(* 2(a-b) <= tol*(|a|+|b|) + 1e-20 ; 1e-20 only matters at |a|+|b| = 0 where a = b *)
NormalizedChangeOverGeneration(h, tol, g) ==
  LET w == Window(g) IN
  /\ Len(h) > w
  /\ LET a == PyNeg(h, w)
         b == Last(h) IN
     \/ a = b
     \/ /\ Fin(a) /\ Fin(b)
        /\ 2 * (a - b) * tol[2] <= tol[1] * (Abs(a) + Abs(b))
     \/ /\ ~(Fin(a) /\ Fin(b))     \* exactly one infinite (a = b handled above)
        /\ tol[1] > 0              \* tol*inf = inf ; 0*inf = nan
        \* lhs is +inf or -inf, rhs is +inf: both "<=" hold in IEEE
        /\ TRUE

NormalizedCostTarget(h, fval, tol, g) ==
  LET w == Window(g) IN
  /\ Len(h) > 0
  /\ IF fval = None
     THEN IF w # 0
          THEN /\ Len(h) > w
               /\ \/ DiffLeq(PyNeg(h, w), Last(h), <<0, 1>>)
                  \/ PyNeg(h, w) = Last(h)
          ELSE TRUE
     ELSE /\ Fin(Last(h))
          /\ Abs(Last(h) - fval) * tol[2] <= tol[1] * Abs(fval)

VTRChangeOverGeneration(h, ftol, gtol, g, target) ==
  LET w == Window(g) IN
  /\ Len(h) > 0
  /\ \/ /\ Len(h) > w
        /\ \/ DiffLeq(PyNeg(h, w), Last(h), gtol)
           \/ PyNeg(h, w) = Last(h)
     \/ AbsDiffLeq(Last(h), target, ftol)

EvaluationLimits(gens, fcalls, maxg, maxe) ==
  \/ (maxe # None /\ fcalls >= maxe)
  \/ (maxg # None /\ gens >= maxg)

SolverInterrupt(exitreq) == exitreq

-----------------------------------------------------------------------------
(* population-based conditions; vectors are sequences of integers          *)

(* python's builtin max over a sequence that may contain NaN: keep the     *)
(* running value unless the next one is strictly greater (NaN never is,    *)
(* and nothing is greater than a leading NaN).  NAN is a sentinel.         *)
NAN == 2000000
RECURSIVE PyMaxFrom(_, _, _)
PyMaxFrom(s, i, cur) ==
  IF i > Len(s) THEN cur
  ELSE IF cur # NAN /\ s[i] # NAN /\ s[i] > cur THEN PyMaxFrom(s, i + 1, s[i])
       ELSE PyMaxFrom(s, i + 1, cur)
PyMax(s) == PyMaxFrom(s, 2, s[1])

(* |a - b| in extended reals *)
AbsDiff(a, b) ==
  CASE a = INF /\ b = INF -> NAN
    [] a = INF \/ b = INF -> INF
    [] OTHER -> Abs(a - b)

(* x <= n/d for x \in Nat \cup {INF, NAN} *)
LeqTol(x, tol) == x # NAN /\ x # INF /\ x * tol[2] <= tol[1]

Flatten(rows) ==  \* row-major concatenation (numpy.ravel)
  LET n == Len(rows) IN
  IF n = 0 THEN << >> ELSE
  LET d == Len(rows[1]) IN
  [k \in 1..(n * d) |-> rows[((k - 1) \div d) + 1][((k - 1) % d) + 1]]

CandidateRelativeTolerance(pop, popE, xtol, ftol) ==
  IF Len(popE) < 2 THEN TRUE       \* returns a (truthy) warning string
  ELSE
    LET dx == Flatten([i \in 1..(Len(pop) - 1) |->
                        [j \in 1..Len(pop[1]) |-> Abs(pop[i + 1][j] - pop[1][j])]])
        df == [i \in 1..(Len(popE) - 1) |-> AbsDiff(popE[1], popE[i + 1])]
    IN  /\ LeqTol(PyMax(dx), xtol)
        /\ LeqTol(PyMax(df), ftol)

PopulationSpread(pop, tol) ==
  \A i \in 1..Len(pop) : \A j \in 1..Len(pop[1]) :
     Abs(pop[i][j] - pop[1][j]) * tol[2] <= tol[1] * Abs(pop[1][j])

RECURSIVE SumSeq(_)
SumSeq(s) == IF s = << >> THEN 0 ELSE s[1] + SumSeq(Tail(s))

(* trial is a single vector (trialIsPop = FALSE) or a population of trial vectors *)
SolutionImprovement(best, trial, trialIsPop, tol) ==
  IF ~trialIsPop
  THEN SumSeq([j \in 1..Len(best) |-> Abs(best[j] - trial[j])]) * tol[2] <= tol[1]
  ELSE LET sums == [i \in 1..Len(trial) |->
                      SumSeq([j \in 1..Len(best) |-> Abs(best[j] - trial[i][j])])]
       IN  PyMax(sums) * tol[2] <= tol[1]

=============================================================================
