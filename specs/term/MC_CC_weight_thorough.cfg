SPECIFICATION Spec
CONSTANTS
  Mode = "weight"
  N = 0
  M = 2
  P = 2
  Vals = {0, 1}
  MaxLen = 3
  MaskLen = 2
  Tols <- TolsW
  Gens <- Gens5
  Targets <- NoTargets
  MTols <- Tol1h
  MGens = {0, 1, 2}
  MTargets <- NoTargets
  PrsCat <- NoSets
  IdxCat <- NoSets
  MaxMask = 3
  Part <- NoPart
INVARIANT FixedPoint
INVARIANT ReportIsDetectMinusMask
INVARIANT MaskGrows
INVARIANT TolMonotone
INVARIANT WindowMonotone
INVARIANT WholeHistory
INVARIANT Emit
