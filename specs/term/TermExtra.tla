------------------------------ MODULE TermExtra ------------------------------
(***************************************************************************)
(* The two built-in termination conditions that read something other than  *)
(* the energy history / population / counters of the solver:               *)
(*                                                                         *)
(*   TimeLimits(seconds, system)   "time >= seconds", the time being what  *)
(*       an independent counter has advanced since the condition was made  *)
(*       or last reset(); system = None / True / False selects the clock   *)
(*       (time.time / time.perf_counter / time.process_time), seconds may  *)
(*       be a number or a timedelta.                                       *)
(*   GradientNormTolerance(tolerance, norm)                                *)
(*       "sum(abs(gradient)**norm)**(1.0/norm) <= tolerance" for the LAST  *)
(*       gradient the solver recorded (inst.gradient[-1]); a solver that   *)
(*       records none has the gradient of its cost at bestSolution taken   *)
(*       numerically (here: a linear cost, whose gradient is its           *)
(*       coefficient vector).                                              *)
(*                                                                         *)
(* A behaviour is a SCRIPT: the condition is created, then the world moves *)
(* (a clock ticks, the condition is reset, the solver records a gradient)  *)
(* and after every step the condition is asked.  The whole script with the *)
(* verdict the specification gives after each step is emitted from its     *)
(* final state and replayed on the real condition (harness/check_C10.py,   *)
(* section `extra`): the three clocks are replaced by scripted ones, so    *)
(* that the wrong clock, a missed reset or a reversed comparison shows.    *)
(* Only differences of readings of one clock enter, so the origin of each  *)
(* clock is arbitrary (Epoch; the harness adds a further offset of the     *)
(* size of a real time.time()).  A gradient recorded by the solver has a   *)
(* unit 2^par.sc like the energies of TermMachine: the entry g stands for  *)
(* g * 2^sc and the tolerance likewise (GradHomogeneous).                  *)
(***************************************************************************)
EXTENDS Termination, TLC, Json, SequencesExt, FiniteSetsExt

CONSTANTS Secs,       \* TimeLimits: seconds, in quarter seconds (a timedelta or number is the harness' rendering)
          Ticks,      \* clock advances, in quarter seconds
          Grads,      \* gradient vectors (small integers)
          GTols,      \* GradientNormTolerance: tolerances <<n,d>>
          Norms,      \* subset of {1, 2, INF}
          GScales,    \* units of a recorded gradient: exponents s (a gradient of the cost: only 0)
          MaxLen      \* script length

Clocks == {"wall", "perf", "cpu"}            \* system = None, True, False

VARIABLES kind,      \* "time" | "grad"
          par,       \* time: [secs, clock, epoch]     grad: [tol, norm, stored]  (stored: the solver keeps gradients)
          now,       \* time: the three clocks          grad: unused (all 0)
          start,     \* time: reading of the chosen clock when created / last reset
          grad,      \* grad: the gradient that counts (last recorded / of the cost)
          script,    \* the steps taken so far, each with the verdict after it
          done
vars == <<kind, par, now, start, grad, script, done>>

ZeroClocks == [c \in Clocks |-> 0]
Epoch(e) == IF e = 0 THEN ZeroClocks ELSE [wall |-> 8, perf |-> 2, cpu |-> 5]

-----------------------------------------------------------------------------
(* the documented inequalities *)
TimeUp == now[par.clock] - start >= par.secs

AbsI(x) == IF x < 0 THEN -x ELSE x
L1(g)   == FoldSeq(LAMBDA x, acc : AbsI(x) + acc, 0, g)
L2sq(g) == FoldSeq(LAMBDA x, acc : x * x + acc, 0, g)
Linf(g) == Max({AbsI(g[i]) : i \in DOMAIN g})
\* norm <= tol with tol = n/d (p = 2 in squared form: both sides are >= 0)
SmallOn(g, tol) == LET n == tol[1]  d == tol[2] IN
            CASE par.norm = 1   -> L1(g) * d <= n
              [] par.norm = 2   -> L2sq(g) * d * d <= n * n
              [] par.norm = INF -> Linf(g) * d <= n
Small(g) == SmallOn(g, par.tol)
\* the numerical gradient is only accurate to ~1e-7: a case ON the boundary is not decidable by it
OnBoundary(g) == LET n == par.tol[1]  d == par.tol[2] IN
            CASE par.norm = 1   -> L1(g) * d = n
              [] par.norm = 2   -> L2sq(g) * d * d = n * n
              [] par.norm = INF -> Linf(g) * d = n
GradSmall == Small(grad)

Verdict == IF kind = "time" THEN TimeUp ELSE GradSmall

-----------------------------------------------------------------------------
Init ==
  /\ script = << >> /\ done = FALSE
  /\ \/ /\ kind = "time"
        /\ par \in [secs : Secs, clock : Clocks, epoch : {0, 1}]
        /\ now = Epoch(par.epoch)                       \* the clocks need not agree, nor start at 0
        /\ start = now[par.clock]
        /\ grad = << >>
     \/ /\ kind = "grad"
        /\ par \in {p \in [tol : GTols, norm : Norms, stored : BOOLEAN, sc : GScales] : p.stored \/ p.sc = 0}
        /\ now = ZeroClocks /\ start = 0
        /\ grad \in Grads

Log(step) == script' = Append(script, step)

\* one clock advances (the others may stand still: process time does while the process sleeps)
Tick(c, d) ==
  /\ kind = "time"
  /\ now' = [now EXCEPT ![c] = @ + d]
  /\ UNCHANGED <<kind, par, start, grad>>
  /\ Log([op |-> "tick", clock |-> c, d |-> d, g |-> << >>,
          v |-> (now'[par.clock] - start >= par.secs), b |-> FALSE])

\* all clocks advance together
TickAll(d) ==
  /\ kind = "time"
  /\ now' = [c \in Clocks |-> now[c] + d]
  /\ UNCHANGED <<kind, par, start, grad>>
  /\ Log([op |-> "tickall", clock |-> "all", d |-> d, g |-> << >>,
          v |-> (now'[par.clock] - start >= par.secs), b |-> FALSE])

Reset ==
  /\ kind = "time"
  /\ start' = now[par.clock]
  /\ UNCHANGED <<kind, par, now, grad>>
  /\ Log([op |-> "reset", clock |-> par.clock, d |-> 0, g |-> << >>, v |-> (0 >= par.secs), b |-> FALSE])

\* the solver records another gradient (or moves to a point / cost with this gradient)
NewGrad(g) ==
  /\ kind = "grad"
  /\ grad' = g
  /\ UNCHANGED <<kind, par, now, start>>
  /\ Log([op |-> "grad", clock |-> "none", d |-> 0, g |-> g, v |-> Small(g), b |-> OnBoundary(g)])

Step == \/ \E c \in Clocks, d \in Ticks : Tick(c, d)
        \/ \E d \in Ticks : TickAll(d)
        \/ Reset
        \/ \E g \in Grads : NewGrad(g)

Next == \/ /\ ~done /\ Len(script) < MaxLen /\ Step /\ UNCHANGED done
        \/ /\ ~done /\ Len(script) >= 1 /\ done' = TRUE
           /\ UNCHANGED <<kind, par, now, start, grad, script>>
Spec == Init /\ [][Next]_vars

-----------------------------------------------------------------------------
(* design statements *)
\* the verdict logged with a step is the documented inequality in the state reached
LoggedIsVerdict == script # << >> => script[Len(script)].v = Verdict
\* only the chosen clock matters: a tick of another clock never changes the verdict
OtherClockIrrelevant ==
  [][\A c \in Clocks, d \in Ticks : (Tick(c, d) /\ c # par.clock) => (Verdict' = Verdict)]_vars
\* time never runs backwards here, so without a reset a limit once reached stays reached
MonotoneWithoutReset ==
  [][(kind = "time" /\ Verdict /\ start' = start) => Verdict']_vars
\* after a reset the limit is reached at once only if it is not positive
ResetRestarts == [][Reset => (Verdict' <=> par.secs <= 0)]_vars

\* the unit of the gradient does not matter
GradHomogeneous == kind = "grad" =>
  (Small(grad) <=> SmallOn([i \in DOMAIN grad |-> 2 * grad[i]], <<2 * par.tol[1], par.tol[2]>>))

Emit == done => PrintT(<<"@@", ToJson([kind |-> kind, par |-> par, script |-> script])>>)
=============================================================================
