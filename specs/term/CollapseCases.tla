---------------------------- MODULE CollapseCases ----------------------------
(***************************************************************************)
(* The history-driven state machine for the collapse detectors and the     *)
(* generator of (history, detector configuration, mask, expected report)   *)
(* cases replayed on the real mystic.collapse functions (spec -> code).    *)
(*                                                                         *)
(* State: the recorded history `hist` (the step monitor's x); each Step    *)
(* records one more point.  Every reachable non-empty history is emitted   *)
(* once (INVARIANT Emit) together with                                     *)
(*   d   for every configuration of the definition catalogue DefSeq (every *)
(*       tolerance x look-back window x target/offset, mask = None) the    *)
(*       report the specification gives, and                               *)
(*   m   (histories of length <= MaskLen) for every configuration of the   *)
(*       mask catalogue MaskSeq (every mask in every accepted format):     *)
(*       r  the report Detect \ mask, a  the mask after update_mask,       *)
(*       c  what the termination condition Collapse*(..) reports (nothing  *)
(*          unless the history is longer than the window),                 *)
(*       x  how many detected elements the mask removed.                   *)
(* Mode selects the detector family:                                       *)
(*   "param"     collapse_at / collapse_as on N parameters over Vals       *)
(*   "weight"    collapse_weight   on M measures x P points, weights Vals  *)
(*   "position"  collapse_position on M measures x P points, positions Vals*)
(* Part # -1 restricts the histories to those whose first point has the    *)
(* value Part in its first live entry (one catalogue split over several    *)
(* TLC runs).                                                              *)
(* The design properties at the end are checked by TLC on every history.   *)
(***************************************************************************)
EXTENDS CollapseDefs, TLC, Json, SequencesExt

CONSTANTS Mode, N, M, P, Vals, MaxLen, MaskLen,
          Tols, Gens,          \* definition catalogue: tolerances <<n,d>>, windows (None = -1)
          Targets,             \* param: target records of the definition catalogue
          MTols, MGens,        \* mask catalogue: tolerances, windows (>= 0)
          MTargets,            \* param: targets of the mask catalogue
          PrsCat,              \* param: the pair parts of collapse_as masks
          IdxCat,              \* param: the single-index parts of collapse_as masks
          MaxMask,             \* measures: largest mask (number of elements)
          Part                 \* -1, or: only histories whose first point has this value in its first live entry
                               \* (splits one catalogue over several TLC runs)

VARIABLES hist
vars == <<hist>>

Fill == 7      \* the entries of a measure vector the detector at hand does not look at

Points ==
  CASE Mode = "param"  -> [1..N -> Vals]
    [] Mode = "weight" -> {Flat(w, [m \in 1..M |-> [k \in 1..P |-> Fill]]) : w \in [1..M -> [1..P -> Vals]]}
    [] OTHER           -> {Flat([m \in 1..M |-> [k \in 1..P |-> Fill]], q) : q \in [1..M -> [1..P -> Vals]]}

Init == hist = << >>
FirstLive == IF Mode = "position" THEN P + 1 ELSE 1
Step(p) == /\ Len(hist) < MaxLen
           /\ (hist = << >> /\ Part # -1) => p[FirstLive] = Part
           /\ hist' = Append(hist, p)
Next == \E p \in Points : Step(p)
Spec == Init /\ [][Next]_vars

-----------------------------------------------------------------------------
(* catalogues; one uniform record shape.  mk is the mask: none (python None), idx / prs (parameter masks), *)
(* fmt + ms (measure masks: format and the set of elements it denotes)                                    *)
NoMask == [none |-> TRUE, idx |-> {}, prs |-> {}, fmt |-> "none", ms |-> {}]
PMask(i, p) == [none |-> FALSE, idx |-> i, prs |-> p, fmt |-> "set", ms |-> {}]
MMask(f, s) == [none |-> FALSE, idx |-> {}, prs |-> {}, fmt |-> f, ms |-> s]
C(k, tol, g, tgt, off, mk) == [k |-> k, tol |-> tol, g |-> g, tgt |-> tgt, off |-> off, mk |-> mk]
NT == NoTarget(N)

WUniv == (0..(M - 1)) \X (0..(P - 1))
PUniv == (0..(M - 1)) \X PairsOf(P)
PUnivBoth == PUniv \cup {<<e[1], Rev(e[2])>> : e \in PUniv}
Small(U) == {s \in SUBSET U : Cardinality(s) <= MaxMask}
Formats == {"dict", "set", "where"}

DefCat ==
  CASE Mode = "param" ->
            {C("at", tol, g, tgt, FALSE, NoMask) : tol \in Tols, g \in Gens, tgt \in Targets}
       \cup {C("as", tol, g, NT, off, NoMask) : tol \in Tols, g \in Gens, off \in BOOLEAN}
    [] Mode = "weight" -> {C("wt", tol, g, NT, FALSE, NoMask) : tol \in Tols, g \in Gens}
    [] OTHER           -> {C("ps", tol, g, NT, FALSE, NoMask) : tol \in Tols, g \in Gens}

MaskCat ==
  CASE Mode = "param" ->
            {C("at", tol, g, tgt, FALSE, mk) : tol \in MTols, g \in MGens, tgt \in MTargets,
                                               mk \in {NoMask} \cup {PMask(s, {}) : s \in SUBSET (0..(N - 1))}}
       \cup {C("as", tol, g, NT, off, mk) : tol \in MTols, g \in MGens, off \in BOOLEAN,
                                            mk \in {NoMask} \cup {PMask(s, p) : s \in IdxCat, p \in PrsCat}}
    [] Mode = "weight" ->
            {C("wt", tol, g, NT, FALSE, mk) : tol \in MTols, g \in MGens,
                                              mk \in {NoMask} \cup {MMask(f, s) : f \in Formats, s \in Small(WUniv)}}
    [] OTHER ->
            {C("ps", tol, g, NT, FALSE, mk) : tol \in MTols, g \in MGens,
                                              mk \in {NoMask} \cup {MMask(f, s) : f \in Formats, s \in Small(PUnivBoth)}}

DefSeq == SetToSeq(DefCat)
MaskSeq == SetToSeq(MaskCat)

-----------------------------------------------------------------------------
Detect(c, h) ==
  CASE c.k = "at" -> DetectAt(h, c.g, c.tol, c.tgt)
    [] c.k = "as" -> DetectAs(h, c.g, c.tol, c.off)
    [] c.k = "wt" -> DetectWeight(h, c.g, c.tol, M, P)
    [] OTHER      -> DetectPosition(h, c.g, c.tol, M, P)

Report(c, h) ==
  CASE c.k = "at" -> ReportAt(h, c.g, c.tol, c.tgt, c.mk)
    [] c.k = "as" -> ReportAs(h, c.g, c.tol, c.off, c.mk)
    [] c.k = "wt" -> ReportWeight(h, c.g, c.tol, M, P, c.mk.ms)
    [] OTHER      -> ReportPosition(h, c.g, c.tol, M, P, c.mk.ms)

(* the mask after the reported collapse was applied (update_mask); a measure mask given as None takes *)
(* the format of the report, which is the dict format                                                 *)
After(c, rep) ==
  CASE c.k = "at" -> [c.mk EXCEPT !.none = FALSE, !.idx = c.mk.idx \cup rep, !.fmt = "set"]
    [] c.k = "as" -> [c.mk EXCEPT !.none = FALSE, !.prs = c.mk.prs \cup rep, !.fmt = "set"]
    [] OTHER      -> [c.mk EXCEPT !.none = FALSE, !.ms = UpdateSet(c.mk.ms, rep),
                                  !.fmt = IF c.mk.fmt = "none" THEN "dict" ELSE c.mk.fmt]

(* the elements of the mask as one set, for emission *)
MaskElems(c, mk) == CASE c.k = "at" -> mk.idx [] c.k = "as" -> mk.prs [] OTHER -> mk.ms

CondReport(c, h) == IF Live(h, c.g) THEN Report(c, h) ELSE {}

-----------------------------------------------------------------------------
(* design properties, checked on every reachable history *)
Checked == IF hist # << >> /\ Len(hist) <= MaskLen THEN MaskCat ELSE {}

(* feeding a detector its own output as (additional) mask yields nothing new *)
FixedPoint == \A c \in Checked : Report([c EXCEPT !.mk = After(c, Report(c, hist))], hist) = {}
(* the report is exactly the detected elements that the mask does not name *)
ReportIsDetectMinusMask ==
  \A c \in Checked :
     LET r == Report(c, hist)
         d == Detect(c, hist) IN
     /\ r \subseteq d
     /\ c.mk.none => r = d
     /\ c.k = "at" => (r \cap c.mk.idx = {} /\ d \ r \subseteq c.mk.idx)
     /\ c.k = "as" => \A q \in d : (q \in r) <=> ~MaskedPair(q, c.mk)
     /\ c.k = "wt" => r = d \ c.mk.ms
     /\ c.k = "ps" => \A e \in d : (e \in r) <=> (e \notin c.mk.ms /\ <<e[1], Rev(e[2])>> \notin c.mk.ms)
(* the mask only grows, by exactly what was reported *)
MaskGrows ==
  \A c \in Checked :
     LET r == Report(c, hist)
         a == After(c, r) IN
     MaskElems(c, a) = MaskElems(c, c.mk) \cup r /\ c.mk.idx \subseteq a.idx
(* a larger tolerance never detects less; a longer window never detects more *)
TolMonotone ==
  hist # << >> =>
  \A c \in DefCat, t \in Tols :
     c.tol[1] * t[2] <= t[1] * c.tol[2] => Detect(c, hist) \subseteq Detect([c EXCEPT !.tol = t], hist)
WindowMonotone ==
  hist # << >> =>
  \A c \in DefCat, g \in Gens :
     (c.g > 0 /\ g > 0 /\ c.g <= g) => Detect([c EXCEPT !.g = g], hist) \subseteq Detect(c, hist)
(* windows None, 0 and anything >= the history length all see the whole history *)
WholeHistory ==
  hist # << >> =>
  \A c \in DefCat, g \in Gens :
     (c.g \in {None, 0} /\ (g \in {None, 0} \/ g >= Len(hist))) => Detect(c, hist) = Detect([c EXCEPT !.g = g], hist)

-----------------------------------------------------------------------------
(* emission *)
ASSUME PrintT(<<"@@", ToJson([mode |-> Mode, n |-> N, m |-> M, p |-> P, defcat |-> DefSeq, maskcat |-> MaskSeq])>>)

Emit ==
  hist # << >> =>
  PrintT(<<"@@", ToJson([h |-> hist,
        d |-> [i \in 1..Len(DefSeq) |-> Report(DefSeq[i], hist)],
        m |-> IF Len(hist) <= MaskLen
              THEN [i \in 1..Len(MaskSeq) |->
                      LET c == MaskSeq[i]
                          r == Report(c, hist) IN
                      [r |-> r, a |-> MaskElems(c, After(c, r)), c |-> CondReport(c, hist),
                       x |-> Cardinality(Detect(c, hist)) - Cardinality(r)]]
              ELSE << >>])>>)
=============================================================================
