SPECIFICATION Spec
CONSTANTS
  Energies <- QEnergies
  MaxLen = 5
  Tols <- QTols
  Windows <- QWindows
  Targets <- QTargets
  Limits <- QLimits
INVARIANT WindowRespected
INVARIANT VTRCOGisOr
INVARIANT EmptyHistory
INVARIANT Emit
