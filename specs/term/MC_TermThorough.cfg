SPECIFICATION Spec
CONSTANTS
  Energies <- QEnergies
  MaxLen = 5
  MaxChanges = 5
  Tols <- QTols
  FTols <- QTols
  Windows <- QWindows
  Targets <- QTargets
  Limits <- QLimits
  Scales <- QScales
  Exits <- QExits
  EmitLens <- QLens
  Extra <- QExtra
INVARIANT WindowRespected
INVARIANT VTRCOGisOr
INVARIANT EmptyHistory
INVARIANT Emit
