SPECIFICATION Spec
CONSTANTS
  N = 6
  Vals = {0, 1, 2, 3}
  K = 1
  Confs <- MConfsOne
  Points <- MPoints13
  Design = "closed"
  MaskRule = "keep"
  Record = FALSE
INVARIANT CollapseBound
