SPECIFICATION Spec
CONSTANTS Coords <- TCoords
  PEnergies <- QPEnergies
  Shapes <- TShapes
  PTols <- QPTols
INVARIANT IdenticalPopulationConverged
INVARIANT Emit
