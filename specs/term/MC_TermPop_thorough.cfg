SPECIFICATION Spec
CONSTANTS Coords <- TCoords
  PEnergies <- QPEnergies
  Shapes <- TShapes
  PTols <- QPTols
  PScales <- QPScales
INVARIANT IdenticalPopulationConverged
INVARIANT PopHomogeneous
INVARIANT Emit
