SPECIFICATION Spec
CONSTANTS
  Mode = "param"
  N = 2
  M = 0
  P = 0
  Vals = {0, 1, 2}
  MaxLen = 4
  MaskLen = 3
  Tols <- Tols5
  Gens <- Gens6
  Targets <- Targets4
  MTols <- Tol1h
  MGens = {0, 1, 3}
  MTargets <- Targets3
  PrsCat <- PrsAll
  IdxCat <- IdxAll
  MaxMask = 0
  Part <- NoPart
INVARIANT FixedPoint
INVARIANT ReportIsDetectMinusMask
INVARIANT MaskGrows
INVARIANT TolMonotone
INVARIANT WindowMonotone
INVARIANT WholeHistory
INVARIANT Emit
