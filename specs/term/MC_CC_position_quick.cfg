SPECIFICATION Spec
CONSTANTS
  Mode = "position"
  N = 0
  M = 2
  P = 3
  Vals = {0, 1}
  MaxLen = 2
  MaskLen = 1
  Tols <- TolsW
  Gens <- Gens5
  Targets <- NoTargets
  MTols <- Tol0
  MGens = {0, 1}
  MTargets <- NoTargets
  PrsCat <- NoSets
  IdxCat <- NoSets
  MaxMask = 1
  Part = 0
INVARIANT FixedPoint
INVARIANT ReportIsDetectMinusMask
INVARIANT MaskGrows
INVARIANT Emit
