SPECIFICATION Spec
CONSTANTS
  Secs <- QSecs
  Ticks <- QTicks
  Grads <- QGrads
  GTols <- QGTols
  Norms <- QNorms
  MaxLen = 3
INVARIANT LoggedIsVerdict
INVARIANT Emit
PROPERTY OtherClockIrrelevant
PROPERTY MonotoneWithoutReset
PROPERTY ResetRestarts
