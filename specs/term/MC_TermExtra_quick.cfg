SPECIFICATION Spec
CONSTANTS
  Secs <- QSecs
  Ticks <- QTicks
  Grads <- QGrads
  GTols <- QGTols
  Norms <- QNorms
  GScales <- QGScales
  MaxLen = 3
INVARIANT LoggedIsVerdict
INVARIANT GradHomogeneous
INVARIANT Emit
PROPERTY OtherClockIrrelevant
PROPERTY MonotoneWithoutReset
PROPERTY ResetRestarts
