---- MODULE MC_TermThorough ----
EXTENDS TermMachine
QEnergies == {0, 1, 2, 3}
QTols == {<<0,1>>, <<1,2>>, <<1,1>>, <<2,1>>, <<1,4>>}
QWindows == {-1, 0, 1, 2, 3, 4, 6}
QTargets == {0, 1, 2}
QLimits == {-1, 0, 2, 8}
QScales == {0}
QLens == 0..MaxLen
QExtra == {}
QExits == BOOLEAN
====
