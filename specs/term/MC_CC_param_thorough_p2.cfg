SPECIFICATION Spec
CONSTANTS
  Mode = "param"
  N = 3
  M = 0
  P = 0
  Vals = {0, 1, 2}
  MaxLen = 3
  MaskLen = 2
  Tols <- Tols4
  Gens <- Gens5
  Targets <- Targets4
  MTols <- Tol1h
  MGens = {1, 2}
  MTargets <- MTargets2
  PrsCat <- PrsMid
  IdxCat <- IdxQuick
  MaxMask = 0
  Part = 2
INVARIANT FixedPoint
INVARIANT ReportIsDetectMinusMask
INVARIANT MaskGrows
INVARIANT Emit
