SPECIFICATION Spec
CONSTANTS Coords <- SCoords
  PEnergies <- SPEnergies
  Shapes <- XShapes
  PTols <- SPTols
  PScales <- XPScales
INVARIANT IdenticalPopulationConverged
INVARIANT PopHomogeneous
INVARIANT Emit
