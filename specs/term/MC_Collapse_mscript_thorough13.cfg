SPECIFICATION ScriptSpec
CONSTANTS
  N = 6
  Vals = {0, 1, 2, 3}
  K = 1
  Confs <- MConfs13t
  Points <- MPoints13t
  Design = "closed"
  MaskRule = "extend"
  Record = TRUE
INVARIANT ReportedDisjoint
INVARIANT MaskGrewByReported
INVARIANT MaskBounded
INVARIANT CollapseBound
INVARIANT FixedPoint
INVARIANT EmitStop
