SPECIFICATION Spec
INVARIANT Narrows
INVARIANT FixedPoint
INVARIANT Emit
