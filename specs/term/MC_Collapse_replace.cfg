SPECIFICATION FairSpec
CONSTANTS
  N = 2
  Vals = {0, 1, 2}
  K = 2
  Confs <- ConfsOne
  Design = "closed"
  MaskRule = "replace"
  Record = FALSE
PROPERTY NeverTwice
