SPECIFICATION FairSpec
CONSTANTS
  N = 2
  Vals = {0, 1, 2}
  K = 2
  Confs <- ConfsAll
  Design = "closed"
  MaskRule = "extend"
  Record = FALSE
INVARIANT ReportedDisjoint
INVARIANT MaskGrewByReported
INVARIANT MaskBounded
INVARIANT CollapseBound
INVARIANT EvalSatisfies
PROPERTY MaskMonotone
PROPERTY StrictGrowth
PROPERTY NeverTwice
PROPERTY CollapseOnlyOnCollapseStop
PROPERTY Terminates
