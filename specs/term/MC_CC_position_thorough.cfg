SPECIFICATION Spec
CONSTANTS
  Mode = "position"
  N = 0
  M = 2
  P = 3
  Vals = {0, 1}
  MaxLen = 2
  MaskLen = 1
  Tols <- TolsW
  Gens <- Gens5
  Targets <- NoTargets
  MTols <- Tol1h
  MGens = {0, 1}
  MTargets <- NoTargets
  PrsCat <- NoSets
  IdxCat <- NoSets
  MaxMask = 2
  Part <- NoPart
INVARIANT FixedPoint
INVARIANT ReportIsDetectMinusMask
INVARIANT MaskGrows
INVARIANT TolMonotone
INVARIANT WindowMonotone
INVARIANT WholeHistory
INVARIANT Emit
