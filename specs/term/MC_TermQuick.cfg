SPECIFICATION Spec
CONSTANTS
  Energies <- QEnergies
  MaxLen = 4
  MaxChanges = 4
  Tols <- QTols
  FTols <- QTols
  Windows <- QWindows
  Targets <- QTargets
  Limits <- QLimits
  Scales <- QScales
  Exits <- QExits
  EmitLens <- QLens
  Extra <- QExtra
INVARIANT WindowRespected
INVARIANT VTRCOGisOr
INVARIANT TolMonotone
INVARIANT EmptyHistory
INVARIANT Homogeneous
INVARIANT Emit
