SPECIFICATION Spec
CONSTANTS
  Energies <- QEnergies
  MaxLen = 4
  Tols <- QTols
  Windows <- QWindows
  Targets <- QTargets
  Limits <- QLimits
INVARIANT WindowRespected
INVARIANT VTRCOGisOr
INVARIANT TolMonotone
INVARIANT EmptyHistory
INVARIANT Emit
