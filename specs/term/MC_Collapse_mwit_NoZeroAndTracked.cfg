SPECIFICATION Spec
CONSTANTS
  N = 6
  Vals = {0, 1, 2, 3}
  K = 1
  Confs <- MConfs13w
  Points <- MPoints13
  Design = "closed"
  MaskRule = "extend"
  Record = FALSE
INVARIANT NoZeroAndTracked
