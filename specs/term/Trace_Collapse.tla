--------------------------- MODULE Trace_Collapse ---------------------------
(***************************************************************************)
(* Trace validation (code -> spec) for the loop machine of Collapse.tla.   *)
(*                                                                         *)
(* IOEnv.TRACE_FILE is a JSON array of traces; a trace is an array of      *)
(* events recorded by harness/c11_loop.py from a REAL mystic solver that   *)
(* ran solver.Solve() (or a manual Step()/Collapse() loop) under           *)
(* Or(stop, CollapseAt(..), CollapseAs(..)) -- or, on a flattened product  *)
(* measure (harness/c11_measure.py), under Or(stop, CollapseWeight(..),    *)
(* CollapsePosition(..)):                                                  *)
(*   New       kind, conf (the termination: see Collapse.tla `conf`)       *)
(*   CostCall  x, mass -- the user's cost was called at x (after the first *)
(*                    applied collapse; before it nothing is demanded);    *)
(*                    mass: one record per factor of a product measure --  *)
(*                    same: the factor's total weight at x is that of the  *)
(*                    candidate the solver's constraints were applied to;  *)
(*                    cz: the weights of the factor that are exactly 0 in  *)
(*                    that candidate (computed by the harness from the     *)
(*                    numbers)                                             *)
(*   Stop      msg, h, len -- the inner loop returned: members named by    *)
(*                    the stop message ("limit": the solver's own limits), *)
(*                    the last <= K step-monitor points,                   *)
(*                    min(length of the step monitor, K+1)                 *)
(*   Collapse  ra, rs, vals, rw, rp, before, after -- Collapse() returned  *)
(*                    a non-empty collapse: reported indices and pairs,    *)
(*                    pin values (UNSET for target=None), reported weights *)
(*                    (m,k) and position pairs (m,(i,j)), the              *)
(*                    termination's masks read before and after the call   *)
(*   NoCollapse before, after -- Collapse() returned nothing               *)
(*   End       best -- Solve returned (or the manual loop ended)           *)
(* All parameter values (x, h, best, targets) are integer ids interned per *)
(* trace by exact float equality, so "pinned at its target" and "equal to  *)
(* its partner" are decided HERE, by Holds() of Collapse.tla, on ids.      *)
(* With tolerance 0 (conf.exact) the detectors themselves can be evaluated *)
(* on ids (ptp <= 0 iff all equal; |x - t| <= 0 iff equal; for measures the *)
(* ids are SIGNED: 0.0 has id 0, positive values positive ids, negative    *)
(* values negative ids, so "weight <= 0" can be read off an id and "weight *)
(* is exactly 0" is "id = 0"), and the stop                                *)
(* message and the reported collapse must be what MsgOf / Detect \ mask    *)
(* give on the recorded window.                                            *)
(*                                                                         *)
(* Every event is matched with the action of Collapse.tla it instantiates. *)
(* The conditions under which it IS that action are named clauses; if all  *)
(* hold the trace takes the faithful action, otherwise it takes the        *)
(* corresponding deviation step (follows the observation) and the names of *)
(* the false clauses are collected in `dev`.  A trace is a behaviour of    *)
(* Collapse.tla iff it is accepted with dev = {}.  The deviation steps     *)
(* exist so that ALL broken clauses of a run are named, not only the first *)
(* one.  Many traces are validated per TLC run (`tid`); register 1         *)
(* collects <<tid, dev>> of every trace matched to its end.                *)
(***************************************************************************)
EXTENDS Collapse, IOUtils, TLCExt

Traces == JsonDeserialize(IOEnv.TRACE_FILE)

VARIABLES tid, l, dev
tvars == <<vars, tid, l, dev>>

Tr == Traces[tid]
E  == Tr[l]

AsMask(m) == [none |-> m.none, idx |-> ToSet(m.idx), prs |-> ToSet(m.prs)]
AsMMask(m) == [fmt |-> m.fmt, els |-> ToSet(m.els)]
AsFlags(f) == [i \in 1..Len(f) |-> [same |-> f[i].same, cz |-> ToSet(f[i].cz)]]
AsMasks(m) == [at |-> AsMask(m.at), as |-> AsMask(m.as), wt |-> AsMMask(m.wt), ps |-> AsMMask(m.ps)]
AsConf(c) == [atOn |-> c.atOn, asOn |-> c.asOn, atTol |-> c.atTol, atG |-> c.atG, atTgt |-> c.atTgt,
              asTol |-> c.asTol, asG |-> c.asG, initAt |-> AsMask(c.initAt), initAs |-> AsMask(c.initAs),
              exact |-> c.exact,
              npts |-> c.npts, wtOn |-> c.wtOn, psOn |-> c.psOn, wtTol |-> c.wtTol, wtG |-> c.wtG,
              psTol |-> c.psTol, psG |-> c.psG, initWt |-> AsMMask(c.initWt), initPs |-> AsMMask(c.initPs)]

Failing(cl) == {cl[i][1] : i \in {j \in DOMAIN cl : ~cl[j][2]}}
AllTrue(cl) == \A i \in DOMAIN cl : cl[i][2]

IsEvent(name) == l <= Len(Tr) /\ E.ev = name /\ l' = l + 1 /\ UNCHANGED tid

TraceInit ==
  /\ tid \in 1..Len(Traces)
  /\ l = 2 /\ dev = {}
  /\ Traces[tid][1].ev = "New"
  /\ conf = AsConf(Traces[tid][1].conf)
  /\ hist = << >> /\ len = 0
  /\ mk = [at |-> conf.initAt, as |-> conf.initAs, wt |-> conf.initWt, ps |-> conf.initPs]
  /\ pin = [i \in Index |-> FREE] /\ tied = {} /\ zw = {} /\ tp = {} /\ zold = {} /\ cons = << >>
  /\ pc = "run" /\ msg = {}
  /\ rep = NoRep /\ prev = mk /\ ever = NoRep /\ ncol = 0 /\ script = << >>

-----------------------------------------------------------------------------
(* the user's cost was called at E.x *)
TraceCostCall ==
  /\ IsEvent("CostCall")
  /\ pc = "run"
  /\ IF Holds(E.x, AsFlags(E.mass))
     THEN CostCall(E.x, AsFlags(E.mass)) /\ UNCHANGED dev
     ELSE /\ dev' = dev \cup {"evaluated-point:" \o w : w \in WhyAll(E.x, AsFlags(E.mass))}
          /\ pin' = Resolve(pin, E.x)
          /\ UNCHANGED <<conf, hist, len, mk, tied, zw, tp, zold, cons, pc, msg, rep, prev, ever, ncol, script>>

(* the inner loop returned with a message *)
TraceStop ==
  /\ IsEvent("Stop")
  /\ pc = "run"
  /\ LET m == ToSet(E.msg)
         cl == <<
           <<"stop:message-names-only-installed-conditions",
               /\ m # {} /\ ("limit" \in m => m = {"limit"})
               /\ m \subseteq {"stop", "limit"} \cup (IF conf.atOn THEN {"at"} ELSE {}) \cup (IF conf.asOn THEN {"as"} ELSE {})
                                \cup (IF conf.wtOn THEN {"wt"} ELSE {}) \cup (IF conf.psOn THEN {"ps"} ELSE {})>>,
           <<"stop:collapse-condition-silent-until-history-longer-than-window",
               /\ ("at" \in m => E.len > conf.atG) /\ ("as" \in m => E.len > conf.asG)
               /\ ("wt" \in m => E.len > conf.wtG) /\ ("ps" \in m => E.len > conf.psG)>>,
           <<"stop:collapse-members-are-what-the-detectors-report-on-the-recorded-window",
               (conf.exact /\ E.h # << >> /\ "limit" \notin m) => m = MsgOf(E.h, E.len, "stop" \in m)>> >>
     IN  /\ hist' = E.h /\ len' = E.len
         /\ IF AllTrue(cl) THEN StopWith(m) /\ UNCHANGED dev
            ELSE /\ dev' = dev \cup Failing(cl)
                 /\ pc' = "stopped" /\ msg' = m
                 /\ UNCHANGED <<conf, mk, pin, tied, zw, tp, zold, cons, rep, prev, ever, ncol, script>>

(* Collapse() returned a non-empty collapse *)
TraceCollapse ==
  /\ IsEvent("Collapse")
  /\ pc = "stopped"
  /\ LET ra == ToSet(E.ra)
         rs == ToSet(E.rs)
         vals == [i \in Index |-> E.vals[i + 1]]
         rw == ToSet(E.rw)
         rp == ToSet(E.rp)
         before == AsMasks(E.before)
         after == AsMasks(E.after)
         cl == <<
           <<"collapse:applied-only-when-nothing-but-collapse-conditions-stopped-the-solver",
               msg # {} /\ msg \subseteq CollapseMembers>>,
           <<"collapse:reports-for-exactly-the-named-members",
               /\ (ra # {} <=> "at" \in msg) /\ (rs # {} <=> "as" \in msg)
               /\ (rw # {} <=> "wt" \in msg) /\ (rp # {} <=> "ps" \in msg)>>,
           <<"collapse:reported-are-parameters-and-pairs",
               ra \subseteq Index /\ rs \subseteq PairsOf(N) /\ rw \subseteq AllWt /\ rp \subseteq AllPs>>,
           <<"collapse:mask-unchanged-since-the-previous-collapse", before = mk>>,
           <<"collapse:reported-disjoint-from-mask",
               /\ ra \cap mk.at.idx = {} /\ \A q \in rs : ~MaskedPair(q, mk.as)
               /\ rw \cap mk.wt.els = {} /\ \A e \in rp : ~MaskedPos(e, mk.ps.els)>>,
           <<"collapse:never-reported-twice",
               ra \cap ever.at = {} /\ rs \cap ever.as = {} /\ rw \cap ever.wt = {} /\ rp \cap ever.ps = {}>>,
           <<"collapse:mask-after-is-mask-before-plus-reported", after = MaskAfter("extend", mk, ra, rs, rw, rp)>>,
           <<"collapse:reported-is-detect-minus-mask-on-the-recorded-window",
               (conf.exact /\ hist # << >>) => (ra = RepNowAt /\ rs = RepNowAs /\ rw = RepNowWt /\ rp = RepNowPs)>>,
           <<"collapse:number-of-collapses-bounded-by-parameters-plus-pairs",
               ncol < N + Cardinality(PairsOf(N)) + Cardinality(AllWt) + Cardinality(AllPs)>> >>
     IN  IF AllTrue(cl) THEN CollapseWith(ra, rs, vals, rw, rp) /\ UNCHANGED dev
         ELSE /\ dev' = dev \cup Failing(cl)
              /\ prev' = mk /\ rep' = [at |-> ra, as |-> rs, wt |-> rw, ps |-> rp]
              /\ mk' = after
              /\ pin' = PinAfter(pin, ra \cap Index, vals)
              /\ tied' = tied \cup (rs \cap PairsOf(N))
              /\ zw' = zw \cup (rw \cap AllWt)
              /\ tp' = tp \cup (rp \cap AllPs)
              /\ zold' = zold \cup OldOf(zw, tp, rw \cap AllWt)
              /\ ever' = [at |-> ever.at \cup ra, as |-> ever.as \cup rs, wt |-> ever.wt \cup rw, ps |-> ever.ps \cup rp]
              /\ ncol' = ncol + 1
              /\ pc' = "run" /\ msg' = {}
              /\ UNCHANGED <<conf, hist, len, cons, script>>

(* Collapse() was called and returned nothing: only right if a stop condition holds; the masks stay *)
TraceNoCollapse ==
  /\ IsEvent("NoCollapse")
  /\ pc = "stopped"
  /\ LET cl == <<
           <<"collapse:skipped-only-when-a-stop-condition-holds", Final(msg)>>,
           <<"collapse:mask-unchanged-since-the-previous-collapse", AsMasks(E.before) = mk>>,
           <<"collapse:mask-unchanged-when-nothing-is-applied", AsMasks(E.after) = mk>> >>
     IN  /\ dev' = dev \cup Failing(cl)
         /\ mk' = AsMasks(E.after)
         /\ UNCHANGED <<conf, hist, len, pin, tied, zw, tp, zold, cons, pc, msg, rep, prev, ever, ncol, script>>

(* Solve returned *)
TraceEnd ==
  /\ IsEvent("End")
  /\ pc = "stopped"
  /\ LET cl == <<
           <<"end:solve-returns-only-on-a-stop-condition", Final(msg)>> >>
         why == {"final-solution:" \o w : w \in WhyAll(E.best, AllMass)}         \* (no candidate: the mass clause does not apply)
     IN  IF AllTrue(cl) /\ why = {} THEN Finish /\ UNCHANGED dev
         ELSE /\ dev' = dev \cup Failing(cl) \cup why
              /\ pc' = "done"
              /\ UNCHANGED <<conf, hist, len, mk, pin, tied, zw, tp, zold, cons, msg, rep, prev, ever, ncol, script>>

TraceNext == TraceCostCall \/ TraceStop \/ TraceCollapse \/ TraceNoCollapse \/ TraceEnd
TraceSpec == TraceInit /\ [][TraceNext]_tvars

-----------------------------------------------------------------------------
(* the invariants of Collapse.tla, in every state of every trace that has not deviated *)
TrReportedDisjoint == dev = {} => ReportedDisjoint
TrMaskGrewByReported == dev = {} => MaskGrewByReported
TrMaskBounded == dev = {} => MaskBounded
TrCollapseBound == dev = {} => CollapseBound
TrMaskMonotone == [][dev' = {} => (/\ mk.at.idx \subseteq mk'.at.idx /\ mk.as.prs \subseteq mk'.as.prs
                                   /\ mk.as.idx \subseteq mk'.as.idx
                                   /\ mk.wt.els \subseteq mk'.wt.els /\ mk.ps.els \subseteq mk'.ps.els)]_tvars

-----------------------------------------------------------------------------
(* acceptance bookkeeping: register 1 = {<<tid, dev>>} of the traces matched to their end (which must be the *)
(* End event), register 2 = [tid -> longest matched prefix]                                                  *)
ASSUME TLCSet(1, {})
ASSUME TLCSet(2, [i \in 1..Len(Traces) |-> 0])

Accept ==
  /\ (l = Len(Tr) + 1 /\ pc = "done") => TLCSet(1, TLCGet(1) \cup {<<tid, dev>>})
  /\ (TLCGet(2)[tid] < l => TLCSet(2, [TLCGet(2) EXCEPT ![tid] = l]))

AllAccepted ==
  PrintT(<<"@@", ToJson([total |-> Len(Traces),
                         done |-> {[tid |-> a[1], dev |-> a[2]] : a \in TLCGet(1)},
                         prefix |-> TLCGet(2)])>>)
=============================================================================
