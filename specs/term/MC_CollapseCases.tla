------------------------- MODULE MC_CollapseCases -------------------------
(* constants of the case-generation configurations of CollapseCases.tla *)
EXTENDS CollapseCases
Tols4 == {<<0, 1>>, <<1, 2>>, <<1, 1>>, <<3, 2>>}
Tols5 == Tols4 \cup {<<2, 1>>}
TolsW == {<<0, 1>>, <<1, 2>>, <<1, 1>>}
Tol1 == {<<1, 1>>}
Tol0 == {<<0, 1>>}
Tol1h == {<<1, 1>>, <<1, 2>>}
Gens5 == {-1, 0, 1, 2, 3}
Gens6 == {-1, 0, 1, 2, 3, 4}
TgtNone == NoTarget(N)
TgtScalar == [mode |-> "scalar", v |-> [i \in 1..N |-> 1]]
TgtList == [mode |-> "list", v |-> [i \in 1..N |-> (i - 1) % 2]]
TgtList2 == [mode |-> "list", v |-> [i \in 1..N |-> 2 - ((i - 1) % 3)]]
Targets3 == {TgtNone, TgtScalar, TgtList}
Targets4 == {TgtNone, TgtScalar, TgtList, TgtList2}
MTargets2 == {TgtNone, TgtScalar}
NoTargets == {TgtNone}
(* collapse_as masks: single indices and pairs in either orientation *)
IdxQuick == {{}, {0}, {N - 1}, {0, N - 1}}
IdxAll == SUBSET (0..(N - 1))
PrsQuick == {{}, {<<0, 1>>}, {<<1, 0>>}, {<<0, N - 1>>, <<N - 1, 1>>}, PairsOf(N)}
PrsAll == SUBSET (PairsOf(N) \cup {Rev(q) : q \in PairsOf(N)})
PrsMid == {s \in PrsAll : Cardinality(s) <= 2} \cup {PairsOf(N)}
NoSets == {{}}
NoPart == -1
=============================================================================
