SPECIFICATION Spec
CONSTANTS NLeaves = 3
  Depth = 2
  Wide = FALSE
INVARIANT InfoOnlySatisfied
INVARIANT InfoIffSat
INVARIANT WhenTransparent
INVARIANT SingletonTransparent
PROPERTY Monotone
INVARIANT Emit
