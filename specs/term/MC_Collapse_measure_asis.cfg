SPECIFICATION Spec
CONSTANTS
  N = 6
  Vals = {0, 1, 2, 3}
  K = 1
  Confs <- MConfs13
  Points <- MPoints13
  Design = "asis"
  MaskRule = "extend"
  Record = FALSE
INVARIANT EvalSatisfies
