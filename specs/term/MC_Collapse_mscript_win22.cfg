SPECIFICATION ScriptSpec
CONSTANTS
  N = 8
  Vals = {0, 1, 2, 3}
  K = 2
  Confs <- MConfsWin22
  Points <- MPoints22t
  Design = "closed"
  MaskRule = "extend"
  Record = TRUE
CONSTRAINT AtMostTwoCollapses
INVARIANT ReportedDisjoint
INVARIANT MaskGrewByReported
INVARIANT MaskBounded
INVARIANT CollapseBound
INVARIANT FixedPoint
INVARIANT EmitStop
