---- MODULE MC_TermPop ----
EXTENDS TermPop
QCoords == {0, 1, 3}
QPEnergies == {0, 2, INF}
QShapes == {<<3, 1>>, <<2, 2>>, <<1, 2>>}
QPTols == {<<0,1>>, <<1,1>>, <<2,1>>, <<1,2>>}
TCoords == {-1, 0, 1, 3}
TShapes == {<<3, 1>>, <<2, 2>>, <<1, 2>>, <<3, 2>>, <<4, 1>>}
====
