---- MODULE MC_TermPop ----
EXTENDS TermPop
QCoords == {0, 1, 3}
QPEnergies == {0, 2, INF}
QShapes == {<<3, 1>>, <<2, 2>>, <<1, 2>>}
QPTols == {<<0,1>>, <<1,1>>, <<2,1>>, <<1,2>>}
QPScales == {0}
TCoords == {-1, 0, 1, 3}
TShapes == {<<3, 1>>, <<2, 2>>, <<1, 2>>, <<3, 2>>, <<4, 1>>}
\* other magnitudes (about 1e-301, 1e-9, 1e10), negative coordinates and energies, a tolerance tiny but not zero
SCoords == {-2, 0, 1}
SPEnergies == {-2, 1, INF}
SShapes == {<<2, 2>>}
SPTols == {<<0,1>>, <<1,1>>, <<1, 16777216>>}
SPScales == {-1000, -30, 33}
XShapes == {<<2, 2>>, <<3, 1>>}
XPScales == {-1000, -300, -30, 33, 996}
====
