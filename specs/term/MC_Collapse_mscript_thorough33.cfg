SPECIFICATION ScriptSpec
CONSTANTS
  N = 18
  Vals = {0, 1, 2, 3}
  K = 1
  Confs <- MConfs33
  Points <- MPoints33s
  Design = "closed"
  MaskRule = "extend"
  Record = TRUE
INVARIANT ReportedDisjoint
INVARIANT MaskGrewByReported
INVARIANT MaskBounded
INVARIANT CollapseBound
INVARIANT FixedPoint
INVARIANT EmitStop
