SPECIFICATION Spec
CONSTANTS NLeaves = 3
  Depth = 3
  Wide = TRUE
INVARIANT InfoOnlySatisfied
INVARIANT InfoIffSat
INVARIANT WhenTransparent
INVARIANT SingletonTransparent
PROPERTY Monotone
INVARIANT Emit
