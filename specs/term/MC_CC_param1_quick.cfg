SPECIFICATION Spec
CONSTANTS
  Mode = "param"
  N = 2
  M = 0
  P = 0
  Vals = {0, 1, 2}
  MaxLen = 3
  MaskLen = 2
  Tols <- Tols4
  Gens <- Gens5
  Targets <- Targets3
  MTols <- Tol0
  MGens = {1, 2}
  MTargets <- MTargets2
  PrsCat <- PrsQuick
  IdxCat <- IdxQuick
  MaxMask = 0
  Part <- NoPart
INVARIANT FixedPoint
INVARIANT ReportIsDetectMinusMask
INVARIANT MaskGrows
INVARIANT TolMonotone
INVARIANT WindowMonotone
INVARIANT WholeHistory
INVARIANT Emit
