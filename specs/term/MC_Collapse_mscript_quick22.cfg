SPECIFICATION ScriptSpec
CONSTANTS
  N = 8
  Vals = {0, 1, 2, 3}
  K = 1
  Confs <- MConfs22q
  Points <- MPoints22q
  Design = "closed"
  MaskRule = "extend"
  Record = TRUE
INVARIANT ReportedDisjoint
INVARIANT MaskGrewByReported
INVARIANT MaskBounded
INVARIANT CollapseBound
INVARIANT FixedPoint
INVARIANT EmitStop
