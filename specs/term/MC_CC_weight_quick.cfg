SPECIFICATION Spec
CONSTANTS
  Mode = "weight"
  N = 0
  M = 2
  P = 2
  Vals = {0, 1}
  MaxLen = 2
  MaskLen = 2
  Tols <- TolsW
  Gens <- Gens5
  Targets <- NoTargets
  MTols <- Tol1h
  MGens = {0, 1}
  MTargets <- NoTargets
  PrsCat <- NoSets
  IdxCat <- NoSets
  MaxMask = 2
INVARIANT FixedPoint
INVARIANT ReportIsDetectMinusMask
INVARIANT MaskGrows
INVARIANT TolMonotone
INVARIANT WindowMonotone
INVARIANT WholeHistory
INVARIANT Emit
