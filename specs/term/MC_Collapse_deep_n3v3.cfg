SPECIFICATION FairSpec
CONSTANTS
  N = 3
  Vals = {0, 1, 2}
  K = 2
  Confs <- ConfsOne
  Design = "closed"
  MaskRule = "extend"
  Record = FALSE
INVARIANT ReportedDisjoint
INVARIANT MaskGrewByReported
INVARIANT MaskBounded
INVARIANT CollapseBound
INVARIANT EvalSatisfies
PROPERTY MaskMonotone
PROPERTY StrictGrowth
PROPERTY NeverTwice
PROPERTY CollapseOnlyOnCollapseStop
PROPERTY Terminates
\* deep run, not part of the registered tiers (3 parameters x 3 values: 19 614 distinct states, 236 669 generated,
\* no violation; about 8-12 min with 2 workers): run by hand with  tlc -workers 4 -config MC_Collapse_deep_n3v3.cfg MC_Collapse
