SPECIFICATION Spec
CONSTANTS
  Secs <- WSecs
  Ticks <- WTicks
  Grads <- WGrads
  GTols <- WGTols
  Norms <- QNorms
  GScales <- WGScales
  MaxLen = 2
INVARIANT LoggedIsVerdict
INVARIANT GradHomogeneous
INVARIANT Emit
PROPERTY OtherClockIrrelevant
PROPERTY MonotoneWithoutReset
PROPERTY ResetRestarts
