SPECIFICATION Spec
CONSTANTS
  N = 2
  Vals = {0, 1, 2}
  K = 2
  Confs <- ConfsOne
  Design = "asis"
  MaskRule = "extend"
  Record = FALSE
INVARIANT EvalSatisfies
