---------------------------- MODULE MC_Collapse ----------------------------
(* constants of the model-checking configurations of Collapse.tla (cfg files cannot hold tuples/records) *)
EXTENDS Collapse
NoMask == [none |-> TRUE, idx |-> {}, prs |-> {}]
Mask(i, p) == [none |-> FALSE, idx |-> i, prs |-> p]
Tol0 == <<0, 1>>
TolHalf == <<1, 2>>
Tol1 == <<1, 1>>
TgtNone == NoTarget(N)
TgtScalar1 == [mode |-> "scalar", v |-> [i \in 1..N |-> 1]]
TgtList == [mode |-> "list", v |-> [i \in 1..N |-> (i - 1) % 2]]
MaskAt0 == Mask({0}, {})
MaskAsRev == Mask({}, {<<1, 0>>})
MaskAsIdx == Mask({N - 1}, {})

Conf(atOn, asOn, atTol, atG, atTgt, asTol, asG, initAt, initAs) ==
  [atOn |-> atOn, asOn |-> asOn, atTol |-> atTol, atG |-> atG, atTgt |-> atTgt,
   asTol |-> asTol, asG |-> asG, initAt |-> initAt, initAs |-> initAs, exact |-> TRUE]

(* CollapseAt(None, 1, 2) + CollapseAs(1, 1), no masks: pins at the best point, ties, pinned-and-tied parameters *)
CBoth1   == Conf(TRUE, TRUE, Tol1, 2, TgtNone, Tol1, 1, NoMask, NoMask)
(* tolerance 0, scalar target 1, windows 1 / 2, masks given at construction (an index; a pair in reverse orientation) *)
CMasked  == Conf(TRUE, TRUE, Tol0, 1, TgtScalar1, Tol0, 2, MaskAt0, MaskAsRev)
(* per-parameter target, tolerance 1/2, a single index masking every pair it occurs in *)
CList    == Conf(TRUE, TRUE, TolHalf, 1, TgtList, TolHalf, 1, NoMask, MaskAsIdx)
(* one condition only *)
CAtOnly  == Conf(TRUE, FALSE, Tol0, 2, TgtNone, Tol0, 1, NoMask, NoMask)
CAsOnly  == Conf(FALSE, TRUE, Tol0, 1, TgtNone, Tol1, 2, NoMask, NoMask)

(* exact scalar target, loose ties: a pinned parameter whose partner is not pinned (same Collapse / a later one) *)
CMix1    == Conf(TRUE, TRUE, Tol0, 1, TgtScalar1, Tol1, 1, NoMask, NoMask)
CMix2    == Conf(TRUE, TRUE, Tol0, 1, TgtScalar1, Tol1, 2, NoMask, NoMask)

(* per-parameter targets 0,1,0,.. with tolerance 1: on values {0,1} every parameter collapses at once, each at ITS target *)
CListAll == Conf(TRUE, FALSE, Tol1, 1, TgtList, Tol0, 1, NoMask, NoMask)

(* ties only, the pair (0,1) masked: with 3 parameters the pairs (1,2) and (0,2) are tied by successive collapses *)
CChain == Conf(FALSE, TRUE, Tol0, 1, TgtNone, Tol0, 1, NoMask, Mask({}, {<<0, 1>>}))
ConfsChain == {CChain}

ConfsQuick == {CBoth1, CMasked}
ConfsAll == {CBoth1, CMasked, CList, CAtOnly, CAsOnly, CMix1, CMix2, CListAll}
ConfsOne == {CBoth1}
ConfsScript == {CBoth1, CMasked, CList, CMix1, CMix2, CAtOnly, CListAll}
=============================================================================
