---------------------------- MODULE MC_Collapse ----------------------------
(* constants of the model-checking configurations of Collapse.tla (cfg files cannot hold tuples/records) *)
EXTENDS Collapse
NoMask == [none |-> TRUE, idx |-> {}, prs |-> {}]
Mask(i, p) == [none |-> FALSE, idx |-> i, prs |-> p]
Tol0 == <<0, 1>>
TolHalf == <<1, 2>>
Tol1 == <<1, 1>>
TgtNone == NoTarget(N)
TgtScalar1 == [mode |-> "scalar", v |-> [i \in 1..N |-> 1]]
TgtList == [mode |-> "list", v |-> [i \in 1..N |-> (i - 1) % 2]]
MaskAt0 == Mask({0}, {})
MaskAsRev == Mask({}, {<<1, 0>>})
Bool == {TRUE, FALSE}
=============================================================================
