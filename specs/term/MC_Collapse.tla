---------------------------- MODULE MC_Collapse ----------------------------
(* constants of the model-checking configurations of Collapse.tla (cfg files cannot hold tuples/records) *)
EXTENDS Collapse
NoMask == [none |-> TRUE, idx |-> {}, prs |-> {}]
Mask(i, p) == [none |-> FALSE, idx |-> i, prs |-> p]
Tol0 == <<0, 1>>
TolHalf == <<1, 2>>
Tol1 == <<1, 1>>
TgtNone == NoTarget(N)
TgtScalar1 == [mode |-> "scalar", v |-> [i \in 1..N |-> 1]]
TgtList == [mode |-> "list", v |-> [i \in 1..N |-> (i - 1) % 2]]
MaskAt0 == Mask({0}, {})
MaskAsRev == Mask({}, {<<1, 0>>})
MaskAsIdx == Mask({N - 1}, {})

(* measure masks: [fmt, els]; a termination without measure conditions: npts = <<0, 0>> *)
NoMMask == [fmt |-> "none", els |-> {}]
MMask(f, e) == [fmt |-> f, els |-> e]

Conf(atOn, asOn, atTol, atG, atTgt, asTol, asG, initAt, initAs) ==
  [atOn |-> atOn, asOn |-> asOn, atTol |-> atTol, atG |-> atG, atTgt |-> atTgt,
   asTol |-> asTol, asG |-> asG, initAt |-> initAt, initAs |-> initAs, exact |-> TRUE,
   npts |-> <<0, 0>>, wtOn |-> FALSE, psOn |-> FALSE, wtTol |-> Tol0, wtG |-> 1, psTol |-> Tol0, psG |-> 1,
   initWt |-> NoMMask, initPs |-> NoMMask]

(* CollapseAt(None, 1, 2) + CollapseAs(1, 1), no masks: pins at the best point, ties, pinned-and-tied parameters *)
CBoth1   == Conf(TRUE, TRUE, Tol1, 2, TgtNone, Tol1, 1, NoMask, NoMask)
(* tolerance 0, scalar target 1, windows 1 / 2, masks given at construction (an index; a pair in reverse orientation) *)
CMasked  == Conf(TRUE, TRUE, Tol0, 1, TgtScalar1, Tol0, 2, MaskAt0, MaskAsRev)
(* per-parameter target, tolerance 1/2, a single index masking every pair it occurs in *)
CList    == Conf(TRUE, TRUE, TolHalf, 1, TgtList, TolHalf, 1, NoMask, MaskAsIdx)
(* one condition only *)
CAtOnly  == Conf(TRUE, FALSE, Tol0, 2, TgtNone, Tol0, 1, NoMask, NoMask)
CAsOnly  == Conf(FALSE, TRUE, Tol0, 1, TgtNone, Tol1, 2, NoMask, NoMask)

(* exact scalar target, loose ties: a pinned parameter whose partner is not pinned (same Collapse / a later one) *)
CMix1    == Conf(TRUE, TRUE, Tol0, 1, TgtScalar1, Tol1, 1, NoMask, NoMask)
CMix2    == Conf(TRUE, TRUE, Tol0, 1, TgtScalar1, Tol1, 2, NoMask, NoMask)

(* per-parameter targets 0,1,0,.. with tolerance 1: on values {0,1} every parameter collapses at once, each at ITS target *)
CListAll == Conf(TRUE, FALSE, Tol1, 1, TgtList, Tol0, 1, NoMask, NoMask)

(* ties only, the pair (0,1) masked: with 3 parameters the pairs (1,2) and (0,2) are tied by successive collapses *)
CChain == Conf(FALSE, TRUE, Tol0, 1, TgtNone, Tol0, 1, NoMask, Mask({}, {<<0, 1>>}))
ConfsChain == {CChain}

ConfsQuick == {CBoth1, CMasked}
ConfsAll == {CBoth1, CMasked, CList, CAtOnly, CAsOnly, CMix1, CMix2, CListAll}
ConfsOne == {CBoth1}
ConfsScript == {CBoth1, CMasked, CList, CMix1, CMix2, CAtOnly, CListAll}

-----------------------------------------------------------------------------
(* MEASURE terminations Or(stop, CollapseWeight, CollapsePosition) on a product measure of shape npts *)
MConf(npts, wtOn, psOn, wtTol, wtG, psTol, psG, initWt, initPs) ==
  [Conf(FALSE, FALSE, Tol0, 1, TgtNone, Tol0, 1, NoMask, NoMask) EXCEPT
     !.npts = npts, !.wtOn = wtOn, !.psOn = psOn, !.wtTol = wtTol, !.wtG = wtG, !.psTol = psTol, !.psG = psG,
     !.initWt = initWt, !.initPs = initPs]

(* model points: one pattern per factor (weights in units, positions), flattened w[0] p[0] w[1] p[1] ... *)
RECURSIVE PointsOf(_, _)
PointsOf(pats, m) == IF m = 1 THEN pats ELSE {a \o b : a \in pats, b \in PointsOf(pats, m - 1)}
(* 2 support points: weight on both / drifted to one side, positions apart / merged *)
Pats2 == {<<1, 1, 0, 1>>, <<2, 0, 0, 1>>, <<0, 2, 0, 1>>, <<1, 1, 1, 1>>}
Pats2s == {<<1, 1, 0, 1>>, <<2, 0, 0, 1>>, <<1, 1, 1, 1>>}
(* 3 support points: the weight leaves point 0, then point 1; positions 1,2 merge, then 0 joins *)
Pats3 == {<<1, 1, 1, 0, 1, 2>>, <<0, 2, 1, 0, 1, 2>>, <<0, 0, 3, 0, 1, 2>>, <<1, 1, 1, 0, 1, 1>>, <<1, 1, 1, 1, 1, 1>>, <<0, 1, 2, 0, 0, 2>>}
Pats3s == {<<1, 1, 1, 0, 1, 2>>, <<0, 2, 1, 0, 1, 2>>, <<1, 1, 1, 0, 1, 1>>, <<0, 1, 2, 0, 0, 2>>}
MPoints22 == PointsOf(Pats2, 2)
MPoints22s == {a \o b : a \in Pats2, b \in Pats2s}
MPoints13 == Pats3
MPoints22q == {a \o b : a \in Pats2, b \in {<<1, 1, 0, 1>>, <<2, 0, 1, 1>>}} \cup {<<1, 1, 0, 1, 0, 2, 0, 1>>, <<2, 0, 0, 1, 1, 1, 1, 1>>}
MPoints33s == {a \o b \o c : a \in Pats3s, b \in {<<1, 1, 1, 0, 1, 2>>, <<0, 0, 3, 0, 1, 1>>}, c \in {<<1, 1, 1, 0, 1, 2>>}}

(* both conditions, no masks (None becomes dict), tolerance 0 *)
MBoth22   == MConf(<<2, 2>>, TRUE, TRUE, Tol0, 1, Tol0, 1, NoMMask, NoMMask)
(* tolerance 1 on the weights (a weight of one unit counts as collapsed), window 2; positions exact, window 1 *)
MLoose22  == MConf(<<2, 2>>, TRUE, TRUE, Tol1, 2, Tol0, 1, MMask("dict", {}), MMask("dict", {}))
(* masks given at construction in the set / where formats (a position pair in reverse orientation) *)
MSet22    == MConf(<<2, 2>>, TRUE, TRUE, Tol0, 1, Tol0, 2, MMask("set", {<<0, 1>>}), MMask("set", {<<1, <<1, 0>>>>}))
MWhere22  == MConf(<<2, 2>>, TRUE, TRUE, Tol0, 1, Tol0, 1, MMask("where", {<<1, 0>>}), MMask("where", {}))
(* one condition only *)
MWtOnly22 == MConf(<<2, 2>>, TRUE, FALSE, Tol0, 2, Tol0, 1, NoMMask, NoMMask)
MPsOnly22 == MConf(<<2, 2>>, FALSE, TRUE, Tol0, 1, Tol0, 2, NoMMask, NoMMask)
(* 3 support points; weight 1 of factor 0 masked from the start: a tracked pair (0,1) followed by the collapse of weight 0 alone; *)
(* the pair (0,1) masked: chained tracked pairs by successive collapses                                                      *)
MBoth13   == MConf(<<1, 3>>, TRUE, TRUE, Tol0, 1, Tol0, 1, NoMMask, NoMMask)
MLead13   == MConf(<<1, 3>>, TRUE, TRUE, Tol0, 1, Tol0, 1, MMask("dict", {<<0, 1>>}), NoMMask)
MChain13  == MConf(<<1, 3>>, FALSE, TRUE, Tol0, 1, Tol0, 1, NoMMask, MMask("dict", {<<0, <<0, 1>>>>}))
MBoth33   == MConf(<<3, 3>>, TRUE, TRUE, Tol0, 1, Tol0, 1, NoMMask, MMask("dict", {}))

(* tolerance 1 on weights in units {0,1,2}: both weights of a factor <<1,1>> collapse at once (nothing is demanded of such a factor) *)
MFull13   == MConf(<<1, 3>>, TRUE, FALSE, Tol1, 1, Tol0, 1, NoMMask, NoMMask)
MPoints22t == {a \o b : a \in {<<1, 1, 0, 1>>, <<2, 0, 0, 1>>, <<0, 2, 1, 1>>}, b \in {<<2, 1, 0, 1>>}}
MPoints13t == Pats3 \cup {<<2, 1, 0, 0, 1, 2>>, <<3, 0, 0, 2, 1, 0>>, <<1, 0, 2, 1, 0, 1>>}
MConfsWin22 == {MLoose22, MSet22}
MConfs13w == {MBoth13, MLead13, MChain13, MFull13}
MConfs13t == {MBoth13, MLead13, MChain13, MFull13,
              MConf(<<1, 3>>, TRUE, TRUE, Tol1, 1, Tol1, 1, MMask("where", {<<0, 2>>}), MMask("set", {<<0, <<2, 0>>>>}))}
MConfs22 == {MBoth22, MLoose22, MSet22, MWhere22, MWtOnly22, MPsOnly22}
MConfs22q == {MBoth22}
MConfs13 == {MBoth13, MLead13, MChain13}
MConfs33 == {MBoth33}
MConfsOne == {MBoth13}
=============================================================================
