---- MODULE MC_TermScale ----
(* TermMachine at other magnitudes: the unit of energy is 2^s for s in SScales (about 1e-301, 1e-9, 1e10,  *)
(* 7e299), negative energies / targets / fvals, a tolerance that is tiny but not zero and a huge one.       *)
EXTENDS TermMachine
TINY == <<1, 16777216>>        \* 2^-24 units
HUGE == <<1048576, 1>>         \* 2^20 units
SEnergies == {-2, 0, 1, 3}
STols == {<<0,1>>, <<1,2>>, <<2,1>>, TINY, HUGE}
SFTols == {<<0,1>>, <<1,2>>}
SWindows == {-1, 1, 2}
STargets == {-2, 0, 1}         \* (-1 is the sentinel None)
SLimits == {-1, 0}
SScales == {-1000, -30, 33, 996}
TScales == {-1000, -300, -30, -8, 10, 33, 996}
SLens == 1..MaxLen
SExits == {FALSE}
SExtra == {}
====
