---- MODULE MC_TermLong ----
(* TermMachine with LONG histories (up to 32 entries: plateaus with at most one change of energy), two-digit *)
(* windows (10, 12, 30: the documented defaults of `generations` among them), two- and three-digit limits    *)
(* (10, 12, 100), and the conditions created with no argument at all.  The unit of energy is 2^-20, so that  *)
(* one unit (9.5e-7) is below and two units (1.9e-6) are above the default tolerance 1e-6; the defaults are  *)
(* written in that unit: 0.005 = (U/200) units, 1e-6 = (U/1000000) units.                                    *)
EXTENDS TermMachine
U == 1048576
LEnergies == {0, 1, 2}
LTols == {<<0,1>>, <<1,1>>}
LFTols == {<<0,1>>}
LWindows == {10, 12, 30}
LTargets == {0, 1}
LLimits == {-1, 10, 12, 100}
LScales == {-20}
LLens == {3, 10, 11, 12, 13, 25, 30, 31, 32}
TLens == {2, 3, 4} \cup (9..14) \cup (24..26) \cup (29..32)
LExits == {FALSE}
LExtra == {D("VTR", <<U, 200>>, Z, None, 0),
           D("COG", <<U, 1000000>>, Z, 30, 0),
           D("NCOG", <<1, 10000>>, Z, 10, 0),
           D("NCT", <<1, 1000000>>, Z, 30, None),
           D("VTRCOG", <<U, 200>>, <<U, 1000000>>, 30, 0),
           D("EL", Z, Z, None, None)}
====
