SPECIFICATION Spec
CONSTANTS
  N = 2
  Vals = {0, 1, 2}
  K = 2
  Confs <- ConfsOne
  Design = "closed"
  MaskRule = "keep"
  Record = FALSE
INVARIANT CollapseBound
\* MaskRule = "keep" (the mask is not updated): the same collapse is reported again and again, the number of
\* collapses exceeds the bound N + |pairs| that the growing mask guarantees (the state space is infinite, so
\* <>Stopped itself cannot be checked for this rule; StrictGrowth is violated as well)
