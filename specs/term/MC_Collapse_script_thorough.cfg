SPECIFICATION Spec
CONSTANTS
  N = 2
  Vals = {0, 1, 2}
  K = 2
  Confs <- ConfsScript
  Design = "closed"
  MaskRule = "extend"
  Record = TRUE
INVARIANT ReportedDisjoint
INVARIANT MaskGrewByReported
INVARIANT MaskBounded
INVARIANT CollapseBound
INVARIANT EvalSatisfies
INVARIANT EmitStop
