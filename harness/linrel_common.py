"""Shared by check_C13 / check_C14: running the LinRel spec in partitions, and the RENDERING of the
relation records of specs/sym/LinRel.tla as mystic constraint text.

Rendering is syntax, not the oracle.  It is the following documented bijection
(record [i, m, op, kind, c0, a1, a2] over spec variables 1..N  <->  one text line):

    lhs   =  name(i)                      if m = 1
             num(m) '*' name(i)           otherwise
    rhs   =  the non-zero terms of   a1*T1 , a2*T2 , c0   joined with ' + ' / ' - ', where
             T1 = name(p)                 kind aff          p = O1(i) = (i mod N) + 1
                  name(p)*name(q)         kind mul          q = O2(i) = ((i+1) mod N) + 1
                  name(p)**2              kind sq
                  abs(name(p))            kind abs
             T2 = name(q)                 (kinds aff, sq, abs; unused for mul)
             a coefficient +-1 is written as a sign only; an empty right-hand side is num(0)
    line  =  lhs ' ' op ' ' rhs

A SCHEME fixes name(v), the `variables=` / `nvars=` arguments given to mystic, the position pos(v)
of spec variable v in the vector handed to the generated function (vectors are padded with filler
values at the other positions, which must come back untouched), the number format (ints, floats,
or names of extra `locals`), and a scale S (every constant c0 and every coordinate is multiplied by S;
by ScaleLemma of the spec the truth of degree-one relations does not change).

SPELLINGS (what the implementation may branch on although it means nothing; rotated deterministically by the
checks so that every quick run covers every spelling many times):
    numbers      '2' | '2.0' | '2.' | '2.0e+00' | a name of `locals`; scaled constants as repr(float) ('1.862645149230957e-09', '2e+300')
    white space  SPACINGS: as is, blanks around * and /, none, doubled + tab, and the layout of the docstrings
                 (leading newline, indented lines, a blank line between the lines, trailing newline)
    containers   the input vector as list of float / int / numpy.float64 / numpy.int64, float64 / int64 / float32
                 ndarray, tuple (read-only callers), zeros written -0.0
    arguments    nvars given / omitted, locals given / None / omitted (when the text needs none)
    magnitudes   the unit of the integer lattice: 1, 2^40, 2^60 (huge), 2^-30, 2^-1000 (tiny but not zero), and for
                 relations without arithmetic 0.1, 1e-10, 1e10, 1e300, 1e-300 (decimal constants with 17 digits / exponents)

`check_rendering` evaluates the rendered right-hand side with Python at the point and compares with
the right-hand value TLC emitted -- a guard on the renderer (machinery failure if it disagrees),
never an expected value.
"""
import os, concurrent.futures as cf, multiprocessing
from harness.tlc import run_tlc, TLCError

FILL = 7777.0          # filler for positions that do not belong to a spec variable


class Scheme(object):
    """one variable-name scheme"""
    def __init__(self, name, names, pos, variables, dim, numfmt="int", scale=1, locals_=None, base=None):
        self.name = name
        self.names = names          # spec variable v (1-based) -> names[v-1]
        self.pos = pos              # spec variable v -> index in the real vector
        self.variables = variables  # argument for mystic (str base name or list of names)
        self.dim = dim              # length of the real vector = nvars
        self.numfmt = numfmt        # "int" | "float" | "locals"
        self.scale = scale
        self.locals = locals_ or {}
        self.base = base

    # ---- numbers ----------------------------------------------------------------------------
    def num(self, v, loc):
        """text of the non-negative constant v"""
        if isinstance(v, float) and (self.numfmt != "locals" or v in (0.0, 1.0)):
            return repr(v)              # a constant times a float unit: '1.862645149230957e-09', '2e+300', '0.30000000000000004'
        if self.numfmt == "float":
            return repr(float(v))
        if self.numfmt == "dot":        # the spelling of the docstrings: 'x0/2.', 'x0 >= 0.'
            return "%d." % v
        if self.numfmt == "sci":        # exponent notation with an explicit '+': '2.0e+00', '1.2e+01'
            t = "%.1e" % v
            return t if float(t) == v else "%.16e" % v
        if self.numfmt == "locals" and v not in (0, 1):
            # the first extra locals carry names that the math / numpy star-imports of the generated code also export:
            # the user's value must win (documented: "additional variables ... and their desired values")
            pool = ("e", "pi", "tau", "euler_gamma")
            nm = (pool[len(loc)] if len(loc) < len(pool) else "K%d" % len(loc)) if v not in loc.values() \
                else [k for k, w in loc.items() if w == v][0]
            loc[nm] = v
            return nm
        return str(int(v))

    # ---- points -----------------------------------------------------------------------------
    def point(self, x, kind="float"):
        """spec point (list over spec variables) -> real input vector in the container spelling `kind`"""
        v = [FILL + j for j in range(self.dim)]
        for k, xv in enumerate(x):
            v[self.pos[k]] = xv * self.scale
        return container(v, kind)

    def project(self, y):
        """real vector -> (values at the spec variables, list of filler positions that changed)"""
        spec = [y[p] for p in self.pos]
        moved = [j for j in range(self.dim) if j not in self.pos and not (y[j] == FILL + j)]
        return spec, moved


# container spellings of a vector.  'int', 'npint', 'intarray' need integral values (callers fall back to the float
# twin otherwise: int_ok); 'intarray' / 'f32array' write results back into their own dtype, so the checks use them
# only where the specified outcome is an integer (see check_C13.kinds_for); 'tuple' only for read-only callers.
KIND_TWIN = {"int": "float", "npint": "npfloat", "intarray": "array", "f32array": "array"}


def int_ok(values, limit=2 ** 52):
    return all(float(t) == int(t) and abs(t) < limit for t in values)


def container(v, kind):
    import numpy
    if kind in KIND_TWIN and not int_ok(v, 2 ** 62 if kind == "int" else (2 ** 20 if kind == "f32array" else 2 ** 52)):
        kind = KIND_TWIN[kind]
    if kind == "int":
        return [int(t) for t in v]
    if kind == "npint":
        return [numpy.int64(int(t)) for t in v]
    if kind == "intarray":
        return numpy.array([int(t) for t in v], dtype=numpy.int64)
    if kind == "f32array":
        return numpy.array([float(t) for t in v], dtype=numpy.float32)
    v = [float(t) for t in v]
    if kind == "array":
        return numpy.array(v)
    if kind == "npfloat":
        return [numpy.float64(t) for t in v]
    if kind == "negzero":
        return [(-0.0 if t == 0 else t) for t in v]
    if kind == "tuple":
        return tuple(v)
    return v


def render_rel(rel, n, sch, loc=None):
    """text of one relation under a scheme; `loc` collects extra locals (numfmt 'locals')"""
    loc = {} if loc is None else loc
    S = sch.scale
    i = rel["i"]
    p = (i % n) + 1
    q = ((i + 1) % n) + 1
    nm = lambda v: sch.names[v - 1]
    kind = rel["kind"]
    t1 = {"aff": nm(p), "mul": "%s*%s" % (nm(p), nm(q)), "sq": "%s**2" % nm(p), "abs": "abs(%s)" % nm(p)}[kind]
    terms = []
    if rel["a1"] != 0:
        terms.append((rel["a1"], t1))
    if kind != "mul" and rel["a2"] != 0:
        terms.append((rel["a2"], nm(q)))
    if rel["c0"] != 0:
        terms.append((rel["c0"] * S, None))
    out = ""
    for k, (c, t) in enumerate(terms):
        sign = "-" if c < 0 else "+"
        a = abs(c)
        body = sch.num(a, loc) if t is None else (t if a == 1 else "%s*%s" % (sch.num(a, loc), t))
        if k == 0:
            out = ("-" + body) if c < 0 else body
        else:
            out += " %s %s" % (sign, body)
    if not terms:
        out = sch.num(0, loc)
    m = rel["m"]
    lhs = nm(i) if m == 1 else "%s%s*%s" % ("-" if m < 0 else "", sch.num(abs(m), loc), nm(i))
    op = rel["op"]
    if op == "=" and getattr(sch, "eqeq", False):
        op = "=="                      # the other documented spelling of an equality
    return "%s %s %s" % (lhs, op, out), out


SPACINGS = ("asis", "airy", "tight", "wide", "doc")


def respace(text, spacing):
    """the same text with other white space (which carries no meaning in a system): blanks around every * and /,
    no blanks at all, doubled blanks with a tab after the comparator, the layout of the docstrings (a triple-quoted block: leading newline,
    every line indented, a blank line between the lines, trailing newline and blanks)"""
    import re
    if spacing == "airy":
        return "\n".join(re.sub(r"\s*([*/])\s*", r" \1 ", ln).replace(" *  * ", "**") for ln in text.split("\n"))
    if spacing == "tight":
        return "\n".join(ln.replace(" ", "") for ln in text.split("\n"))
    if spacing == "wide":
        cmp_ = re.compile(r"(<=|>=|!=|==|<|>|=)")
        return "\n".join(cmp_.sub(lambda m: m.group(1) + "\t", ln.replace(" ", "  "), count=1) for ln in text.split("\n"))
    if spacing == "doc":
        return "\n" + "\n    \n".join("    " + ln for ln in text.split("\n")) + "\n  "
    return text


def text_lines(text):
    """the lines of a rendered system that carry a relation (the doc layout has blank ones)"""
    return [ln for ln in text.split("\n") if ln.strip()]


def render_sys(rels, n, sch):
    """text of a system (list of relation records) -> (text, locals dict, [rhs texts]); under every scheme but the
    plain one ('x') the white space of the text rotates with the text itself (SPACINGS)"""
    import zlib
    loc = {}
    lines, rhss = [], []
    for r in rels:
        t, rhs = render_rel(r, n, sch, loc)
        lines.append(t)
        rhss.append(rhs)
    text = "\n".join(lines)
    if sch.name != "x":
        text = respace(text, SPACINGS[zlib.crc32(text.encode()) % len(SPACINGS)])
    return text, loc, rhss


def check_rendering(rhs_text, sch, loc, x, expected):
    """guard on the renderer: python value of the rendered right-hand side at x == TLC's value"""
    import re
    txt = rhs_text
    for k in sorted(range(len(x)), key=lambda k: -len(sch.names[k])):
        txt = re.sub(r"\b%s\b" % re.escape(sch.names[k]), "__v%d__" % k, txt)
    env2 = {"abs": abs}
    env2.update(loc)
    for k, xv in enumerate(x):
        env2["__v%d__" % k] = xv * sch.scale
    got = eval(txt, {"__builtins__": {}}, env2)
    if got != expected * sch.scale:
        raise RuntimeError("renderer disagrees with the spec: %r at %r = %r, TLC says %r (scheme %s)" % (
            rhs_text, x, got, expected * sch.scale, sch.name))


def schemes_for(n, thorough=False):
    """the variable-name schemes for spec variables 1..n (n <= 4)"""
    P12a = [1, 10, 11, 0][:n]
    P12b = [10, 1, 0, 11][:n]
    P12c = [2, 11, 1, 10][:n]
    P112 = [1, 10, 100, 11][:n]
    S = [
        Scheme("x", ["x%d" % k for k in range(n)], list(range(n)), "x", n),
        Scheme("x12a", ["x%d" % k for k in P12a], P12a, "x", 12, numfmt="float"),
        Scheme("x12b", ["x%d" % k for k in P12b], P12b, "x", 12),
        Scheme("abc", list("abcd")[:n], list(range(n)), list("abcd")[:n], n),
        Scheme("named-x1-x10", ["x1", "x10", "x100", "x11"][:n], list(range(n)), ["x1", "x10", "x100", "x11"][:n], n,
               numfmt="float"),
        Scheme("prefix", ["v", "vv", "vvv", "w"][:n], list(range(n)), ["v", "vv", "vvv", "w"][:n], n),
        Scheme("y-locals", ["y%d" % k for k in range(n)], list(range(n)), "y", n, numfmt="locals"),
        Scheme("named12", ["q%d" % k for k in P12c], P12c, ["q%d" % k for k in range(12)], 12),
        # three-digit indices next to their one- and two-digit prefixes; numbers spelled '2.' as in the docstrings
        Scheme("x112", ["x%d" % k for k in P112], P112, "x", 112, numfmt="dot"),
        # numbers in exponent notation with an explicit sign: '2.0e+00'
        Scheme("u-sci", ["u%d" % k for k in range(n)], list(range(n)), "u", n, numfmt="sci"),
    ]
    # equalities spelled '==' (both spellings are documented input) in two of the schemes
    for sc in S:
        if sc.name in ("x12b", "prefix"):
            sc.eqeq = True
    if thorough:
        S.append(Scheme("x12c", ["x%d" % k for k in P12c], P12c, "x", 12, numfmt="locals"))
    return S


def huge_schemes(n):
    """huge magnitudes: every constant and coordinate times 2^40 / 2^60 (degree-one relations only)"""
    P12a = [1, 10, 11, 0][:n]
    return [Scheme("x*2^40", ["x%d" % k for k in range(n)], list(range(n)), "x", n, scale=2 ** 40),
            Scheme("x12a*2^60", ["x%d" % k for k in P12a], P12a, "x", 12, scale=2 ** 60),
            Scheme("abc*2^40", list("abcd")[:n], list(range(n)), list("abcd")[:n], n, numfmt="float", scale=2 ** 40)]


def tiny_schemes(n):
    """tiny but not zero: the unit of the lattice is 2^-30 (~1e-9, far above the strictness tolerance 1e-15, so every
    comparator) or 2^-1000 / 2^-400 (below it: only texts whose comparators involve no tolerance, `nonstrict_only`);
    powers of two, so IEEE arithmetic stays exact; constants appear as 16-17 digit decimals with exponents"""
    P12a = [1, 10, 11, 0][:n]
    S = [Scheme("x*2^-30", ["x%d" % k for k in range(n)], list(range(n)), "x", n, scale=2.0 ** -30),
         Scheme("abc*2^-30", list("abcd")[:n], list(range(n)), list("abcd")[:n], n, scale=2.0 ** -30),
         Scheme("x12a*2^-1000", ["x%d" % k for k in P12a], P12a, "x", 12, scale=2.0 ** -1000),
         Scheme("y*2^-400", ["y%d" % k for k in range(n)], list(range(n)), "y", n, scale=2.0 ** -400)]
    S[2].nonstrict_only = S[3].nonstrict_only = True
    return S


def decimal_schemes(n):
    """units that are no power of two (constants like '0.30000000000000004', '3.0000000000000003e-10', '2e+300'):
    products with the unit are rounded, so only for relations WITHOUT arithmetic (arithmetic_free) and only where
    signs are observed (C13)"""
    P12a = [1, 10, 11, 0][:n]
    S = [Scheme("x*0.1", ["x%d" % k for k in range(n)], list(range(n)), "x", n, scale=0.1),
         Scheme("abc*1e-10", list("abcd")[:n], list(range(n)), list("abcd")[:n], n, scale=1e-10),
         Scheme("x12a*1e10", ["x%d" % k for k in P12a], P12a, "x", 12, scale=1e10),
         Scheme("x*1e300", ["x%d" % k for k in range(n)], list(range(n)), "x", n, scale=1e300),
         Scheme("prefix*1e-300", ["v", "vv", "vvv", "w"][:n], list(range(n)), ["v", "vv", "vvv", "w"][:n], n, scale=1e-300)]
    S[4].nonstrict_only = True
    return S


def arithmetic_free(rec):
    """the right-hand side is a constant or plus / minus one variable: evaluating it involves no rounding whatever the unit"""
    if rec["kind"] != "aff" or rec["m"] != 1:
        return False
    terms = [t for t in (rec["a1"], rec["a2"], rec["c0"]) if t != 0]
    return len(terms) <= 1 and rec["a1"] in (-1, 0, 1) and rec["a2"] in (-1, 0, 1)


def no_tolerance(recs):
    """no comparator of the text brings the strictness tolerance in (=, <=, >= only)"""
    return all(rc["op"] in ("=", "<=", ">=") for rc in recs)


# ------------------------------------------------------------------------------------------------
def run_many(runs, jobs=4, timeout=6000, heap="3g"):
    """runs = [(name, module, cfg, parts)]; all partitions of all runs share one pool of `jobs` TLC
    processes; returns [(name, hdr, cases, [TLCResult...])] in the order given"""
    tasks = [(ri, off) for ri, (_, _, _, parts) in enumerate(runs) for off in range(parts)]

    def one(t):
        ri, off = t
        _, mod, cfg, parts = runs[ri]
        env = {"STRIDE": parts, "OFFSET": off} if parts > 1 else None
        return run_tlc(mod, cfg=cfg, workers=1, env=env, timeout=timeout, heap=heap)
    with cf.ThreadPoolExecutor(max_workers=max(1, jobs)) as ex:
        results = list(ex.map(one, tasks))
    out = []
    for ri, (name, mod, cfg, parts) in enumerate(runs):
        res = [r for (t, r) in zip(tasks, results) if t[0] == ri]
        hdr, cases = None, []
        for r in res:
            pr = r.printed
            if r.violated and (not pr or not isinstance(pr[0], dict)):
                continue
            if not pr or not isinstance(pr[0], dict) or not pr[0].get("hdr"):
                raise TLCError("no header line from %s/%s:\n%s" % (mod, cfg, r.out[-2000:]))
            if hdr is None:
                hdr = pr[0]
            elif pr[0]["rels"] != hdr["rels"] or pr[0]["boxes"] != hdr["boxes"]:
                raise TLCError("partitions of %s/%s disagree on the catalogue" % (mod, cfg))
            cases.extend(pr[1:])
        if hdr is None:
            raise TLCError("no output from %s/%s" % (mod, cfg))
        out.append((name, hdr, cases, res))
    return out


def merged(results):
    """one TLCResult-like dict for Check.mc out of the partition results"""
    return {"distinct": sum(r.distinct or 0 for r in results), "generated": sum(r.generated or 0 for r in results),
            "depth": max((r.depth or 0) for r in results), "wall_s": max(r.wall_s for r in results)}


def first_violation(results):
    for r in results:
        if r.violated:
            return r
    return None


# ------------------------------------------------------------------------------------------------
# replay in several processes (fork: the children see the parent's imported -- possibly mutated -- mystic)
class Collector(object):
    """what a replay worker needs of harness.core.Check; merged into the real Check by merge_into"""
    def __init__(self):
        self.evals, self.keys, self.traces, self.samples, self.viol = 0, set(), 0, [], {}
        self.extra = {}                     # integer counters, summed over the chunks

    def case(self, nontrivial=False, key=None, n=1):
        self.evals += n
        if nontrivial:
            self.keys.add(key)

    def trace(self, n=1):
        self.traces += n

    def sample(self, obj, limit=6):
        if len(self.samples) < 2:
            self.samples.append(obj)

    def violation(self, key, detail, what=""):
        e = self.viol.setdefault(key, [0, []])
        e[0] += 1
        if len(e[1]) < 2:
            e[1].append((detail, what))
        return True

    def dump(self):
        return {"evals": self.evals, "nontriv": len(self.keys), "traces": self.traces, "samples": self.samples, "viol": self.viol,
                "extra": self.extra}


def merge_into(ck, d):
    from harness.core import jsonable
    ck.evaluations += d["evals"]
    ck.nontrivial_anon += d["nontriv"]          # chunks partition the cases, so keys of different chunks are distinct
    ck.traces += d["traces"]
    for k, v in d.get("extra", {}).items():
        ck.extra[k] = ck.extra.get(k, 0) + v
    for smp in d["samples"]:
        ck.sample(smp)
    for key in sorted(d["viol"]):
        count, firsts = d["viol"][key]
        for detail, what in firsts:
            ck.violation(key, detail, what)
        rest = count - len(firsts)
        if rest > 0:
            k = ck.match_known(key)
            if k is not None:
                ck.known_hits[k["key"]] = ck.known_hits.get(k["key"], 0) + rest
            else:
                ck.violations += rest
                ck.viol_keys[key] = ck.viol_keys.get(key, 0) + rest


_WORK = {}


def _run_chunk(i):
    col = Collector()
    _WORK["fn"](col, _WORK["chunks"][i])
    return col.dump()


def parallel_replay(ck, fn, chunks, jobs):
    """fn(collector, chunk) for every chunk, in up to `jobs` forked processes; results merged in chunk order"""
    if jobs <= 1 or len(chunks) <= 1:
        for ch in chunks:
            col = Collector()
            fn(col, ch)
            merge_into(ck, col.dump())
        return
    _WORK["fn"], _WORK["chunks"] = fn, chunks
    with multiprocessing.get_context("fork").Pool(min(jobs, len(chunks))) as pool:
        for d in pool.map(_run_chunk, range(len(chunks)), chunksize=1):
            merge_into(ck, d)
    _WORK.clear()


def chunked(cases, nchunks):
    """contiguous slices (start index, cases) -- TLC emits all points of a system together, so the
    per-text compile caches stay effective"""
    n = len(cases)
    size = max(1, -(-n // max(1, nchunks)))
    return [(i, cases[i:i + size]) for i in range(0, n, size)]
