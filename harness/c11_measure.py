"""C11, the solver loop Solve -> Collapse -> Solve ... for MEASURE collapses (CollapseWeight / CollapsePosition).

The solver's parameter vector is a flattened product measure of shape npts = (P,)*M (weights then positions per
factor, `product_measure.flatten()` order) and its step monitor carries `_npts`; the termination is
Or(stop, CollapseWeight(..), CollapsePosition(..)).  The state machine is the one of specs/term/Collapse.tla (the
same stop messages, Collapse action, mask growth); the measure relations are two more kinds of relation there:

  zero weight (m,k)       weight k of factor m is exactly 0.0 AND the factor's total weight is what it was in the
                          candidate the solver's constraints were applied to
  tracked pair (m,(i,j))  positions i and j of factor m are equal

spec -> code (`replay_mstop`): TLC emits the reachable stops of the machine with the script of collapses applied before;
the script is replayed on a real solver through the public Collapse(); members named, reported collapse, masks after
(format and elements), nothing reported when the detector sees its own output, and then the solver's constraints are
applied to probe points.  What a constrained point shows -- which weights are exactly 0.0, which positions are equal,
whether each factor's total weight is unchanged -- is computed HERE from the numbers (never by mystic) and looked up
in TLC's table `mbad` of the patterns that break a clause (clause names carry the circumstance: is the support point
tracked, was the weight collapsed after an older collapse of its factor).  A candidate whose weights outside the
collapsed ones of a factor are all exactly 0.0 has no point with "collapsed weights 0, total kept": outside the premise
(NoProjection in Collapse.tla), that factor is not judged for it.

code -> spec (`record_mrun`): real DE / DE2 / Nelder-Mead / Powell runs on objectives that make weights drift to zero,
positions merge, or nothing collapse; validated by TLC against specs/term/Trace_Collapse.tla like the parameter runs
(harness/c11_loop.validate).  Values are interned to SIGNED equality-preserving ids (0.0 -> 0, positive values ->
positive ids, negative -> negative ids), so "weight exactly 0" and, for tolerance 0, the detectors' tests
(weight <= 0; |p_i - p_j| <= 0) can be decided by TLC on ids.
"""
import warnings, random, collections

from harness import c11_loop as L
from harness import c11_detect as D

FREE, UNSET = -1, -2
MASS_RTOL = 2.0 ** -40        # "total weight unchanged": up to rounding of the renormalisation


def npts_of(conf):
    m, p = conf["npts"]
    return (int(p),) * int(m)


def py_mmask(kind, m):
    """the python mask object of a measure mask [fmt, els] of the specification"""
    if m["fmt"] == "none":
        return None
    return D.py_mask({"k": kind, "mk": {"none": False, "fmt": m["fmt"], "ms": m["els"]}})


def build_mtermination(mt, conf, stop=None):
    members = [stop if stop is not None else L.stop_condition(mt)]
    if conf["wtOn"]:
        members.append(mt.CollapseWeight(tolerance=L._tol(conf["wtTol"]), generations=conf["wtG"], mask=py_mmask("wt", conf["initWt"])))
    if conf["psOn"]:
        members.append(mt.CollapsePosition(tolerance=L._tol(conf["psTol"]), generations=conf["psG"], mask=py_mmask("ps", conf["initPs"])))
    return mt.Or(*members)


def jl(x):
    """nested tuples -> nested lists of ints (JSON form of an element)"""
    if isinstance(x, (tuple, list)):
        return [jl(i) for i in x]
    return int(x)


def mmask_of(mask):
    if mask is None:
        return {"fmt": "none", "els": []}
    return {"fmt": D.fmt_of(mask), "els": sorted(jl(e) for e in D.mask_elems(mask))}


def mmasks_of(mt, termination):
    """the masks of the CollapseWeight / CollapsePosition members, read from the termination's reported state"""
    out = {"wt": {"fmt": "none", "els": []}, "ps": {"fmt": "none", "els": []}}
    for doc, kw in mt.state(termination).items():
        k = "wt" if doc.startswith("CollapseWeight") else "ps" if doc.startswith("CollapsePosition") else None
        if k is not None:
            out[k] = mmask_of(kw.get("mask"))
    return out


def mreported_of(collapses):
    """Collapse()'s return value {doc: collapse} as (weights {(m,k)}, position pairs {(m,(i,j))}) and the formats"""
    rw, rp, fmts = set(), set(), {}
    for doc, v in (collapses or {}).items():
        if doc.startswith("CollapseWeight"):
            rw |= D.mask_elems(v)
            fmts["wt"] = D.fmt_of(v)
        elif doc.startswith("CollapsePosition"):
            rp |= D.mask_elems(v)
            fmts["ps"] = D.fmt_of(v)
        else:
            raise ValueError("unexpected collapse %r" % doc)
    return rw, rp, fmts


def same_mask(e, g):
    return e["fmt"] == g["fmt"] and sorted(jl(x) for x in e["els"]) == sorted(jl(x) for x in g["els"])


# ------------------------------------------------------------------------------------------------------
# what a point shows, per factor (computed from the numbers)
# ------------------------------------------------------------------------------------------------------
def split(x, npts):
    """[(weights, positions)] per factor of the flat vector x"""
    out, o = [], 0
    for p in npts:
        out.append(([float(v) for v in x[o:o + p]], [float(v) for v in x[o + p:o + 2 * p]]))
        o += 2 * p
    return out


def mass_flags(xin, xout, npts):
    """the candidate flags of the specification, per factor: same = the total weight at xout is the total weight at the
    candidate xin (up to MASS_RTOL); cz = the weights that are exactly 0.0 in the candidate"""
    flags = []
    for (wi, _), (wo, _) in zip(split(xin, npts), split(xout, npts)):
        a, b = sum(wi), sum(wo)
        flags.append({"same": bool(abs(a - b) <= MASS_RTOL * max(1.0, abs(a))),       # nan: False
                      "cz": [k for k, v in enumerate(wi) if v == 0.0]})
    return flags


def no_projection(zw, m, cz, p):
    """NoProjection of Collapse.tla for the emitted zero weights zw: factor m has collapsed weights and every other weight of
    the candidate is exactly 0 (no point has the collapsed weights at 0 and keeps the total): outside the premise"""
    z = set(k for f, k in zw if f == m)
    return bool(z) and all(k in cz for k in range(p) if k not in z)


def pattern(w, p):
    """(which weights are exactly 0.0 -> 0 else 1, positions numbered in order of first appearance by exact equality)"""
    wp = [0 if v == 0.0 else 1 for v in w]
    seen, pp = [], []
    for v in p:
        for k, u in enumerate(seen):
            if u == v:
                pp.append(k)
                break
        else:
            seen.append(v)
            pp.append(len(seen) - 1)
    return tuple(wp), tuple(pp)


def probe_points(npts, domain):
    """points the constraints are applied to: the model's own points and generic ones (every weight non-zero, all
    positions different; single weights zero; other pairs of positions equal; negative weights)"""
    rng = random.Random(len(npts) * 100 + npts[0])
    P = npts[0]
    out = [[float(v) for v in p] for p in domain]
    gen = []
    for t in range(6):
        x = []
        for m in range(len(npts)):
            w = [(1 + ((k + t + m) % P)) / 8.0 for k in range(P)]                 # dyadic, all different, > 0
            q = [float(2 * ((k * (t + 1) + m) % P) + (t % 2) * k) / 2.0 + m for k in range(P)]
            if t == 2:
                w[(m + 1) % P] = 0.0
            if t == 3:
                q = [q[0]] * P
            if t == 4:
                w[m % P] = -0.125                                                  # (the total stays > 0)
            if t == 5:
                w = [rng.random() for _ in range(P)]
                q = [rng.uniform(-2, 2) for _ in range(P)]
            x += w + q
        gen.append(x)
    return out + gen


# ------------------------------------------------------------------------------------------------------
# spec -> code: replay of one emitted stop
# ------------------------------------------------------------------------------------------------------
def load_mstop(solver, h, l, stop, limit, npts):
    from mystic.monitors import Monitor
    import numpy
    pts = [[float(v) for v in p] for p in h]
    if l > len(pts):                      # one older point outside every window
        pts = [[v + 5.0 for v in pts[0]]] + pts
    mon = Monitor()
    mon._npts = tuple(npts)
    for k, p in enumerate(pts):
        last = k == len(pts) - 1
        mon(list(p), (-1.0 if stop else 1.0) if last else 2.0)
    solver._stepmon = mon
    solver.SetEvaluationLimits(generations=(len(pts) - 1) if limit else 10 ** 6, evaluations=10 ** 6)
    solver.population[0] = numpy.array(pts[-1]) if not isinstance(solver.population[0], list) else list(pts[-1])
    return mon


def fmt_class(conf):
    return "wt=%s,ps=%s" % (conf["initWt"]["fmt"] if conf["wtOn"] else "-", conf["initPs"]["fmt"] if conf["psOn"] else "-")


def replay_mstop(mt, case, kind, domain):
    """returns (nontrivial, violations[(key, detail, what)])"""
    warnings.simplefilter("ignore")
    conf = case["conf"]
    npts = npts_of(conf)
    n = 2 * sum(npts)
    s = L.solver_of(kind, n)
    s.SetTermination(build_mtermination(mt, conf))
    viol = []

    def bad(key, what, **detail):
        d = {"solver": kind, "npts": list(npts), "termination": conf, "script(stops at which Collapse() was applied)": case["script"],
             "stop": {"history": case["h"], "len": case["l"], "members": case["msg"]}}
        d.update(detail)
        viol.append(("collapse-call:" + key, d, "%s solver, product measure %s, stops %s then history %s: %s" % (
            kind, list(npts), [e["h"] for e in case["script"]], case["h"], what)))

    try:
        for e in case["script"]:
            load_mstop(s, e["h"], e["l"], False, False, npts)
            s.Collapse()
        load_mstop(s, case["h"], case["l"], "stop" in case["msg"], "limit" in case["msg"], npts)
        got_msg = L.members_of(s.Terminated(info=True))
        before = mmasks_of(mt, s._termination)
        got = s.Collapse()
        rw, rp, fmts = mreported_of(got)
        after = mmasks_of(mt, s._termination)
    except Exception as ex:
        bad("raises[measure]", "raised %r" % (ex,), error=repr(ex))
        return False, viol
    exp_rw = set(D.tup(e) for e in case["rw"])
    exp_rp = set(D.tup(e) for e in case["rp"])
    applied = bool(exp_rw or exp_rp)
    nontrivial = applied or ("stop" in case["msg"] and len(case["msg"]) > 1) or ("limit" in case["msg"] and bool(case.get("again")))
    if got_msg != set(case["msg"]):
        bad("stop-members[measure]", "termination names %s, specification %s" % (sorted(got_msg), sorted(case["msg"])), got=sorted(got_msg))
        return nontrivial, viol
    if (rw, rp) != (exp_rw, exp_rp):
        what = "Collapse() reported weights %s / position pairs %s, specification Detect \\ mask = %s / %s" % (
            D.srt(rw), D.srt(rp), D.srt(exp_rw), D.srt(exp_rp))
        bad("reported[measure]" if applied else "applied-although-a-stop-condition-holds[measure]", what,
            got={"wt": D.srt(rw), "ps": D.srt(rp)}, expected={"wt": D.srt(exp_rw), "ps": D.srt(exp_rp)})
        return nontrivial, viol
    for k in ("wt", "ps"):
        e, g = case["mk"][k], after[k]
        if not same_mask(e, g):
            bad("mask-after-is-mask-before-plus-reported[%s,format=%s]" % (k, before[k]["fmt"]),
                "mask of Collapse%s after Collapse(): %s, specification %s (before: %s)" % (
                    {"wt": "Weight", "ps": "Position"}[k], g, e, before[k]), got=after, expected=case["mk"], before=before)
            return nontrivial, viol
    if not applied:
        return nontrivial, viol
    # the detector fed its own output: on the same history no collapse member may hold any more
    try:
        again = L.members_of(s.Terminated(info=True)) - {"stop", "limit"}
    except Exception as ex:
        bad("refeed-raises[measure]", "Terminated() after Collapse() raised %r" % (ex,), error=repr(ex))
        return nontrivial, viol
    if again != set(case["again"]):
        bad("reported-again-on-the-same-history[measure]", "after Collapse() the termination names %s on the same history, "
            "specification %s" % (sorted(again), sorted(case["again"])), got=sorted(again))
    # every point the solver could evaluate from now on
    table = dict(((b["m"], tuple(b["w"]), tuple(b["p"]), bool(b["mass"])), b["why"]) for b in case["mbad"])
    seen = {}
    for x in probe_points(npts, domain):
        try:
            y = [float(v) for v in s._constraints(list(x))]
        except Exception as ex:
            bad("constraints-raise[measure-mask-format:%s]" % fmt_class(conf),
                "Collapse() reported weights %s, position pairs %s (formats %s); then constraints(%s) raised %r" % (
                    D.srt(exp_rw), D.srt(exp_rp), fmts, list(x), ex), error=repr(ex), reported=repr(got))
            break
        flags = mass_flags(x, y, npts)
        for m, (w, p) in enumerate(split(y, npts)):
            if no_projection(case["zw"], m, flags[m]["cz"], npts[m]):
                continue                        # outside the premise: nothing is demanded of this factor for this candidate
            wp, pp = pattern(w, p)
            for why in table.get((m, wp, pp, flags[m]["same"]), ()):
                seen.setdefault(why, (list(x), list(y), m))
    for w, (x, y, m) in sorted(seen.items()):
        bad(w, "after Collapse() reported zero weights %s and tracked pairs %s [all zero weights %s, all tracked pairs %s] the "
               "solver's constraints map %s to %s, which breaks %s in factor %d" % (
                   D.srt(exp_rw), D.srt(exp_rp), case["zw"], case["tp"], x, y, w, m),
            x=x, constrained=y, zero_weights=case["zw"], tracked=case["tp"], factor=m)
    return nontrivial, viol


def replay_mstops_chunk(args):
    """process-pool entry: replay a list of (index, emitted stop); returns [(index, nontrivial, violations)]"""
    cases, domain = args
    import mystic.termination as mt
    out = []
    for i, c in cases:
        nt, viol = replay_mstop(mt, c, L.KINDS[i % 4], domain)
        out.append((i, nt, viol))
    return out


# ------------------------------------------------------------------------------------------------------
# code -> spec: recording real runs
# ------------------------------------------------------------------------------------------------------
class SignedInterner(object):
    """exact float value -> integer id: 0.0 -> 0, positive values -> 1, 2, .., negative values -> -1, -2, ..
    (equality- and sign-preserving; -0.0 == 0.0)"""
    def __init__(self):
        self.pos, self.neg = {}, {}

    def __call__(self, v):
        v = float(v)
        if v != v:
            raise ValueError("nan parameter value")
        if v == 0.0:
            return 0
        d = self.pos if v > 0 else self.neg
        i = d.get(v)
        if i is None:
            i = d[v] = len(d) + 1
        return i if v > 0 else -i

    def point(self, x):
        return [self(v) for v in x]


def mobjective(spec, npts):
    """deterministic objective over the flat product measure:
       sum_m [ a (sum_k w_mk - 1)^2 + sum_k cw_mk (w_mk - tw_mk)^2 + sum_k cp_mk (p_mk - tp_mk)^2 + sum_(i,j) (p_mi - p_mj)^2 ]
    cw_mk = 0 / cp_mk = 0: flat in that weight / position; tw_mk <= 0: the weight is driven to (below) zero;
    a pair (i,j) of factor m: the positions attract each other"""
    cw, tw, cp, tp, att, a = spec["cw"], spec["tw"], spec["cp"], spec["tp"], spec["att"], spec["a"]

    def f(x):
        s = 0.0
        for m, (w, p) in enumerate(split(x, npts)):
            if a:
                d = sum(w) - 1.0
                s += a * d * d
            for k in range(len(w)):
                if cw[m][k]:
                    d = w[k] - tw[m][k]
                    s += cw[m][k] * d * d
                if cp[m][k]:
                    d = p[k] - tp[m][k]
                    s += cp[m][k] * d * d
            for (i, j) in att[m]:
                d = p[i] - p[j]
                s += d * d
        return s
    return f


def mid_conf(conf, n):
    """the termination as the specification sees it (parameter conditions off)"""
    nom = {"none": True, "idx": [], "prs": []}
    c = {"atOn": False, "asOn": False, "atTol": [0, 1], "atG": 1, "atTgt": {"mode": "none", "v": [0] * n},
         "asTol": [0, 1], "asG": 1, "initAt": nom, "initAs": nom}
    c.update(conf)
    c["exact"] = bool((not conf["wtOn"] or conf["wtTol"][0] == 0) and (not conf["psOn"] or conf["psTol"][0] == 0))
    return c


def record_mrun(mt, spec):
    """run one real solver on a product measure; returns the list of events"""
    import numpy
    from mystic.monitors import Monitor
    warnings.simplefilter("ignore")
    kind, conf = spec["kind"], spec["conf"]
    npts = npts_of(conf)
    n = 2 * sum(npts)
    intern = SignedInterner()
    random.seed(spec["seed"])
    numpy.random.seed(spec["seed"])
    s = L.solver_of(kind, n, spec.get("npop", 8))
    mon = Monitor()
    mon._npts = tuple(npts)
    s.SetGenerationMonitor(mon)
    if kind in ("DE", "DE2"):
        lo, hi = [], []
        for p in npts:
            lo += [0.0] * p + [-2.0] * p
            hi += [1.0] * p + [2.0] * p
        s.SetRandomInitialPoints(lo, hi)
    else:
        s.SetInitialPoints(list(spec["x0"]))
    s.SetEvaluationLimits(generations=spec["gens"], evaluations=spec.get("evals"))
    stop = {"never": lambda: mt.VTR(0.0, -1.0), "vtr": lambda: mt.VTR(1e-12, 0.0),
            "cog": lambda: mt.ChangeOverGeneration(1e-9, 8)}[spec["stop"]]()
    cf = mid_conf(conf, n)
    events = [{"ev": "New", "kind": kind, "n": n, "npts": list(npts), "conf": cf}]
    s.SetTermination(build_mtermination(mt, conf, stop=stop))
    f = mobjective(spec["obj"], npts)
    state = {"collapsed": False, "calls": 0, "ncol": 0, "io": collections.OrderedDict(), "unpaired": 0}
    maxcol = n + n * (n - 1) // 2 + sum(p + p * (p - 1) // 2 for p in npts) + 3

    def cost(x):
        state["calls"] += 1
        if state["collapsed"]:
            xl = [float(v) for v in x]
            xin = state["io"].get(tuple(xl))           # the candidate the solver's constraints turned into x
            if xin is not None:
                flags = mass_flags(xin, xl, npts)
            else:                              # the cost was reached without passing the solver's constraints
                flags = [{"same": True, "cz": []} for _ in npts]
                state["unpaired"] += 1
            events.append({"ev": "CostCall", "x": intern.point(x), "mass": flags})
        return f(x)

    def masks():
        return L.masks_of(mt, s._termination)

    def log_stop(message):
        xs = list(s._stepmon.x)[-L.KWIN:]
        events.append({"ev": "Stop", "msg": sorted(L.members_of(message)), "h": [intern.point(p) for p in xs],
                       "len": min(len(s.energy_history), L.KWIN + 1)})

    def observe():
        """wrap the solver's constraints so that every (candidate, constrained point) pair is seen"""
        inner = s._constraints

        def observed(x, *args, **kwds):
            xin = [float(v) for v in x]
            y = inner(x, *args, **kwds)
            io = state["io"]                     # (DE2 constrains its whole trial population before it evaluates any member)
            io[tuple(float(v) for v in y)] = xin
            while len(io) > 4096:
                io.popitem(last=False)
            return y
        s._constraints = observed

    orig = s.Collapse

    def wrapped(disp=False):
        message = getattr(s, "__stop__", None)
        if message is None:
            message = s.Terminated(info=True)
        log_stop(message)
        before = masks()
        r = orig(disp)
        after = masks()
        if r:
            rw, rp, fmts = mreported_of(r)
            events.append({"ev": "Collapse", "ra": [], "rs": [], "vals": [FREE] * n, "rw": sorted(jl(e) for e in rw),
                           "rp": sorted(jl(e) for e in rp), "before": before, "after": after, "calls": state["calls"],
                           "gens": s.generations})
            state["collapsed"] = True
            state["ncol"] += 1
            observe()
            if state["ncol"] > maxcol:
                raise RuntimeError("more than %d collapses: the loop does not terminate" % maxcol)
        else:
            events.append({"ev": "NoCollapse", "before": before, "after": after})
        return r

    s.Collapse = wrapped
    try:
        if spec["mode"] == "solve":
            s.Solve(cost)
        else:
            s.SetObjective(cost)
            while True:
                message = None
                while not message:
                    message = s.Step()
                if not s.Collapse():
                    break
        if events[-1]["ev"] != "NoCollapse":
            log_stop(s.Terminated(info=True))
        events.append({"ev": "End", "best": intern.point(s.bestSolution), "calls": state["calls"], "gens": s.generations,
                       "ncol": state["ncol"], "unpaired": state["unpaired"]})
    except Exception as ex:
        events.append({"ev": "Raise", "what": repr(ex)[:300], "calls": state["calls"], "ncol": state["ncol"]})
    return events


def record_mchunk(runs):
    import mystic.termination as mt
    return [record_mrun(mt, r) for r in runs]


# ------------------------------------------------------------------------------------------------------
# drivers of the recorded runs
# ------------------------------------------------------------------------------------------------------
NOMM = {"fmt": "none", "els": []}


def mconf(npts, wtOn=True, psOn=True, wtTol=(0, 1), wtG=3, psTol=(0, 1), psG=3, initWt=NOMM, initPs=NOMM):
    return {"npts": [len(npts), npts[0]], "wtOn": wtOn, "psOn": psOn, "wtTol": list(wtTol), "wtG": wtG,
            "psTol": list(psTol), "psG": psG, "initWt": initWt, "initPs": initPs}


def mmask(fmt, els=()):
    return {"fmt": fmt, "els": [jl(e) for e in els]}


def mscenarios(npts):
    """(name, objective, termination, start for NM / Powell)"""
    M, P = len(npts), npts[0]
    ones = [[1.0] * P for _ in range(M)]
    zeros = [[0.0] * P for _ in range(M)]
    none = [[] for _ in range(M)]
    even = [[1.0 / P] * P for _ in range(M)]
    spread = [[float(k) - 0.5 * m for k in range(P)] for m in range(M)]

    def obj(cw=None, tw=None, cp=None, tp=None, att=None, a=1.0):
        return {"cw": cw or ones, "tw": tw or even, "cp": cp or ones, "tp": tp or spread, "att": att or none, "a": a}

    def start(w=None, p=None):
        x = []
        for m in range(M):
            x += (w or even)[m] + (p or [[v + 0.25 for v in q] for q in spread])[m]
        return x
    # the last weight of factor 0 is pushed below zero (tolerance 0: "max weight <= 0" holds while it stays there)
    tw_neg = [list(r) for r in even]
    tw_neg[0][P - 1] = -0.5
    # the last weight of factor 0 and the first of the last factor are driven to exactly zero target (tolerance > 0)
    tw_zero = [list(r) for r in even]
    tw_zero[0][P - 1] = 0.0
    tw_zero[0][0] = 2.0 / P if P == 2 else tw_zero[0][0] + 1.0 / P
    tw_zero[M - 1][0] = 0.0 if M > 1 else tw_zero[M - 1][0]
    # positions 0 and 1 of the last factor attract each other and are not held anywhere
    cp_free = [list(r) for r in ones]
    cp_free[M - 1][0] = cp_free[M - 1][1] = 0.0
    att01 = [list(r) for r in none]
    att01[M - 1] = [(0, 1)]
    # positions 0 and 1 of factor 0 do not enter the cost at all (NM / Powell start with them equal)
    cp_flat = [list(r) for r in ones]
    cp_flat[0][0] = cp_flat[0][1] = 0.0
    p_equal = [[v + 0.25 for v in q] for q in spread]
    p_equal[0][1] = p_equal[0][0]
    sc = [
        ("nothing", obj(), mconf(npts, wtTol=(1, 64), wtG=2, psTol=(1, 64), psG=2), start()),
        ("weight:below-zero-tol0", obj(tw=tw_neg), mconf(npts, psOn=False, wtG=2), start()),
        ("weight:to-zero-tol", obj(tw=tw_zero), mconf(npts, psOn=False, wtTol=(1, 16), wtG=2), start()),
        ("weight:to-zero-tol-masked", obj(tw=tw_zero), mconf(npts, psOn=False, wtTol=(1, 16), wtG=3, initWt=mmask("dict", [(0, P - 1)])), start()),
        ("position:attract-tol", obj(cp=cp_free, att=att01), mconf(npts, wtOn=False, psTol=(1, 16), psG=2), start()),
        ("position:attract-tol-masked-reversed", obj(cp=cp_free, att=att01),
         mconf(npts, wtOn=False, psTol=(1, 16), psG=2, initPs=mmask("dict", [(0, (1, 0))])), start()),
        ("position:flat-equal-tol0", obj(cp=cp_flat), mconf(npts, wtOn=False, psG=2), start(p=p_equal)),
        ("both:tol", obj(tw=tw_zero, cp=cp_free, att=att01), mconf(npts, wtTol=(1, 16), wtG=2, psTol=(1, 16), psG=3), start()),
        ("both:tol0", obj(tw=tw_neg, cp=cp_flat), mconf(npts, wtG=3, psG=2), start(p=p_equal)),
        ("both:tol-empty-dict-masks", obj(tw=tw_zero, cp=cp_free, att=att01),
         mconf(npts, wtTol=(1, 16), wtG=3, psTol=(1, 16), psG=2, initWt=mmask("dict"), initPs=mmask("dict")), start()),
        # the set format of the masks (documented alternative of collapse_weight / collapse_position)
        ("both:tol-set-masks", obj(tw=tw_zero, cp=cp_free, att=att01),
         mconf(npts, wtTol=(1, 16), wtG=2, psTol=(1, 16), psG=2, initWt=mmask("set"), initPs=mmask("set")), start()),
    ]
    return sc


def mdrivers(thorough, seed):
    runs = []
    shapes = ((2, 2), (3, 3))
    seeds = range(3) if thorough else range(1)
    for npts in shapes:
        n = 2 * sum(npts)
        for name, obj, cf, x0 in mscenarios(npts):
            for kind in ("DE", "DE2", "NM", "PW"):
                if not thorough and npts == (3, 3) and kind == "DE2":
                    continue
                for k in seeds:
                    modes = ["solve", "manual"] if thorough else [("solve", "manual")[(len(runs) + k) % 2]]
                    for md in modes:
                        stop = ("never", "vtr", "cog")[len(runs) % 3]
                        gens = {"DE": 60, "DE2": 60, "NM": (40 if thorough else 25) * n, "PW": 8}[kind]
                        runs.append({"name": name, "kind": kind, "npts": list(npts), "n": n, "conf": cf, "obj": obj, "mode": md,
                                     "stop": stop, "seed": seed * 1000 + k * 17 + n, "x0": x0, "gens": gens, "npop": 2 * n,
                                     "evals": (150 if thorough else 100) * n})
    return runs
