"""C20 -- replay of the 'sources' states of mon/LogFile.tla (configs MC_LogSrc_*: Sources = TRUE).

One TLC state = one trajectory (plain or population-valued records) + interval + all + best + k, together with what
every reader / source / converter of mystic.munge and monitors._load has to give back for it (LogFile.tla: Basic, More).
Here the real code writes and reads:

  LoggingMonitor / VerboseLoggingMonitor (interval, all, best)  ->  logfile_reader, read_trajectories(file),
      read_history(file name / file object), _reduce_ids
  the monitor itself      ->  len/x/y/id, read_monitor, read_trajectories(mon), read_history(mon), _reduce_ids
  a solver holding it     ->  read_history(solver), read_history(restart file of the solver)
  the Null monitor        ->  read_history(Null())
  write_raw/support/converge_file -> read_raw_file, read_history(support file), read_support_file, read_converge_file,
      raw_to_support_converter, raw_to_converge_converter, converge_to_support_converter, the old support format
      (__orig_write_support_file -> read_old_support_file, old_to_new_support_converter), monitors._load (with npts:
      the measure views _wts/_pos/wts/pos)

Every expected position/structure comes out of TLC; this module only renames catalogue indices to concrete values
(helpers of check_C20, passed in as `H` -- the module that is running, so that there is one copy of its state).
"""
import os, sys, importlib, contextlib


def pop_record(H, np, rec, st, xkind, ykind):
    """concrete call arguments of one record <<MonX, MonY, id>> of a state with pop >= 1"""
    xs, ys, idv = rec
    X = [[H.XCAT[v - 1] for v in member] for member in xs]
    if xkind == "ndarray": x = np.array([[float(v) for v in m] for m in X])
    elif xkind == "tuple": x = tuple(tuple(m) for m in X)
    elif xkind == "listnd": x = [np.array([float(v) for v in m]) for m in X]
    else: x = [list(m) for m in X]
    if st["yvec"]:
        Y = [[H.YCAT[v - 1] for v in c] for c in ys]
        if ykind == "ndarray": y = np.array([[float(v) for v in c] for c in Y])
        elif ykind == "tuple": y = tuple(tuple(c) for c in Y)
        else: y = [list(c) for c in Y]
    else:
        Y = [H.YCAT[v - 1] for v in ys]
        if ykind == "ndarray": y = np.array([float(v) for v in Y])
        elif ykind == "tuple": y = tuple(Y)
        elif ykind == "np": y = [np.float64(v) for v in Y]
        else: y = list(Y)
    return x, y, H.none(idv)


def kinds(j, st):
    """container kinds of trajectory number j (rotation)"""
    if st["pop"] == 0:
        xk = ("list", "ndarray", "tuple")[j % 3]
        yk = (("list", "ndarray", "tuple") if st["yvec"] else ("py", "py", "np"))[(j // 3) % 3]
    else:
        xk = ("list", "ndarray", "tuple", "listnd")[j % 4]
        yk = (("list", "ndarray", "tuple") if st["yvec"] else ("list", "ndarray", "tuple", "np"))[(j // 4) % (3 if st["yvec"] else 4)]
    cls = "VerboseLoggingMonitor" if j % 7 == 3 else "LoggingMonitor"
    return xk, yk, cls


def replay_sources(H, M, G, np, full, j, report, corrupt=False):
    """one LogFile.tla state with Sources = TRUE: write with the real code, read back through every source, compare
    with what TLC says.  Returns False after the first disagreement of a kind (each reported under its own key)."""
    st, mo = full["b"], full["m"]
    xk, yk, cls = kinds(j, st)
    k = H.none(st["k"])
    n = len(st["traj"])
    kclass = "k-neutral" if k in (None, 1) else "k-scaled"
    shape = ("plain" if st["pop"] == 0 else "pop%d" % st["pop"]) + ("" if st["all"] else ":best")
    tag = "%s:%s" % (kclass, shape)
    base = "%d_%d" % (os.getpid(), j)
    tmp = H.TMP
    logfn = os.path.join(tmp, "slog_%s.txt" % base)
    made, mods = [logfn], []
    info = {"kind": "sources", "state": full, "j": j, "xkind": xk, "ykind": yk, "cls": cls}
    ok = [True]
    X, Y = H.XCAT, H.YCAT
    mv, mi, canon, cids = H.mapvals, H.mapiter, H.canon, H.canon_ids

    def tri(t):                     # TLC <<iter, params, cost>> -> canonical concrete
        return (mi(t[0]), mv(t[1], X), mv(t[2], Y))

    def ids_of(lst):
        return tuple(H.none(v) for v in lst)

    def cmp(where, what, got_fn, exp, names=("iter", "params", "cost"), key=None):
        try:
            with contextlib.redirect_stdout(H._SINK):
                got = got_fn()
        except H.Machinery:
            raise
        except Exception as ex:
            report(key or "%s:raises-%s:%s" % (where, type(ex).__name__, tag), dict(info, reader=what, error=repr(ex)),
                   "%s %s k=%s x:%s y:%s %s interval=%s traj=%s raised %r" % (where, what, k, xk, yk, shape, st["ival"], st["traj"], ex))
            ok[0] = False
            return False
        for name, g, e in zip(names, got, exp):
            if e is None:
                continue
            if g != e:
                report(key or "%s:%s:%s" % (where, name, tag), dict(info, reader=what, field=name, expected=e, got=g),
                       "%s %s k=%s x:%s y:%s %s interval=%s: %s comes back as %s, specification says %s"
                       % (where, what, k, xk, yk, shape, st["ival"], name, g, e))
                ok[0] = False
                return False
        return True

    def newfile(tagname):
        fn = os.path.join(tmp, "%s_%s.py" % (tagname, base))
        made.append(fn); mods.append(os.path.splitext(os.path.basename(fn))[0])
        return fn

    try:
        kw = {} if k is None else {"k": k}
        H._SINK.seek(0); H._SINK.truncate()
        calls = []
        for r, rec in enumerate(st["traj"]):
            if st["pop"] == 0:
                x, y, idv = H.conc_record(np, rec, st["dim"], st["yvec"], xk, yk)
            else:
                x, y, idv = pop_record(H, np, rec, st, xk, yk)
            ckw = {}
            if not st["all"] or (j + r) % 3 == 0:      # (best is not looked at when all = True)
                ckw["best"] = st["best"]
            calls.append(((x, y) if idv is None else (x, y, idv), ckw))
        try:
            with contextlib.redirect_stdout(H._SINK):
                if cls == "LoggingMonitor":
                    mon = M.LoggingMonitor(st["ival"], logfn, new=True, all=st["all"], **kw)
                else:
                    mon = M.VerboseLoggingMonitor(st["ival"], 1, 1, logfn, new=True, all=st["all"], **kw)
                for args, ckw in calls:
                    mon(*args, **ckw)
        except Exception as ex:
            report("mon:%s:call:raises-%s:%s" % (cls, type(ex).__name__, tag), dict(info, error=repr(ex)),
                   "%s(interval=%s, all=%s, k=%s) called with x:%s y:%s %s traj=%s raised %r"
                   % (cls, st["ival"], st["all"], k, xk, yk, shape, st["traj"], ex))
            return False
        # ------------------------------------------------------------------ the log
        e_log, e_hist = tri(st["log"]), tri(st["hist"])
        if corrupt and e_log[2]:
            e_log = (e_log[0], e_log[1], e_log[2][:-1] + (canon(12345.5),))

        def as3(t):
            s, p, c = t
            if not isinstance(s, (list, tuple)):      # no records: no id list at all (None, or a solver's bare id)
                if len(c):
                    raise ValueError("ids %r with %d records" % (s, len(c)))
                s = []
            return cids(s), canon(p), canon(c)

        def as2(t):
            p, c = t
            return None, canon(p), canon(c)
        cmp("log:logfile_reader", "logfile_reader(iter=True)", lambda: as3(G.logfile_reader(logfn, iter=True)), e_log)
        cmp("log:read_trajectories", "read_trajectories(logfile, iter=True)", lambda: as3(G.read_trajectories(logfn, iter=True)), e_log)
        cmp("log:read_history", "read_history(logfile, iter=True)", lambda: as3(G.read_history(logfn, iter=True)), e_hist)
        cmp("log:read_history", "read_history(logfile)", lambda: as2(G.read_history(logfn)), (None,) + e_hist[1:])

        def r_fobj():
            with open(logfn) as f:
                return as3(G.read_history(f, iter=True))
        cmp("log:read_history", "read_history(file object, iter=True)", r_fobj, e_hist)
        cmp("ids:_reduce_ids", "_reduce_ids(logfile_reader(...)[0])",
            lambda: (tuple(G._reduce_ids(G.logfile_reader(logfn, iter=True)[0])),), (ids_of(mo["red"][1]),), names=("ids",))
        # ------------------------------------------------------------------ the monitor in memory
        e_x, e_y, e_id = mv(mo["mon"][0], X), mv(mo["mon"][1], Y), ids_of(mo["mon"][2])
        if corrupt and e_y:
            e_y = e_y[:-1] + (canon(12345.5),)
        cmp("mon:holds", "len/x/y/id of the logging monitor", lambda: (len(mon), canon(mon.x), canon(mon.y), cids(mon.id)),
            (n, e_x, e_y, e_id), names=("len", "x", "y", "id"))

        def r_mon():
            a, b, c = G.read_monitor(mon, id=True)
            return canon(a), canon(b), cids(c)
        cmp("mon:read_monitor", "read_monitor(mon, id=True)", r_mon, (e_x, e_y, e_id), names=("x", "y", "id"))
        cmp("mon:read_monitor", "read_monitor(mon)", lambda: tuple(canon(v) for v in G.read_monitor(mon)), (e_x, e_y), names=("x", "y"))
        e_tmon, e_hmon = tri(mo["tmon"]), tri(mo["hmon"])
        cmp("mon:read_trajectories", "read_trajectories(mon, iter=True)", lambda: as3(G.read_trajectories(mon, iter=True)), e_tmon)
        cmp("mon:read_trajectories", "read_trajectories(mon)", lambda: as2(G.read_trajectories(mon)), (None,) + e_tmon[1:])
        cmp("mon:read_history", "read_history(mon, iter=True)", lambda: as3(G.read_history(mon, iter=True)), e_hmon)
        cmp("mon:read_history", "read_history(mon)", lambda: as2(G.read_history(mon)), (None,) + e_hmon[1:])
        cmp("ids:_reduce_ids", "_reduce_ids(read_trajectories(mon, iter=True)[0])",
            lambda: (tuple(G._reduce_ids(G.read_trajectories(mon, iter=True)[0])),), (ids_of(mo["red"][0]),), names=("ids",))
        if n:
            cmp("ids:_process_ids", "_process_ids(mon.id, len(mon))", lambda: (cids(G._process_ids(mon.id, len(mon))),), (e_tmon[0],), names=("iter",))
        # ------------------------------------------------------------------ a solver as the source (k-neutral: see LogFile.tla)
        if k in (None, 1):
            from mystic.solvers import NelderMeadSimplexSolver
            with contextlib.redirect_stdout(H._SINK):
                solver = NelderMeadSimplexSolver(st["dim"])
                solver.SetGenerationMonitor(mon)
            for sid, e_it in ((None, mo["hsolv"][0]), (4, mo["hsolv"][1])):
                solver.id = sid
                cmp("solver:read_history", "read_history(solver id=%s, iter=True)" % sid, lambda: as3(G.read_history(solver, iter=True)),
                    (mi(e_it), e_hmon[1], e_hmon[2]))
            cmp("solver:read_history", "read_history(solver)", lambda: as2(G.read_history(solver)), (None,) + e_hmon[1:])
            if j % 8 == 0:
                sv = os.path.join(tmp, "solver_%s.sav" % base)
                made.append(sv)

                def r_restart():
                    solver.SaveSolver(sv)
                    return as3(G.read_history(sv, iter=True))
                cmp("solver:read_history", "read_history(restart file of the solver, iter=True)", r_restart,
                    (mi(mo["hsolv"][1]), e_hmon[1], e_hmon[2]))
            cmp("mon:holds", "the monitor after it was given to a solver", lambda: (len(mon), canon(mon.x), canon(mon.y), cids(mon.id)),
                (n, e_x, e_y, e_id), names=("len", "x", "y", "id"))
        if j % 16 == 0:
            e_null = tri(mo["hnull"])
            cmp("null:read_history", "read_history(Null(), iter=True)", lambda: as3(G.read_history(M.Null(), iter=True)), e_null)
            cmp("null:read_history", "read_history(Null())", lambda: as2(G.read_history(M.Null())), (None,) + e_null[1:])
        # ------------------------------------------------------------------ parameter files (depend on the trajectory only)
        if st["ival"] == 1 and st["all"]:
            rf, sf, cf = newfile("qr"), newfile("qs"), newfile("qc")
            wrote = True
            for w, fn in (("raw", rf), ("support", sf), ("converge", cf)):
                try:
                    getattr(G, "write_%s_file" % w)(mon, fn)
                except Exception as ex:
                    report("file:%s:write-raises-%s:%s" % (w, type(ex).__name__, tag), dict(info, writer=w, error=repr(ex)),
                           "write_%s_file k=%s x:%s y:%s %s traj=%s raised %r" % (w, k, xk, yk, shape, st["traj"], ex))
                    ok[0] = wrote = False
            if wrote:
                importlib.invalidate_caches()
                e_raw, e_sup, e_con = tri(st["raw"]), tri(st["sup"]), tri(st["con"])
                for w, fn, e in (("raw", rf, e_raw), ("support", sf, e_sup), ("converge", cf, e_con)):
                    cmp("file:%s" % w, "read_raw_file(write_%s_file, iter=True)" % w, lambda: as3(G.read_raw_file(fn, iter=True)), e)
                cmp("file:support", "read_history(write_support_file, iter=True)", lambda: as3(G.read_history(sf, iter=True)), e_sup)
                cmp("ids:_reduce_ids", "_reduce_ids(read_raw_file(raw file, iter=True)[0])",
                    lambda: (tuple(G._reduce_ids(G.read_raw_file(rf, iter=True)[0] or [])),), (ids_of(mo["red"][2]),), names=("ids",))

                def named(fn_, reader):
                    s, (p, c) = reader(fn_, iter=True)
                    return cids(s or []), canon(p), canon(c)
                cmp("file:read_support_file", "read_support_file(write_support_file, iter=True)", lambda: named(sf, G.read_support_file), tri(mo["rsup"]))
                cmp("file:read_support_file", "read_support_file(write_support_file)", lambda: as2(G.read_support_file(sf)), (None,) + tri(mo["rsup"])[1:])
                cmp("file:read_converge_file", "read_converge_file(write_converge_file, iter=True)", lambda: named(cf, G.read_converge_file), tri(mo["rcon"]))
                cmp("file:read_converge_file", "read_converge_file(write_converge_file)", lambda: as2(G.read_converge_file(cf)), (None,) + tri(mo["rcon"])[1:])
                # ---- converters
                o1, o2, o3 = newfile("qrs"), newfile("qrc"), newfile("qcs")

                def conv(fn_conv, fin, fout):
                    fn_conv(fin, fout)
                    importlib.invalidate_caches()
                    return as3(G.read_raw_file(fout, iter=True))
                c1 = cmp("conv:raw_to_support_converter", "read_raw_file(raw_to_support_converter(write_raw_file), iter=True)",
                         lambda: conv(G.raw_to_support_converter, rf, o1), tri(mo["r2s"]))
                cmp("conv:raw_to_converge_converter", "read_raw_file(raw_to_converge_converter(write_raw_file), iter=True)",
                    lambda: conv(G.raw_to_converge_converter, rf, o2), tri(mo["r2c"]))
                cmp("conv:converge_to_support_converter", "read_raw_file(converge_to_support_converter(write_converge_file), iter=True)",
                    lambda: conv(G.converge_to_support_converter, cf, o3), tri(mo["c2s"]),
                    key="conv:converge_to_support_converter:layout")
                # ---- the old support format (plain records)
                if st["pop"] == 0:
                    of, on = newfile("qo"), newfile("qon")

                    def r_old():
                        G.__dict__["__orig_write_support_file"](mon, of)
                        importlib.invalidate_caches()
                        m = G.read_old_support_file(of)
                        return canon(m.x), canon(m.y), cids(m.id)
                    cmp("file:read_old_support_file", "read_old_support_file(old-format support file)", r_old,
                        (mv(mo["old"][0], X), mv(mo["old"][1], Y), ()), names=("x", "y", "id"))
                    cmp("conv:old_to_new_support_converter", "read_raw_file(old_to_new_support_converter(old file), iter=True)",
                        lambda: conv(G.old_to_new_support_converter, of, on), tri(mo["o2n"]))
                # ---- monitors._load
                e_load = (n, tuple(mv(r[0], X) for r in mo["load"]), tuple(mv(r[1], Y) for r in mo["load"]), (None,) * n, None, None)
                if corrupt and e_load[2]:
                    e_load = e_load[:2] + (e_load[2][:-1] + (canon(12345.5),),) + e_load[3:]

                def r_load(fn_):
                    m = M._load(fn_)
                    return len(m), canon(m.x), canon(m.y), cids(m.id), m.k, m._npts
                lnames = ("len", "x", "y", "id", "k", "npts")
                cmp("load:_load", "monitors._load(write_support_file)", lambda: r_load(sf), e_load, names=lnames)
                if c1:
                    cmp("load:_load", "monitors._load(raw_to_support_converter(write_raw_file))", lambda: r_load(o1), e_load, names=lnames)
                for q, (npts, iw, ip, wts, pos) in enumerate(mo["meas"]):
                    nf = newfile("qn%d" % q)

                    def r_meas():
                        G.write_support_file(mon, nf, npts=tuple(npts))
                        importlib.invalidate_caches()
                        m = M._load(nf)
                        out = [tuple(m._npts), tuple(m._wts), tuple(m._pos), canon(m.x)]
                        if n:
                            out += [canon(m.wts), canon(m.pos)]
                        return out
                    cmp("load:measures", "monitors._load(write_support_file(npts=%s)): _npts/_wts/_pos/x/wts/pos" % (tuple(npts),), r_meas,
                        [tuple(npts), tuple(iw), tuple(ip), e_load[1]] + ([mv(wts, X), mv(pos, X)] if n else []),
                        names=("_npts", "_wts", "_pos", "x", "wts", "pos"))
        return ok[0]
    finally:
        for fn in made:
            try: os.remove(fn)
            except OSError: pass
        for m in mods:
            sys.modules.pop(m, None)


def nontrivial(full):
    return len(full["b"]["traj"]) > 0


def kinds_count(full, j):
    st = full["b"]
    xk, yk, cls = kinds(j, st)
    shape = ("plain" if st["pop"] == 0 else "pop%d" % st["pop"]) + ("" if st["all"] else ":best%d" % st["best"])
    return ("x:" + xk, "y:" + yk, cls, "rec:" + shape, "interval:%s" % st["ival"])
