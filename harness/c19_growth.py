"""C19 growth -- bounds objects, the remaining statistics, reweighting, and object identity.

spec -> code, bound to three TLA+ modules that EXTEND specs/math/Measures.tla:

  math/MeasureBounds.tla  (MC_MeasureBounds_{quick,thorough}.cfg, partitioned over the 39 shapes like MC_Measures)
      GLoad -> GBound | GSetValues | GSetMean.  TLC checks the layout invariants (a MeasureBounds built with n = pts
      addresses the parameter vector of Measures.tla slot by slot: BoundsLayout / BoundsSplit / BoundsAgree), the facts
      about the statistics (EssWithin, ProductSupport, EssProduct, SelectIsPack, DiffersSymmetric, SampledSupported,
      ShortFacts, ValidFacts, NormWtsFacts, NormalizeFacts, FlatNested, SetMeanPost) and the reweighting witnesses
      (ASSUME RWWitnessOK), and emits
        * every bounds state: the constructor call (which arguments are scalars / sequences / left out) and
          lower/upper/xlower/xupper/wlower/wupper/len/b()/b+other/other+b and whether the loaded measure's vector
          lies inside  -> replayed on mystic.bounds.Bounds / MeasureBounds               (violation keys bounds:*)
        * every measure / scenario state: minimum/maximum/ptp/ess_* of each factor and of the product, measure-level
          expect/expect_var/support/support_index, normalize forms, weighted_select / sampled_support / sampled_*
          under a scripted random stream, select / differs_by_one, _flat/_nested/split_param, _list_of_measures,
          bounded_mean, the constraints factories, short_wrt_self / short_wrt_data / valid_wrt_model, set_mean_value;
          sampled_* once more under the seeded numpy generator and set_feasible / set_valid (optimiser runs from a
          feasible guess, bounds built with MeasureBounds) as post-conditions           (violation keys stat:*)
        * the reweighting cases (header): target mean / variance reachable by moving only the weights, with the
          unique solution where there is one -> impose_reweighted_mean/variance/std     (violation keys reweight:*)
  math/MeasureAlias.tla   (MC_MeasureAlias_{quick,thorough}.cfg)
      products whose slots share measure objects.  TLC checks Denotes / UpdateFresh / ObjectEdit / UnsharedIsMeasures
      and emits the constructed states in the format of Measures.tla (obs, succ) plus refs / heap; the replay builds
      the product with ONE measure object per heap object and runs check_C19's own Replay.state / Replay.transition
      on it (same comparisons, same TLC expectations), and checks that update / load leave every object that existed
      before untouched                                                                    (violation keys alias:*)

growth_part(ck, a) runs all of it (called by check_C19.main), selftest_growth(a) the in-memory mutants (called by
check_C19.selftest), replay_growth(a) re-derives and replays the state of a violation artefact (--replay).

Expected values come out of TLC only; Python converts (int -> float, <<n,d>> -> n/d, +-1000000 -> +-inf, catalogue
record -> lambda) and compares: exact (==) for integers / single divisions, 1e-9*max(1,|expected|) where mystic's
arithmetic rounds (variances, shifted values, normalised weights), 1e-6 for the solver-based reweighting.
"""
import sys, os, json, time, math, hashlib
import multiprocessing as mp
from harness.tlc import run_tlc
from harness.core import jsonable

TOL = 1e-9
RWTOL = 1e-6
INF = 1000000
SEEDED_DRAWS = 16


def host():
    """the running check_C19 module (one copy of its state: D, M, C, Replay, build_pm, ...)"""
    m = sys.modules.get("__main__")
    if m is not None and hasattr(m, "Replay") and hasattr(m, "build_pm"):
        if m.D is None:
            m.load_mystic()
        return m
    import harness.check_C19 as m2
    if m2.D is None:
        m2.load_mystic()
    return m2


# ------------------------------------------------------------------------------ conversions
def rat(r):
    return None if r[1] == 0 else r[0] / r[1]


def rats(seq):
    return [rat(r) for r in seq]


def close(got, exp, tol=TOL):
    got = float(got)
    return got == exp or abs(got - exp) <= tol * max(1.0, abs(exp))


def allclose(got, exp, tol=TOL):
    got = list(got)
    return len(got) == len(exp) and all(close(g, e, tol) for g, e in zip(got, exp))


def fl(seq):
    return [float(v) for v in seq]


def fl2(nested):
    return [[float(v) for v in row] for row in nested]


def binf(v):
    return float("inf") if v == INF else float("-inf") if v == -INF else v


def digest(obj):
    return int.from_bytes(hashlib.blake2b(json.dumps(obj, sort_keys=True).encode(), digest_size=8).digest(), "big")


def short(v, n=200):
    s = repr(v)
    return s if len(s) <= n else s[:n] + "..."


def gfunc(g):
    """a 1-coordinate catalogue record (EvalG) as the callable handed to mystic (it receives a 1-tuple)"""
    k, c = g["k"], g["c"]
    if k == "id":
        return lambda x: x[0] - c
    if k == "sq":
        return lambda x: (x[0] - c) * (x[0] - c)
    if k == "neg":
        return lambda x: c - x[0]
    raise ValueError(k)


class Script(object):
    """the scripted random stream USeq of the specification, cycling"""

    def __init__(self, seq):
        self.seq, self.i = [r[0] / r[1] for r in seq], 0

    def random(self, *a, **k):
        v = self.seq[self.i % len(self.seq)]
        self.i += 1
        return v


class scripted(object):
    """with scripted(useq): mystic.tools.random_state() hands out the scripted stream (weighted_select draws from it)"""

    def __init__(self, useq):
        self.script = Script(useq)

    def __enter__(self):
        import mystic.tools as T
        self.T, self.saved = T, T.random_state
        T.random_state = lambda *a, **k: self.script
        return self.script

    def __exit__(self, *exc):
        self.T.random_state = self.saved
        return False


# ------------------------------------------------------------------------------ the replay
class Growth(object):
    def __init__(self, hdr, seed=0, light=False):
        self.H = host()
        self.D, self.M = self.H.D, self.H.M
        self.hdr = hdr
        self.seed = seed
        self.light = light
        self.cases = 0
        self.nontrivial = set()
        self.traces = 0
        self.viol = {}
        self.count = {}
        self.samples = []
        self.solver_runs = 2                 # set_feasible / set_valid runs per partition
        self.nk = float                      # number type the current state is written in (rotated per state: number_kind)
        if hdr is not None:
            self.gf = [gfunc(g) for g in hdr["gfuncs"]]
            self.pf = [self.H.pyfunc(f) for f in hdr["funcs"]]

    def bump(self, k, n=1):
        self.count[k] = self.count.get(k, 0) + n

    def violation(self, key, detail, what):
        v = self.viol.setdefault(key, [0, detail, what])
        v[0] += 1

    def eq(self, key, what, fn, exp, ctx, conv=None, cmp=None):
        try:
            got = fn()
            got = conv(got) if conv else got
        except Exception as ex:
            self.violation("%s:raises-%s" % (key, type(ex).__name__), dict(ctx, what=what, error=repr(ex)),
                           "%s raised %r on %s" % (what, ex, short(ctx, 400)))
            return False
        ok = cmp(got, exp) if cmp else got == exp
        if not ok:
            self.violation(key, dict(ctx, what=what, expected=exp, got=got),
                           "%s: spec %s, mystic %s on %s" % (what, short(exp), short(got), short(ctx, 400)))
        return ok

    # ---------------------------------------------------------------- PART 1: one bounds state
    def make_bounds(self, b, variant=0):
        """the constructor call the record describes; variant alternates positional / keyword, tuple / list"""
        from mystic.bounds import Bounds, MeasureBounds
        cls = MeasureBounds if b["cls"] == "MB" else Bounds
        seqtype = tuple if variant % 2 == 0 else list

        def arg(a):
            v = [binf(x) for x in a["v"]]
            return seqtype(v) if a["s"] else v[0]
        om = set(b["om"])
        kw = {}
        if "n" not in om:
            kw["n"] = arg(b["n"])
        if b["cls"] == "MB":
            if "wlb" not in om:
                kw["wlb"] = arg(b["wlb"])
            if "wub" not in om:
                kw["wub"] = arg(b["wub"])
        pos = []
        if "xlb" not in om and "xub" not in om:
            if variant % 4 < 2:
                pos = [arg(b["xlb"]), arg(b["xub"])]
            else:
                kw["xlb"], kw["xub"] = arg(b["xlb"]), arg(b["xub"])
        elif "xlb" not in om:
            if variant % 4 < 2:
                pos = [arg(b["xlb"])]
            else:
                kw["xlb"] = arg(b["xlb"])
        elif "xub" not in om:
            kw["xub"] = arg(b["xub"])
        return cls(*pos, **kw), "%s(%s)" % (cls.__name__, ", ".join([repr(p) for p in pos] + ["%s=%r" % kv for kv in sorted(kw.items())]))

    def bounds_state(self, o, idx):
        H, M = self.H, self.M
        b = o["b"]
        ctx = {"bounds": b, "shape": o["shape"]}
        self.cases += 1
        if any(b[k]["s"] for k in ("xlb", "xub", "n", "wlb", "wub")):
            self.nontrivial.add(digest(("b", o["shape"], b)))
        self.bump("bounds_states")
        self.bump("bounds_for_shape", bool(o["forshape"]))
        self.bump("bounds_measure_inside", bool(o["inside"]))
        self.bump("bounds_measure_outside", bool(o["forshape"] and not o["inside"]))
        try:
            bo, call = self.make_bounds(b, idx)
        except Exception as ex:
            self.violation("bounds:construct:raises-%s" % type(ex).__name__, dict(ctx, error=repr(ex)),
                           "constructing %s raised %r" % (short(b), ex))
            return
        ctx["call"] = call
        conv = lambda seq: [binf(v) for v in seq]
        pairs = lambda seq: [(binf(l), binf(u)) for l, u in seq]
        mb = b["cls"] == "MB"
        E = self.eq
        E("bounds:lower", call + ".lower", lambda: list(bo.lower), conv(o["lower"]), ctx)
        E("bounds:upper", call + ".upper", lambda: list(bo.upper), conv(o["upper"]), ctx)
        E("bounds:len", "len(%s)" % call, lambda: len(bo), o["len"], ctx)
        E("bounds:call", call + "()", lambda: list(bo()), pairs(o["call"]), ctx)
        E("bounds:xlower", call + ".xlower", lambda: list(bo.xlower), conv(o["xlower"]), ctx)
        E("bounds:xupper", call + ".xupper", lambda: list(bo.xupper), conv(o["xupper"]), ctx)
        E("bounds:wlower", call + ".wlower", lambda: bo.wlower, conv(o["wlower"]) if mb else None, ctx)
        E("bounds:wupper", call + ".wupper", lambda: bo.wupper, conv(o["wupper"]) if mb else None, ctx)
        for i, other in enumerate(self.hdr["addcat"]):
            oo, ocall = self.make_bounds(other, 0)
            E("bounds:add", "%s + %s" % (call, ocall), lambda: list(bo + oo), pairs(o["add"][i]), ctx)
            E("bounds:add", "%s + %s" % (ocall, call), lambda: list(oo + bo), pairs(o["radd"][i]), ctx)
        if o["forshape"]:
            c = H.build_pm(o["ws"], o["xs"])
            if mb:
                vec = lambda: list(c.flatten())
                E("bounds:layout", "len(%s) == len(flatten())" % call, lambda: len(bo) == len(c.flatten()), True, ctx)
                E("bounds:split", "split_param(%s.lower, pts)" % call,
                  lambda: tuple(list(v) for v in M.split_param(list(bo.lower), c.pts)), (conv(o["wlower"]), conv(o["xlower"])), ctx)
                E("bounds:split", "split_param(%s.upper, pts)" % call,
                  lambda: tuple(list(v) for v in M.split_param(list(bo.upper), c.pts)), (conv(o["wupper"]), conv(o["xupper"])), ctx)
            else:
                vec = lambda: list(M._flat(c.pos))
            E("bounds:inside", "the measure's vector lies within %s" % call,
              lambda: all(l <= v <= u for v, l, u in zip(vec(), bo.lower, bo.upper)) and len(vec()) == len(bo.lower),
              bool(o["inside"]), dict(ctx, ws=o["ws"], xs=o["xs"]))
        if len(self.samples) < 1 and mb and o["forshape"] and len(o["shape"]) == 2 and o["shape"][0] != o["shape"][1] and not b["om"]:
            self.samples.append({"bounds call": call, "lower": o["lower"], "upper": o["upper"], "pts": o["shape"],
                                 "measure inside": o["inside"]})

    # ---------------------------------------------------------------- number spelling of a measure / scenario state
    NUMBER_KINDS = ("float", "int", "numpy.float64", "numpy.int64")

    def number_kind(self, o):
        """the model's integers written as python floats | python ints | numpy.float64 | numpy.int64, by a deterministic
        rotation over the states; what mystic returns is compared after float()"""
        import numpy
        k = digest(("num", o["shape"], o["flat"], o["vals"])) % 4
        self.nk = (float, int, numpy.float64, numpy.int64)[k]
        self.bump("states_written_as_" + self.NUMBER_KINDS[k])

    def N(self, seq):
        return [self.nk(v) for v in seq]

    def N2(self, rows):
        return [[self.nk(v) for v in row] for row in rows]

    def build_pm(self, ws, xs):
        D, nk = self.D, self.nk
        return D.product_measure([D.measure([D.point_mass(nk(x), nk(w)) for x, w in zip(xr, wr)]) for xr, wr in zip(xs, ws)])

    def build_scen(self, ws, xs, vals):
        s = self.D.scenario()
        s[:] = list(self.build_pm(ws, xs))
        s.values = self.N(vals)
        return s

    # ---------------------------------------------------------------- PART 2/3: one measure / scenario state
    def stat_state(self, o):
        H, D, M = self.H, self.D, self.M
        ws, xs, shape, vals = o["ws"], o["xs"], o["shape"], o["vals"]
        self.number_kind(o)
        ctx = {"state": {"shape": shape, "ws": ws, "xs": xs, "vals": vals}}
        self.cases += 1
        if len(shape) > 1 or any(w == 0 for row in ws for w in row):
            self.nontrivial.add(digest(("s", shape, o["flat"], vals)))
        self.bump("stat_states")
        if o["meas"]:
            self.measure_part(o, o["meas"][0], ctx)
        if o["hasvals"]:
            self.values_part(o, ctx)
            # the optimiser-based setters, on a few small scenarios whose constrained (normalised) weights lie within the
            # weight bounds handed over -- the solver's premise: a feasible initial guess
            nw = o["normwts"]
            feasible = all(0 <= nw[i] <= 2 for m in range(len(o["shape"])) for i in range(2 * sum(o["shape"][:m]), 2 * sum(o["shape"][:m]) + o["shape"][m]))
            if o["meas"] and not self.light and feasible and len(o["pos"]) <= 4 and self.count.get("set_feasible_runs", 0) < self.solver_runs:
                self.solver_setters(o, ctx)

    def measure_part(self, o, me, ctx):
        H, D, M = self.H, self.D, self.M
        ws, xs, shape = o["ws"], o["xs"], o["shape"]
        fws, fxs = fl2(ws), fl2(xs)
        c = self.build_pm(ws, xs)
        E = self.eq
        tols = self.hdr["tols"]
        self.bump("measure_states")
        # nested <-> flat helpers
        E("stat:flat", "_flat(c.wts)", lambda: fl(M._flat(c.wts)), fl(me["flatw"]), ctx)
        E("stat:flat", "_flat(c.pos)", lambda: fl(M._flat(c.pos)), fl(me["flatx"]), ctx)
        E("stat:nested", "_nested(_flat(c.wts), pts)", lambda: fl2(M._nested(self.N(me["flatw"]), shape)), fws, ctx)
        E("stat:split_param", "split_param(flatten(), pts)",
          lambda: tuple(fl(v) for v in M.split_param(c.flatten(), c.pts)), (fl(me["flatw"]), fl(me["flatx"])), ctx)
        E("stat:split_param", "split_param(flatten(), tuple(pts))",
          lambda: tuple(fl(v) for v in M.split_param(c.flatten(), tuple(c.pts))), (fl(me["flatw"]), fl(me["flatx"])), ctx)
        # _list_of_measures
        def lom(weights):
            ms = D._list_of_measures(self.N2(xs), weights) if weights is not None else D._list_of_measures(self.N2(xs))
            return [type(m).__name__ for m in ms], [fl(m.weights) for m in ms], [fl(m.positions) for m in ms]
        E("stat:_list_of_measures", "_list_of_measures(x, w)", lambda: lom(self.N2(ws)), (["measure"] * len(shape), fws, fxs), ctx)
        E("stat:_list_of_measures", "_list_of_measures(x) (uniform weights)", lambda: lom(None),
          (["measure"] * len(shape), [rats(f["uni"]) for f in me["fac"]], fxs), ctx,
          cmp=lambda g, e: g[0] == e[0] and g[2] == e[2] and len(g[1]) == len(e[1]) and all(allclose(a, b) for a, b in zip(g[1], e[1])))
        # the factor measures
        for m, fac in enumerate(me["fac"]):
            mctx = dict(ctx, factor=m)
            mo = c[m]
            for g, pg, r in zip(self.hdr["gfuncs"], self.gf, fac["g"]):
                gctx = dict(mctx, function=g)
                E("stat:minimum", "measure.minimum", lambda: float(mo.minimum(pg)), float(r["min"]), gctx)
                E("stat:maximum", "measure.maximum", lambda: float(mo.maximum(pg)), float(r["max"]), gctx)
                E("stat:ptp", "measure.ptp", lambda: float(mo.ptp(pg)), float(r["ptp"]), gctx)
                for tol, er in zip(tols, r["ess"]):
                    tctx = dict(gctx, tol=tol)
                    if not er["def"]:
                        self.bump("undefined_empty_support")
                        continue
                    call = (lambda f, *a: f(*a)) if tol else (lambda f, *a: f(a[0]))     # tol=0 through the default
                    E("stat:ess_minimum", "measure.ess_minimum(tol=%s)" % tol, lambda: float(call(mo.ess_minimum, pg, tol)), float(er["min"]), tctx)
                    E("stat:ess_maximum", "measure.ess_maximum(tol=%s)" % tol, lambda: float(call(mo.ess_maximum, pg, tol)), float(er["max"]), tctx)
                    E("stat:ess_ptp", "measure.ess_ptp(tol=%s)" % tol, lambda: float(call(mo.ess_ptp, pg, tol)), float(er["ptp"]), tctx)
                e, v = rat(r["e"]), rat(r["v"])
                if e is None:
                    self.bump("undefined_zero_mass")
                else:
                    E("stat:measure-expect", "measure.expect", lambda: float(mo.expect(pg)), e, gctx, cmp=close)
                    E("stat:measure-expect_var", "measure.expect_var", lambda: float(mo.expect_var(pg)), v, gctx, cmp=close)
            for tol, mask in zip(tols, fac["supp"]):
                tctx = dict(mctx, tol=tol)
                E("stat:measure-support_index", "measure.support_index(%s)" % tol, lambda: [int(i) for i in mo.support_index(tol)],
                  [i for i, bit in enumerate(mask) if bit], tctx)
                E("stat:measure-support", "measure.support(%s)" % tol, lambda: fl(mo.support(tol)),
                  [float(x) for x, bit in zip(xs[m], mask) if bit], tctx)
            # normalize
            w = self.N(ws[m])                 # the arguments as this state is written; fws / fxs are the expected floats
            xm = self.N(xs[m])
            total = sum(ws[m])
            E("stat:normalize", "normalize(w, 1.0)", lambda: fl(M.normalize(list(w), 1.0)), rats(fac["norm1"]), mctx, cmp=allclose)
            E("stat:normalize", "normalize(w, mass=2.0)", lambda: fl(M.normalize(list(w), mass=2.0)), rats(fac["norm2"]), mctx, cmp=allclose)
            E("stat:normalize", "normalize(w, 0.0)", lambda: fl(M.normalize(list(w), 0.0)), rats(fac["norm0"]), mctx, cmp=allclose)
            if total:
                E("stat:normalize", "normalize(w, 'l1')", lambda: fl(M.normalize(list(w), "l1")), rats(fac["norm1"]), mctx, cmp=allclose)
                E("stat:normalize-zsum", "normalize(w, 0.0, zsum=True)", lambda: fl(M.normalize(list(w), 0.0, zsum=True)),
                  rats(fac["zsum1"]), mctx, cmp=allclose)
                E("stat:normalize-zsum", "normalize(w, 0.0, zsum=True, zmass=2.0)",
                  lambda: fl(M.normalize(list(w), 0.0, zsum=True, zmass=2.0)), rats(fac["zsum2"]), mctx, cmp=allclose)
                # measure.normalize(): weights to mass 1, the mean (and here the positions) preserved
                def norm_method():
                    mm = D.measure([D.point_mass(self.nk(x), self.nk(wt)) for x, wt in zip(xs[m], ws[m])])
                    mm.normalize()
                    return fl(mm.weights), fl(mm.positions)
                E("stat:measure-normalize", "measure.normalize()", norm_method, (rats(fac["norm1"]), fxs[m]), mctx,
                  cmp=lambda g, e: allclose(g[0], e[0]) and allclose(g[1], e[1]))
                # weighted_select under the scripted stream
                def selects():
                    out = []
                    for u in self.hdr["useq"]:
                        with scripted([u]):
                            out.append(float(M.weighted_select(list(xm), list(w))))
                    return out
                E("stat:weighted_select", "weighted_select(x, w) for each scripted u", selects,
                  [fxs[m][j] for j in fac["sel"]], dict(mctx, useq=self.hdr["useq"]))
                # bounded_mean: the mean is reached; a translation that stays inside the bounds is the result
                for bm in fac["bmean"]:
                    target, lo, hi = rat(bm["target"]), float(bm["lo"]), float(bm["hi"])
                    bctx = dict(mctx, bounded_mean=bm)
                    if not bm["feasible"]:
                        self.bump("bounded_mean_infeasible_skipped")
                        continue
                    self.bump("bounded_mean_translation" if bm["inside"] else "bounded_mean_squeezed")
                    try:
                        got = fl(D.bounded_mean(target, list(xm), lo, hi, list(w)))
                    except Exception as ex:
                        self.violation("stat:bounded_mean:raises-%s" % type(ex).__name__, dict(bctx, error=repr(ex)),
                                       "bounded_mean(%r, %s, %s, %s, %s) raised %r" % (target, fxs[m], lo, hi, w, ex))
                        continue
                    if not close(M.mean(got, w), target):
                        self.violation("stat:bounded_mean:mean", dict(bctx, got=got),
                                       "bounded_mean(%r, %s, %s, %s, %s) = %s has mean %r" % (target, fxs[m], lo, hi, w, got, M.mean(got, w)))
                    if bm["inside"] and not allclose(got, fl(bm["moved"])):
                        self.violation("stat:bounded_mean:translation", dict(bctx, got=got),
                                       "bounded_mean(%r, %s, %s, %s, %s) = %s, the translation %s stays inside the bounds"
                                       % (target, fxs[m], lo, hi, w, got, bm["moved"]))
                    if not bm["inside"]:
                        self.bump("bounded_mean_squeezed_within_bounds" if all(lo - TOL <= v <= hi + TOL for v in got) else "bounded_mean_squeezed_outside_bounds")
            else:
                self.bump("undefined_zero_mass")
        # the product's extremes: the extreme over the factor measures
        for g, pg, r in zip(self.hdr["gfuncs"], self.gf, me["pg"]):
            gctx = dict(ctx, function=g)
            E("stat:product-minimum", "product_measure.minimum", lambda: float(c.minimum(pg)), float(r["min"]), gctx)
            E("stat:product-maximum", "product_measure.maximum", lambda: float(c.maximum(pg)), float(r["max"]), gctx)
            E("stat:product-ptp", "product_measure.ptp", lambda: float(c.ptp(pg)), float(r["ptp"]), gctx)
            for tol, er in zip(tols, r["ess"]):
                if not er["def"]:
                    self.bump("undefined_empty_support")
                    continue
                tctx = dict(gctx, tol=tol)
                E("stat:product-ess_minimum", "product_measure.ess_minimum(tol=%s)" % tol, lambda: float(c.ess_minimum(pg, tol)), float(er["min"]), tctx)
                E("stat:product-ess_maximum", "product_measure.ess_maximum(tol=%s)" % tol, lambda: float(c.ess_maximum(pg, tol)), float(er["max"]), tctx)
                E("stat:product-ess_ptp", "product_measure.ess_ptp(tol=%s)" % tol, lambda: float(c.ess_ptp(pg, tol)), float(er["ptp"]), tctx)
        # select / differs_by_one
        N = len(o["pos"])
        if me["alltwo"]:
            self.bump("select_states")
            want = [tuple(float(v) for v in p) for p in me["select"]]
            E("stat:select", "select(*range(npts))", lambda: [tuple(float(v) for v in p) for p in c.select(*range(N))], want, ctx)
            E("stat:select", "select(k) for every k", lambda: [tuple(float(v) for v in c.select(k)) for k in range(N)], want, ctx)
        ks = range(N) if N <= 9 else sorted(set([0, 1, N // 3, N // 2, N - 2, N - 1]))
        for k in ks:
            kctx = dict(ctx, ith=k)
            E("stat:differs_by_one", "differs_by_one(%d)" % k, lambda: sorted(int(i) for i in c.differs_by_one(k)), me["differs"][k]["all"], kctx)
            E("stat:differs_by_one", "differs_by_one(%d, all=False)" % k, lambda: sorted(int(i) for i in c.differs_by_one(k, all=False)),
              me["differs"][k]["lower"], kctx)
        # sampling
        if me["samplable"]:
            self.sampling(o, me, c, ctx)
        else:
            self.bump("undefined_zero_mass")

    def sampling(self, o, me, c, ctx):
        H = self.H
        nd, useq = self.hdr["ndraw"], self.hdr["useq"]
        sctx = dict(ctx, useq=useq, npts=nd)
        E = self.eq
        self.bump("sampled_states")

        def support():
            with scripted(useq):
                return fl2(c.sampled_support(nd))
        E("stat:sampled_support", "sampled_support(%d) under the scripted stream" % nd, support, fl2(me["draws"]), sctx)
        nf = len(self.pf) if not self.light else 2
        for f, pf, r in list(zip(self.hdr["funcs"], self.pf, me["sampled"]))[:nf]:
            fctx = dict(sctx, function=f)

            def run(meth, fn=pf):
                with scripted(useq):
                    return float(getattr(c, meth)(fn, nd))
            E("stat:sampled_minimum", "sampled_minimum", lambda: run("sampled_minimum"), float(r["min"]), fctx)
            E("stat:sampled_maximum", "sampled_maximum", lambda: run("sampled_maximum"), float(r["max"]), fctx)
            E("stat:sampled_ptp", "sampled_ptp", lambda: run("sampled_ptp"), float(r["ptp"]), fctx)
            E("stat:sampled_expect", "sampled_expect", lambda: run("sampled_expect"), rat(r["e"]), fctx, cmp=close)
            E("stat:sampled_variance", "sampled_variance", lambda: run("sampled_variance"), rat(r["v"]), fctx, cmp=close)
            E("stat:sampled_pof", "sampled_pof(f(x) > 0)", lambda: run("sampled_pof", lambda x: bool(pf(x) > 0)), rat(r["pof"]), fctx, cmp=close)
        # post-conditions under the real, seeded generator: only supported points, extremes within the essential ones
        from mystic.tools import random_seed
        random_seed(self.seed + 19)
        f, pf, e = self.hdr["funcs"][2], self.pf[2], me["essp"][2]
        pctx = dict(ctx, function=f, seed=self.seed + 19, npts=SEEDED_DRAWS)
        try:
            pts = c.sampled_support(SEEDED_DRAWS)
            lo, hi = c.sampled_minimum(pf, SEEDED_DRAWS), c.sampled_maximum(pf, SEEDED_DRAWS)
            ptp = c.sampled_ptp(pf, SEEDED_DRAWS)
            pof = c.sampled_pof(lambda x: bool(pf(x) > 0), SEEDED_DRAWS)
            ex = c.sampled_expect(pf, SEEDED_DRAWS)
        except Exception as err:
            self.violation("stat:sampled-post:raises-%s" % type(err).__name__, dict(pctx, error=repr(err)),
                           "sampled_* raised %r on %s" % (err, short(ctx, 300)))
            return
        shape_ok = len(pts) == len(o["shape"]) and all(len(row) == SEEDED_DRAWS for row in pts)
        if not shape_ok:
            self.violation("stat:sampled-post:shape", dict(pctx, got=jsonable(pts)), "sampled_support(%d) is not %d rows of %d" % (SEEDED_DRAWS, len(o["shape"]), SEEDED_DRAWS))
            return
        for m, row in enumerate(pts):
            supp = set(float(x) for x, w in zip(o["xs"][m], o["ws"][m]) if w > 0)
            if not all(float(x) in supp for x in row):
                self.violation("stat:sampled-post:unsupported-point", dict(pctx, factor=m, got=fl(row)),
                               "sampled_support returned a point of factor %d without weight: %s on %s" % (m, fl(row), short(ctx, 300)))
        if not (e["lo"] <= lo <= hi <= e["hi"] and ptp <= e["hi"] - e["lo"] and lo <= ex <= hi and 0.0 <= pof <= 1.0
                and (pof == 0.0 or e["lo"] <= 0) and (pof == 1.0 or e["hi"] > 0)):
            self.violation("stat:sampled-post:range", dict(pctx, got=[lo, hi, ptp, ex, pof], essential=e),
                           "sampled min/max/ptp/expect/pof %s outside the essential range %s on %s" % ([lo, hi, ptp, ex, pof], e, short(ctx, 300)))

    def values_part(self, o, ctx):
        H, D, M = self.H, self.D, self.M
        ws, xs, shape, vals = o["ws"], o["xs"], o["shape"], o["vals"]
        fvals = fl(vals)
        flat = fl(o["flat"])
        E = self.eq
        self.bump("value_states")
        # the constraints factories
        E("stat:norm_wts", "norm_wts_constraintsFactory(pts)(w,x,y)",
          lambda: fl(D.norm_wts_constraintsFactory(tuple(shape))(self.N(o["flat"] + vals))), fl(o["normwts"]), ctx)
        tgt = self.hdr["ytarget"]
        E("stat:mean_y_norm_wts", "mean_y_norm_wts_constraintsFactory(%s, pts)(w,x,y)" % (tgt,),
          lambda: fl(D.mean_y_norm_wts_constraintsFactory((float(tgt[0]), float(tgt[1])), tuple(shape))(self.N(o["flat"] + vals))),
          fl(o["normwts"][:len(flat)]) + rats(o["meany"]), ctx, cmp=allclose)
        self.bump("mean_y_moved" if any(r[1] != 1 or r[0] != v for r, v in zip(o["meany"], vals)) else "mean_y_kept")
        # shortness
        from mystic.math.legacydata import dataset
        s = self.build_scen(ws, xs, vals)
        for r in o["short"]:
            L, tol = fl(r["L"]), r["tol"]
            kw = {"tol": float(tol)} if tol else {}
            rctx = dict(ctx, L=r["L"], tol=tol)
            raw = fl2(r["raw"])
            self.bump("short_true" if r["ok"] else "short_false")
            E("stat:short_wrt_self", "short_wrt_self(L)", lambda: bool(s.short_wrt_self(list(L), **kw)), bool(r["ok"]), rctx)
            E("stat:short_wrt_self", "short_wrt_self(L, all=True, raw=True)",
              lambda: fl2(s.short_wrt_self(list(L), all=True, raw=True, **kw)), raw, rctx)
            E("stat:short_wrt_self", "short_wrt_self(L, all=True)",
              lambda: [[bool(v) for v in row] for row in s.short_wrt_self(list(L), all=True, **kw)], [[v == 0 for v in row] for row in raw], rctx)
            E("stat:short_wrt_self", "short_wrt_self(L, blamelist=True)",
              lambda: sorted([int(a), int(b)] for a, b in s.short_wrt_self(list(L), blamelist=True, **kw)), sorted(r["pairs"]), rctx)
            data = dataset()
            data.load([tuple(float(v) for v in p) for p in o["datax"]], fl(o["datay"]))
            data.lipschitz = list(L)
            self.bump("short_data_true" if r["dok"] else "short_data_false")
            E("stat:short_wrt_data", "short_wrt_data(data)", lambda: bool(s.short_wrt_data(data, **kw)), bool(r["dok"]), dict(rctx, datax=o["datax"], datay=o["datay"]))
            E("stat:short_wrt_data", "short_wrt_data(data, all=True, raw=True)",
              lambda: fl2(s.short_wrt_data(data, all=True, raw=True, **kw)), fl2(r["draw"]), dict(rctx, datax=o["datax"], datay=o["datay"]))
        # model validity
        for f, pf, per in zip(self.hdr["funcs"], self.pf, o["valid"]):
            for r in per:
                kw = {"ytol": float(r["ytol"])} if r["ytol"] else {}
                vctx = dict(ctx, model=f, ytol=r["ytol"])
                self.bump("valid_true" if r["ok"] else "valid_false")
                E("stat:valid_wrt_model", "valid_wrt_model(model)", lambda: bool(s.valid_wrt_model(pf, **kw)), bool(r["ok"]), vctx)
                E("stat:valid_wrt_model", "valid_wrt_model(model, all=True, raw=True)",
                  lambda: fl(s.valid_wrt_model(pf, all=True, raw=True, **kw)), fl(r["raw"]), vctx)
        # set_mean_value
        for t in o["succ"]:
            a = t["act"]
            target = rat(a["vec"])
            tctx = dict(ctx, action=a, expected_values=t["vals"])
            self.traces += 1
            self.cases += 1
            self.nontrivial.add(digest(("t", shape, o["flat"], vals, a["a"])))
            self.bump("set_mean_value")
            s2 = self.build_scen(ws, xs, vals)
            try:
                s2.set_mean_value(target)
                got = (float(s2.mean_value()), fl(s2.values), fl(s2.flatten(all=False)))
            except Exception as ex:
                self.violation("stat:set_mean_value:raises-%s" % type(ex).__name__, dict(tctx, error=repr(ex)),
                               "set_mean_value(%r) raised %r on %s" % (target, ex, short(ctx, 300)))
                continue
            if not close(got[0], target):
                self.violation("stat:set_mean_value", dict(tctx, got=got[0]), "set_mean_value(%r) achieved %r on %s" % (target, got[0], short(ctx, 300)))
            if not allclose(got[1], fl(t["vals"])) or got[2] != flat:
                self.violation("stat:set_mean_value:footprint", dict(tctx, got=got[1:]),
                               "set_mean_value(%r): values %s (spec %s), measure %s on %s" % (target, got[1], t["vals"], got[2], short(ctx, 300)))

    def solver_setters(self, o, ctx):
        """set_feasible / set_valid are optimiser runs: post-conditions only (dimensions kept, the constraint function's
        claim -- every measure's weights sum to 1 -- holds, positions and values stay within the bounds handed over,
        which are built with MeasureBounds), small problems, tight limits"""
        H, D = self.H, self.D
        from mystic.bounds import MeasureBounds
        from mystic.math.legacydata import dataset
        from mystic.tools import random_seed
        shape, N = o["shape"], len(o["pos"])
        b = MeasureBounds(-2, 12, n=tuple(shape), wlb=0, wub=2)
        lb, ub = list(b.lower) + [-10.0] * N, list(b.upper) + [10.0] * N
        cons = D.norm_wts_constraintsFactory(tuple(shape))
        data = dataset()
        data.load([tuple(float(v) for v in p) for p in o["datax"]], fl(o["datay"]))
        data.lipschitz = [1.0] * len(shape)
        model = self.pf[1]
        runs = [("set_feasible", lambda s: s.set_feasible(data, bounds=(lb, ub), constraints=cons, maxiter=12, npop=8)),
                ("set_valid", lambda s: s.set_valid(model, cutoff=1.0, bounds=(lb, ub), constraints=cons, maxiter=8, npop=6))]
        for name, run in runs:
            s = H.build_scen(o["ws"], o["xs"], fl(o["vals"]))
            sctx = dict(ctx, call=name, bounds=[lb, ub], seed=self.seed + 7)
            self.cases += 1
            self.traces += 1
            self.bump(name + "_runs")
            random_seed(self.seed + 7)
            try:
                run(s)
                got = {"pts": list(s.pts), "wts": fl2(s.wts), "pos": fl2(s.pos), "values": fl(s.values)}
            except Exception as ex:
                self.violation("stat:%s:raises-%s" % (name, type(ex).__name__), dict(sctx, error=repr(ex)), "%s raised %r on %s" % (name, ex, short(ctx, 300)))
                continue
            sctx["got"] = got
            if got["pts"] != shape or len(got["values"]) != N:
                self.violation("stat:%s:dimensions" % name, sctx, "%s changed the dimensions: pts %s, %d values on %s" % (name, got["pts"], len(got["values"]), short(ctx, 300)))
                continue
            if not all(close(sum(w), 1.0) for w in got["wts"]):
                self.violation("stat:%s:constraint" % name, sctx, "%s(constraints=normalised weights): weights %s on %s" % (name, got["wts"], short(ctx, 300)))
            flat = fl(s.flatten(all=True))
            slots = [i for m in range(len(shape)) for i in range(2 * sum(shape[:m]) + shape[m], 2 * sum(shape[:m + 1]))] + list(range(2 * sum(shape), len(flat)))
            if not all(lb[i] <= flat[i] <= ub[i] for i in slots):
                self.violation("stat:%s:bounds" % name, sctx, "%s left positions / values outside the bounds: %s on %s" % (name, flat, short(ctx, 300)))

    # ---------------------------------------------------------------- PART 3: reweighting cases of the header
    def reweight(self, case):
        M = self.M
        x = [float(p[1]) for p in case["f"]]
        w = [float(p[0]) for p in case["f"]]
        total = sum(w)
        target = rat(case["target"])
        kind = case["kind"]
        ctx = {"case": case}
        self.cases += 1
        self.traces += 1
        self.nontrivial.add(digest(("rw", case["f"], kind, case["target"])))
        self.bump("reweight_" + kind + ("_unique" if case["unique"] else ""))
        calls = [("impose_reweighted_mean", lambda: M.impose_reweighted_mean(target, list(x), list(w)))] if kind == "mean" else \
                [("impose_reweighted_variance", lambda: M.impose_reweighted_variance(target, list(x), list(w))),
                 ("impose_reweighted_std", lambda: M.impose_reweighted_std(math.sqrt(target), list(x), list(w)))]
        m0 = M.mean(x, w)
        for name, fn in calls:
            key = "reweight:" + name
            try:
                saved = sys.stdout
                sys.stdout = open(os.devnull, "w")
                try:
                    got = fn()
                finally:
                    sys.stdout.close()
                    sys.stdout = saved
            except Exception as ex:
                self.violation("%s:raises-%s" % (key, type(ex).__name__), dict(ctx, error=repr(ex)), "%s raised %r on %s" % (name, ex, short(case)))
                continue
            if got is None:
                self.violation(key + ":gives-up", ctx, "%s(%r, %s, %s) returned None although the target is reachable (witness %s)"
                               % (name, target, x, w, case["sol"]))
                continue
            got = fl(got)
            rctx = dict(ctx, got=got)
            if len(got) != len(w) or not close(sum(got), total, RWTOL):
                self.violation(key + ":total", rctx, "%s(%r, %s, %s): weights %s do not keep the total %s" % (name, target, x, w, got, total))
                continue
            if min(got) < -RWTOL:
                self.violation(key + ":negative", rctx, "%s(%r, %s, %s): negative weight in %s" % (name, target, x, w, got))
            if kind == "mean":
                if not close(M.mean(x, got), target, RWTOL):
                    self.violation(key + ":target", rctx, "%s(%r, %s, %s): mean %r with weights %s" % (name, target, x, w, M.mean(x, got), got))
            else:
                if not close(M.variance(x, got), target, RWTOL) or not close(M.mean(x, got), m0, RWTOL):
                    self.violation(key + ":target", rctx, "%s(%r, %s, %s): variance %r mean %r (kept mean %r) with weights %s"
                                   % (name, target, x, w, M.variance(x, got), M.mean(x, got), m0, got))
            if case["unique"] and not allclose(got, rats(case["sol"]), RWTOL):
                self.violation(key + ":solution", rctx, "%s(%r, %s, %s): weights %s, the only solution is %s" % (name, target, x, w, got, rats(case["sol"])))

    # ---------------------------------------------------------------- object identity
    def alias_state(self, st):
        """check_C19's own replay of a state and its transitions, on a product built with one measure object per heap
        object (shared slots share the object), then the heap post-condition of every transition"""
        H, D = self.H, self.D
        o, refs = st["obs"], st["refs"]
        ws, xs, vals = o["ws"], o["xs"], o["vals"]
        shared = bool(st["shared"])
        self.bump("alias_states_shared" if shared else "alias_states_distinct_objects")

        def objects():
            objs = {}
            for m, r in enumerate(refs):
                if r not in objs:
                    objs[r] = D.measure([D.point_mass(float(x), float(w)) for x, w in zip(xs[m], ws[m])])
            return objs

        def aliased_pm(ws_, xs_):
            if ws_ != ws or xs_ != xs:              # a different measure (never for the states / transitions replayed here)
                return saved_pm(ws_, xs_)
            objs = objects()
            return D.product_measure([objs[r] for r in refs])
        saved_pm = H.build_pm
        rp = H.Replay()
        H.build_pm = aliased_pm
        try:
            rp.state(o)
            for i, t in enumerate(st["succ"]):
                rp.transition(o, t, i)
        finally:
            H.build_pm = saved_pm
        self.cases += rp.cases
        self.traces += rp.traces
        if shared:
            self.nontrivial |= rp.nontrivial
            self.nontrivial.add(digest(("a", refs, o["flat"])))
        for k, (n, detail, what) in rp.viol.items():
            v = self.viol.setdefault("alias:" + k, [0, dict(detail, refs=refs), "[slots -> objects %s] %s" % (refs, what)])
            v[0] += n
        # the heap: what the objects that existed before hold after the action (update / load must not touch them)
        for t in st["succ"]:
            a = t["act"]
            op = a["op"]
            for label in ("product_measure", "scenario"):
                objs = objects()
                if label == "product_measure":
                    c = D.product_measure([objs[r] for r in refs])
                else:
                    c = D.scenario()
                    c[:] = [objs[r] for r in refs]
                    c.values = fl(vals)
                tctx = {"state": {"shape": o["shape"], "ws": ws, "xs": xs, "vals": vals}, "refs": refs, "action": a, "on": label,
                        "expected_objects": t["old"]}
                try:
                    if op == "upd":
                        c.update(fl(a["vec"]))
                    elif op == "append":
                        c.load(fl(a["vec"]), list(a["sh"]))
                    elif op == "setw":
                        c[a["a"] - 1][a["b"] - 1].weight = float(a["c"])
                    elif op == "setx":
                        new = fl(xs[a["a"] - 1]); new[a["b"] - 1] = float(a["c"])
                        c[a["a"] - 1].positions = new
                    else:
                        continue
                    got = [{"w": fl(objs[r].weights), "x": fl(objs[r].positions)} for r in sorted(objs)]
                    after = fl(c.flatten(all=False)) if label == "scenario" else fl(c.flatten())
                except Exception as ex:
                    self.violation("alias:heap:raises-%s" % type(ex).__name__, dict(tctx, error=repr(ex)), "%s on %s raised %r" % (op, refs, ex))
                    continue
                self.bump("alias_heap_checks")
                exp = [{"w": fl(h["w"]), "x": fl(h["x"])} for h in t["old"]]
                if got != exp:
                    key = {"upd": "alias:update-modifies-held-measure", "append": "alias:load-modifies-held-measure"}.get(op, "alias:object-edit")
                    self.violation(key, dict(tctx, got=got),
                                   "%s on a %s whose slots hold the objects %s: the measures that existed before now hold %s, spec %s"
                                   % (op, label, refs, short(got), short(exp)))
                if after != fl(t["flat"]):
                    self.violation("alias:denotation:" + op, dict(tctx, got=after),
                                   "%s on a %s whose slots hold the objects %s: flatten() %s, spec %s" % (op, label, refs, short(after), short(t["flat"])))

    def summary(self):
        return {"cases": self.cases, "nontrivial": self.nontrivial, "traces": self.traces, "count": self.count,
                "viol": {k: [v[0], jsonable(v[1]), v[2]] for k, v in self.viol.items()}, "samples": self.samples}


# ------------------------------------------------------------------------------ jobs
GCFG = {"quick": "MC_MeasureBounds_quick.cfg", "thorough": "MC_MeasureBounds_thorough.cfg"}
ACFG = {"quick": "MC_MeasureAlias_quick.cfg", "thorough": "MC_MeasureAlias_thorough.cfg"}
SECTIONS = ("bounds", "stat", "rw", "alias")


def jobs_for(a, light=False):
    tier = "quick" if light else a.tier
    # one JVM costs ~10 s of CPU before it does anything: 8 partitions for the quick model, 15 for the thorough one
    npart = max(1, min(a.jobs - 1, 8 if tier == "quick" else 15))
    return [("alias", ACFG[tier], 0, 1)] + [("growth", GCFG[tier], p, npart) for p in range(npart)]


def run_job(job):
    kind, cfg, part, npart = job
    if kind == "alias":
        r = run_tlc("math/MC_MeasureAlias", cfg=cfg, workers=1, timeout=3000, heap="3g")
    else:
        r = run_tlc("math/MC_MeasureBounds", cfg=cfg, workers=1, timeout=3000, heap="3g",
                    env={"C19_PART": part, "C19_NPART": npart, "C19_MAXF": 3})
    mc = {"distinct": r.distinct, "generated": r.generated, "depth": r.depth, "wall_s": r.wall_s, "violated": r.violated,
          "tail": r.out[-3000:] if r.violated else ""}
    printed = [p for p in r.printed if isinstance(p, dict)]
    r.clear()
    return mc, printed


def corrupt_printed(kind, printed):
    """falsify one expected value per section (self-test)"""
    done = set()
    for p in printed:
        if kind == "alias":
            if "succ" in p and "alias" not in done:
                for t in p["succ"]:
                    if t["act"]["op"] == "upd" and p["shared"]:
                        t["old"][0]["w"][0] += 1
                        done.add("alias")
                        break
            continue
        if "rw" in p and "rw" not in done:
            for c in p["rw"]:
                if c["unique"] and c["kind"] == "mean":
                    c["sol"][0] = [c["sol"][0][0] + c["sol"][0][1], c["sol"][0][1]]
                    done.add("rw")
                    break
        if p.get("kind") == "bounds" and "bounds" not in done and p["forshape"] and p["b"]["cls"] == "MB":
            p["lower"][0], p["lower"][-1] = p["lower"][-1] + 1, p["lower"][0]
            done.add("bounds")
        if p.get("kind") == "stat" and "stat" not in done and p["meas"] and len(p["shape"]) > 1:
            p["meas"][0]["pg"][0]["min"] -= 1
            done.add("stat")
    return done


def replay_job(job, printed, seed=0, light=False, sections=SECTIONS):
    kind, cfg, part, npart = job
    if kind == "alias":
        g = Growth(None, seed, light)
        if "alias" in sections:
            hdr = [p for p in printed if p.get("alias")]
            H = g.H
            H.set_catalogue(hdr[0])
            H._DATA_INDEX = {}
            for st in printed:
                if "obs" in st:
                    g.alias_state(st)
        return g.summary()
    hdr = [p for p in printed if "gfuncs" in p][0]
    g = Growth(hdr, seed, light)
    if part == 0 and "rw" in sections:
        for case in hdr["rw"]:
            g.reweight(case)
        g.samples.append({"reweighting case": hdr["rw"][0]})
    idx = 0
    for p in printed:
        k = p.get("kind")
        if k == "bounds" and "bounds" in sections:
            g.bounds_state(p, idx)
            idx += 1
        elif k == "stat" and "stat" in sections:
            g.stat_state(p)
    return g.summary()


def work(args):
    job, seed, light, corrupt = args
    mc, printed = run_job(job)
    t0 = time.time()
    if corrupt:
        corrupt_printed(job[0], printed)
    res = replay_job(job, printed, seed, light) if not mc["violated"] else None
    mc["replay_s"] = time.time() - t0
    return job, mc, res


def growth_items(a, corrupt=False, light=False):
    """the arguments of work() for every growth job (check_C19 runs them in its own pool, next to the main partitions)"""
    return [(j, a.seed, light, corrupt) for j in jobs_for(a, light)]


def growth_part(ck, a, corrupt=False, light=False):
    """run the growth models and their replay; fold cases / violations / TLC runs into the Check `ck`"""
    t0 = time.time()
    items = growth_items(a, corrupt, light)
    ctx = mp.get_context("fork")
    with ctx.Pool(min(len(items), max(1, a.jobs))) as pool:
        results = pool.map(work, items, chunksize=1)
    growth_fold(ck, a, results, time.time() - t0)


def growth_fold(ck, a, results, wall_s):
    """fold the results of the growth jobs (cases / violations / TLC runs) into the Check `ck`"""
    count = {}
    folded = {}
    for job, mc, res in results:
        name = "MeasureAlias[%s]" % a.tier if job[0] == "alias" else "MeasureBounds[%s, part %d/%d]" % (a.tier, job[2], job[3])
        if mc["violated"]:
            ck.violation("spec:" + mc["violated"], {"tlc": mc["tail"], "model": name}, "TLC: design property %s violated in %s" % (mc["violated"], name))
        k = name.split(", part")[0] + ("]" if ", part" in name else "")
        f = folded.setdefault(k, {"model": k, "distinct_states": 0, "states_generated": 0, "depth": 0, "wall_s": 0.0, "partitions": 0})
        f["distinct_states"] += mc["distinct"] or 0
        f["states_generated"] += mc["generated"] or 0
        f["depth"] = max(f["depth"], mc["depth"] or 0)
        f["wall_s"] = round(f["wall_s"] + (mc["wall_s"] or 0), 2)
        f["partitions"] += 1
        ck.states += int(mc["distinct"] or 0)
        ck.transitions += int(mc["generated"] or 0)
        if res is None:
            continue
        for key in res["nontrivial"]:
            ck.case(nontrivial=True, key=key)
        ck.case(nontrivial=False, n=max(0, res["cases"] - len(res["nontrivial"])))
        ck.trace(res["traces"])
        for k2, v in res["count"].items():
            count[k2] = count.get(k2, 0) + int(v)
        for smp in res["samples"]:
            ck.sample(smp, limit=6)
        for key, (n, detail, what) in sorted(res["viol"].items()):
            for _ in range(n):
                ck.violation(key, detail, what)
    ck.mc_runs.extend(folded.values())
    ck.extra["growth"] = {"counts": count, "wall_s": round(wall_s, 1),
                          "slowest_job_s": round(max((mc.get("replay_s", 0) + (mc.get("wall_s") or 0)) for _, mc, _ in results), 1)}
    ck.assumptions += [
        "growth (MeasureBounds.tla): bounds are replayed with integer / +-inf arguments, sequences as tuples and lists, x bounds "
        "positional and by keyword; the constructors' premise (all sequence arguments have the same length) is honoured",
        "growth: ess_* of a measure without support at the tolerance, and expect / normalize / weighted_select / sampled_* of a "
        "measure of zero mass are undefined (counted, not compared); select is replayed under its documented premise (2 points "
        "per measure); the sampled_* values are exact under the scripted stream mystic.tools.random_state -> USeq (odd "
        "sixteenths, never at a cumulative-weight tie) and are post-conditions under the seeded numpy generator",
        "growth: impose_reweighted_* are solver runs: only reachable targets (TLC-checked witness), tolerance 1e-6; the weights "
        "are compared with the solution only where it is unique",
        "growth (MeasureAlias.tla): the centre-of-mass / range / variance setters are explored on unshared objects only; an "
        "assignment through a factor edits the object (all slots sharing it); update / load must leave existing objects untouched",
    ]


# ------------------------------------------------------------------------------ --replay of a growth artefact
PREFIXES = ("bounds:", "stat:", "reweight:", "alias:")


def is_growth_artifact(path):
    try:
        return str(json.load(open(path)).get("key", "")).startswith(PREFIXES)
    except Exception:
        return False


def replay_growth(a):
    """--replay PATH for a violation reported by the growth part: TLC re-derives the expected values for the artefact's
    state (bounds object / measure / scenario / reweighting case / shared-object product), which is replayed on the current tree"""
    H = host()
    art = json.load(open(a.replay))
    key, d = art["key"], art["detail"]
    print("replaying %s" % key)
    g, done = None, 0
    for tier in ("quick", "thorough"):
        if key.startswith("alias:"):
            job = ("alias", ACFG[tier], 0, 1)
            mc, printed = run_job(job)
            g = Growth(None, a.seed)
            H.set_catalogue([p for p in printed if p.get("alias")][0])
            H._DATA_INDEX = {}
            st = d.get("state", {})
            for p in printed:
                if "obs" in p and p["refs"] == d.get("refs") and [p["obs"][k] for k in ("ws", "xs", "vals")] == [st.get(k) for k in ("ws", "xs", "vals")]:
                    g.alias_state(p)
                    done += 1
        else:
            shape = d.get("shape") or d.get("state", {}).get("shape")
            part = H.shape_rank(shape) if shape else 0
            job = ("growth", GCFG[tier], part, 39)
            mc, printed = run_job(job)
            hdr = [p for p in printed if "gfuncs" in p][0]
            g = Growth(hdr, a.seed)
            if key.startswith("reweight:"):
                for case in hdr["rw"]:
                    if all(case[k] == d.get("case", {}).get(k) for k in ("f", "kind", "target")):
                        g.reweight(case)
                        done += 1
            for i, p in enumerate(printed):
                if key.startswith("bounds:") and p.get("kind") == "bounds" and p["b"] == d.get("bounds") and p["shape"] == shape \
                        and ("ws" not in d or (p["ws"], p["xs"]) == (d["ws"], d["xs"])):
                    g.bounds_state(p, i)
                    g.bounds_state(p, i + 1)
                    g.bounds_state(p, i + 2)
                    done += 1
                if key.startswith("stat:") and p.get("kind") == "stat" and \
                        {k: p[k] for k in ("shape", "ws", "xs", "vals")} == {k: d.get("state", {}).get(k) for k in ("shape", "ws", "xs", "vals")}:
                    g.stat_state(p)
                    done += 1
        if done:
            break
    if not done:
        print("the artefact's state is not produced by the quick / thorough growth models")
        return 2
    for k, (n, detail, what) in sorted(g.viol.items()):
        print("VIOLATION property=C19 replay=%s" % a.replay)
        print("  %s x%d: %s" % (k, n, what[:600]))
    print("replayed %d state(s) / case(s): %d violations" % (done, sum(v[0] for v in g.viol.values())))
    return 1 if g.viol else 0


# ------------------------------------------------------------------------------ self test
def mutants():
    """in-memory mutations (this process only): (name, sections, apply); restore() undoes all of them"""
    H = host()
    D, M = H.D, H.M
    import mystic.bounds as B
    import mystic.math.compressed as CP
    import numpy
    MB, BD, ME, PM, SC = B.MeasureBounds, B.Bounds, D.measure, D.product_measure, D.scenario
    saved = {"MB.lower": MB.lower, "MB.len": MB.__len__, "BD.add": BD.__add__, "MB.add": MB.__add__, "ME.ess_minimum": ME.ess_minimum,
             "PM.minimum": PM.minimum, "support_index": M.support_index, "index2binary": CP.index2binary,
             "weighted_select": M.weighted_select, "normalize": M.normalize, "lipschitz_metric": None,
             "norm_wts": D.norm_wts_constraintsFactory, "SC.set_mean_value": SC.set_mean_value,
             "rw_mean": M.impose_reweighted_mean, "split_param": M.split_param, "PM.update": PM.update,
             "SC.valid": SC.valid_wrt_model, "PM.sampled_support": PM.sampled_support, "MB.xupper": MB.xupper,
             "bounded_mean": D.bounded_mean, "ME.ess_ptp": ME.ess_ptp, "M.impose_mean": M.impose_mean, "D.impose_mean": D.impose_mean}
    import mystic.math.distance as DS
    saved["lipschitz_metric"] = DS.lipschitz_metric

    def restore():
        MB.lower, MB.__len__, BD.__add__, MB.__add__ = saved["MB.lower"], saved["MB.len"], saved["BD.add"], saved["MB.add"]
        ME.ess_minimum, PM.minimum = saved["ME.ess_minimum"], saved["PM.minimum"]
        M.support_index, CP.index2binary, M.weighted_select, M.normalize = saved["support_index"], saved["index2binary"], saved["weighted_select"], saved["normalize"]
        DS.lipschitz_metric = saved["lipschitz_metric"]
        D.norm_wts_constraintsFactory, SC.set_mean_value = saved["norm_wts"], saved["SC.set_mean_value"]
        M.impose_reweighted_mean, M.split_param, PM.update = saved["rw_mean"], saved["split_param"], saved["PM.update"]
        SC.valid_wrt_model, PM.sampled_support, MB.xupper = saved["SC.valid"], saved["PM.sampled_support"], saved["MB.xupper"]
        D.bounded_mean, ME.ess_ptp = saved["bounded_mean"], saved["ME.ess_ptp"]
        M.impose_mean, D.impose_mean = saved["M.impose_mean"], saved["D.impose_mean"]

    def seqs(self):
        one = lambda v: (v,) if not hasattr(v, "__len__") else v
        return one(self.n), one(self.wlb), one(self.xlb)

    def m_bounds_positions_first():       # per measure: position bounds before weight bounds
        def lower(self):
            n, wlb, xlb = seqs(self)
            return [v for i, j, k in zip(n, wlb, xlb) for v in i * [k] + i * [j]]
        MB.lower = property(lower)

    def m_bounds_grouped():               # all weight bounds, then all position bounds (right for one measure)
        def lower(self):
            n, wlb, xlb = seqs(self)
            return [v for i, j in zip(n, wlb) for v in i * [j]] + [v for i, k in zip(n, xlb) for v in i * [k]]
        MB.lower = property(lower)

    def m_bounds_len_single():            # len(MeasureBounds) not doubled
        MB.__len__ = lambda self: BD.__len__(self)

    def m_bounds_add_reversed():          # a + b gives b() + a()
        def add(self, other):
            if not isinstance(other, BD):
                return NotImplemented
            return other() + self()
        BD.__add__ = add
        MB.__add__ = add

    def m_xupper_uses_lower():
        MB.xupper = MB.xlower

    def m_ess_min_ignores_weights():
        ME.ess_minimum = lambda self, f, tol=0.: ME.minimum(self, f)

    def m_product_min_is_first_factor():
        PM.minimum = lambda self, f: self[0].minimum(f)

    def m_support_index_ge():
        M.support_index = lambda weights, tol=0: [i for (i, w) in enumerate(weights) if w >= tol]

    def m_binary_msb_first():             # the associated binary strings most significant bit first
        def index2binary(index, npts=None):
            return [s[::-1] for s in saved["index2binary"](index, npts)]
        CP.index2binary = index2binary

    def m_select_le():                    # weighted_select: a point whose cumulative weight EQUALS... -> strict comparison flipped
        def weighted_select(samples, weights, mass=1.0):
            from mystic.tools import random_state
            rand = random_state().random
            wts = numpy.cumsum(M.normalize(weights, mass))
            wts[-1] = mass
            w = mass * rand()
            return samples[max(0, len(wts[wts <= w]) - 1)]
        M.weighted_select = weighted_select

    def m_sampled_support_factor_major():  # draws all trials of a factor before the next factor
        def sampled_support(self, npts=10000):
            return numpy.array([[M.weighted_select(s.positions, s.weights) for i in range(npts)] for s in self])
        PM.sampled_support = sampled_support

    def m_zsum_first_member():            # the first member counterbalances instead of the last
        def normalize(weights, mass="l2", zsum=False, zmass=1.0):
            if zsum and not isinstance(mass, str) and not float(mass) and numpy.sum(numpy.abs(weights)):
                w = numpy.asarray(list(weights), dtype=float)
                t = numpy.sum(numpy.abs(w))
                w[0] = -(numpy.sum(w) - w[0])
                return list(zmass * w / t)
            return saved["normalize"](weights, mass, zsum, zmass)
        M.normalize = normalize

    def m_lipschitz_unweighted():         # the Lipschitz constants are ignored (plain manhattan distance)
        def lipschitz_metric(L, x, xp=None):
            return saved["lipschitz_metric"]([1.0] * len(L), x, xp)
        DS.lipschitz_metric = lipschitz_metric

    def m_valid_ignores_ytol():
        def valid(self, model, blamelist=False, pairs=True, all=False, raw=False, **kwds):
            kwds.pop("ytol", None)
            return saved["SC.valid"](self, model, blamelist, pairs, all, raw, **kwds)
        SC.valid_wrt_model = valid

    def m_norm_wts_first():               # the first weight is adjusted instead of the last
        def factory(pts):
            def constrain(rv):
                pm = SC()
                pm.load(rv, pts)
                for i in range(len(pm)):
                    w = pm[i].weights
                    w[0] = 1.0 - sum(w[1:])
                    pm[i].weights = w
                return pm.flatten(all=True)
            return constrain
        D.norm_wts_constraintsFactory = factory

    def m_set_mean_value_unweighted():
        def set_mean_value(self, m):
            self.values = M.impose_mean(m, self.values)
        SC.set_mean_value = set_mean_value

    def m_bounded_mean_unweighted():
        def bounded_mean(mean_x, samples, xmin, xmax, wts=None):
            return saved["bounded_mean"](mean_x, samples, xmin, xmax, None)
        D.bounded_mean = bounded_mean

    def m_ess_ptp_is_ptp():
        ME.ess_ptp = lambda self, f, tol=0.: ME.ptp(self, f)

    def m_reweight_drops_total():         # the reweighted weights are normalised to 1
        def rw(m, samples, weights=None, solver=None):
            out = saved["rw_mean"](m, samples, weights, solver)
            return None if out is None else [v / sum(out) for v in out]
        M.impose_reweighted_mean = rw

    def m_split_param_swapped():
        def split_param(params, npts):
            w, x = saved["split_param"](params, npts)
            return x, w
        M.split_param = split_param

    def m_impose_mean_keeps_dtype():      # the shifted points are written into an array of the samples' own dtype: integers
        def impose_mean(m, samples, weights=None):          # truncate (only states written with python / numpy ints notice)
            samples = numpy.asarray(list(samples))
            shift = m - M.mean(samples, weights)
            out = numpy.empty_like(samples)
            out[:] = samples + shift
            return list(out)
        M.impose_mean = D.impose_mean = impose_mean

    def m_update_in_place():              # the seeded change C19d: update writes into the existing factor measures
        def update(self, params):
            pts = self.pts
            _len = 2 * sum(pts)
            if len(params) > _len:
                params, values = params[:_len], params[_len:]
            wts, pos = M._nested_split(params, pts)
            for (i, m) in enumerate(self):
                m.weights, m.positions = wts[i], pos[i]
            return self
        PM.update = update

    cat = [("MeasureBounds.lower: position bounds before weight bounds", ("bounds",), m_bounds_positions_first),
           ("MeasureBounds.lower: all weight bounds, then all position bounds", ("bounds",), m_bounds_grouped),
           ("len(MeasureBounds) counts one entry per point", ("bounds",), m_bounds_len_single),
           ("bounds a + b gives b() + a()", ("bounds",), m_bounds_add_reversed),
           ("MeasureBounds.xupper returns the lower position bounds", ("bounds",), m_xupper_uses_lower),
           ("measure.ess_minimum ignores the weights", ("stat",), m_ess_min_ignores_weights),
           ("product_measure.minimum looks at the first factor only", ("stat",), m_product_min_is_first_factor),
           ("measures.support_index uses weight >= tol", ("stat",), m_support_index_ge),
           ("index2binary most significant bit first (select / differs_by_one)", ("stat",), m_binary_msb_first),
           ("weighted_select picks the point before the selected one", ("stat",), m_select_le),
           ("sampled_support draws factor-major instead of trial-major", ("stat",), m_sampled_support_factor_major),
           ("normalize(zsum=True) counterbalances with the first member", ("stat",), m_zsum_first_member),
           ("shortness ignores the Lipschitz constants", ("stat",), m_lipschitz_unweighted),
           ("valid_wrt_model ignores ytol", ("stat",), m_valid_ignores_ytol),
           ("norm_wts constraint adjusts the first weight", ("stat",), m_norm_wts_first),
           ("set_mean_value ignores the weights", ("stat",), m_set_mean_value_unweighted),
           ("split_param returns (positions, weights)", ("stat", "bounds"), m_split_param_swapped),
           ("bounded_mean ignores the weights", ("stat",), m_bounded_mean_unweighted),
           ("measure.ess_ptp is the plain ptp", ("stat",), m_ess_ptp_is_ptp),
           ("impose_mean keeps the samples' integer dtype (set_mean_value / bounded_mean on states written with ints)", ("stat",), m_impose_mean_keeps_dtype),
           ("impose_reweighted_mean drops the total weight", ("rw",), m_reweight_drops_total),
           ("product_measure.update writes into the existing measures (seeded change C19d)", ("alias",), m_update_in_place)]
    return cat, restore


def selftest_work(args):
    job, seed = args
    mc, printed = run_job(job)
    if mc["violated"]:
        return job, mc["violated"], None
    cat, restore = mutants()
    out = []
    mine = ("alias",) if job[0] == "alias" else ("bounds", "stat", "rw")
    for name, sections, apply in cat:
        secs = tuple(s for s in sections if s in mine)
        if not secs:
            out.append(None)
            continue
        apply()
        try:
            res = replay_job(job, printed, seed, True, secs)
            out.append({k: v[0] for k, v in res["viol"].items()})
        except Exception as ex:
            out.append({"harness-failure:%s" % type(ex).__name__: 1})
        finally:
            restore()
    # one falsified TLC value per section
    data = json.loads(json.dumps(printed))
    done = corrupt_printed(job[0], data)
    res = replay_job(job, data, seed, True)
    out.append({"sections": sorted(done), "viol": {k: v[0] for k, v in res["viol"].items()}})
    res = replay_job(job, printed, seed, True)
    out.append({k: v[0] for k, v in res["viol"].items()})
    return job, None, out


def selftest_growth(a):
    """every in-memory mutant and every falsified TLC value must be caught; prints SELFTEST lines; returns the number missed"""
    jobs = jobs_for(a, light=True)
    ctx = mp.get_context("fork")
    with ctx.Pool(min(len(jobs), max(1, a.jobs))) as pool:
        parts = pool.map(selftest_work, [(j, a.seed) for j in jobs], chunksize=1)
    for job, violated, out in parts:
        if violated:
            print("SELFTEST growth aborted: TLC reports %s in %s" % (violated, job[1]))
            return 99
    cat = mutants()[0]
    missed = 0
    for idx, (name, sections, _) in enumerate(cat):
        total = {}
        for job, _, out in parts:
            for k, v in (out[idx] or {}).items():
                total[k] = total.get(k, 0) + v
        n = sum(total.values())
        keys = ", ".join(sorted(total, key=lambda k: -total[k])[:4])
        print("SELFTEST growth %s: %s (%d violations; %s)" % (name, "caught" if n else "MISSED", n, keys))
        missed += 0 if n else 1
    prefixes = {"bounds": "bounds:", "stat": "stat:", "rw": "reweight:", "alias": "alias:"}
    for sec in SECTIONS:
        n = 0
        for job, _, out in parts:
            c = out[len(cat)]
            if sec in c["sections"]:
                n += sum(v for k, v in c["viol"].items() if k.startswith(prefixes[sec]))
        print("SELFTEST growth one expected %s value from TLC falsified: %s (%d violations)" % (sec, "caught" if n else "MISSED", n))
        missed += 0 if n else 1
    total = {}
    for job, _, out in parts:
        for k, v in out[len(cat) + 1].items():
            total[k] = total.get(k, 0) + v
    print("SELFTEST growth unmutated tree: %d violations %s" % (sum(total.values()), ", ".join(sorted(total)[:6])))
    return missed
