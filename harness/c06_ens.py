"""C06 for the ensemble solvers (LatticeSolver, BuckshotSolver, SparsitySolver): spec -> code binding of
specs/solver/CheckpointEns.tla / Gen_CheckpointEns.tla.  Used by check_C06.py (which owns main / evidence / selftest).

An ensemble is an instance whose private state is the vector of its member solvers.  Every script TLC emits is executed on
real ensembles; after EVERY command the full projection of every live ensemble INCLUDING EVERY MEMBER (the member
projection is check_C06.project: population, energies, best, counters, histories, monitor contents, simplex / direction
set) is compared as the specification dictates:
  r >= 0    the acting ensemble equals the uninterrupted reference after its command #r, bit for bit, all members
  e         ... equals the listed other ensembles
  others    every other ensemble, and every member of it, is unchanged (Independence)
  mg,ms,st  generation counter and stop verdict of every member, stop verdict of the ensemble, as predicted
  counts    the ensemble's total (_total_evals) moved by exactly the real objective calls of the command, and EVERY
            MEMBER's evaluations moved by exactly the real calls made while that member ran (CopyCounts); the real calls
            per member are noted by the harness map c06_costs.cmap
Nothing is judged where the specification claims nothing (generator not restored, re-clipping deep copy: r = -1).
"""
import os, copy, random, time, shutil, contextlib
import numpy as np
from harness.tlc import run_tlc
from harness import c06_costs as U

EKINDS = ["LNM", "BPW", "SNM", "LPW"]
EQUICK = ["LNM", "BPW", "LPW"]        # quick tier; the sparsity ensembles (slow sampling of the starting points) run in the thorough tier
MEMBER = {"LNM": "NM", "LPW": "PW", "BPW": "PW", "SNM": "NM"}
EDESCR = {"LNM": "LatticeSolver of NelderMeadSimplexSolver members", "LPW": "LatticeSolver of PowellDirectionalSolver members",
          "BPW": "BuckshotSolver of PowellDirectionalSolver members", "SNM": "SparsitySolver of NelderMeadSimplexSolver members"}
DIM = 2
LO, HI = -1.5, 1.8
GEN = "solver/Gen_CheckpointEns"
MCMOD = "solver/MC_CheckpointEns"
H = None        # helpers of check_C06 (project, diff, enc, getrng, setrng, seeded), bound by check_C06 at import

# concrete meaning of the setting ids of Gen_CheckpointEns.Catalogue beyond the attributes TLC prints
FLAVOUR = {101: dict(), 102: dict(cost="bumpy"), 103: dict(cons=True, pen=True), 104: dict(), 105: dict(cost="bumpy"),
           106: dict(), 107: dict(pen=True), 108: dict()}
DESCR = {101: "plain, step-wise", 102: "strict ranges", 103: "strict ranges + constraint + penalty + monitors; member 1 stopped by the user's termination at generation 2",
         104: "strict ranges + generation limit (runs into the stop, refused afterwards)",
         105: "save frequency 1 + monitors + generation limit; member 1 stopped by the user's termination at generation 1",
         106: "driven by Solve(): strict ranges + generation limit 3",
         107: "driven by Solve(): strict ranges + penalty + monitors + restart file + limit 3; member 1 stops at 2",
         108: "save frequency 2, no limit"}
# the two faces of ONE departure of the unchanged tree (a step-wise driven ensemble never writes its periodic dump; its
# members, which inherit save frequency and file name, write THEMSELVES into the ensemble's file): the specification's
# refuted design member_dump_clobbers.  Both keys share the prefix resume:ensemble:periodic-dump:
MEMBER_FILE_KEY = "resume:ensemble:periodic-dump:restart-file-holds-a-member-solver-not-the-ensemble"
STALE_FILE_KEY = "resume:ensemble:periodic-dump:registered-file-not-rewritten-by-the-steps-after-SaveSolver"

_PEN = {}


def _penalty():
    if "pen" not in _PEN:
        from mystic.penalty import quadratic_inequality
        _PEN["pen"] = quadratic_inequality(U.pen_cond, k=100.0)(U.zero)
    return _PEN["pen"]


def make_ens(kind, attrs, nm, fileP, seed):
    """a configured, never run ensemble of nm members; the generators are seeded first"""
    import mystic.solvers as ms
    from mystic.monitors import Monitor
    fl = FLAVOUR[attrs["id"]]
    pen = _penalty() if fl.get("pen") else None
    random.seed(seed)
    np.random.seed(seed % (2 ** 32))
    if kind in ("LNM", "LPW"):
        s = ms.LatticeSolver(DIM, [nm, 1])
    elif kind == "BPW":
        s = ms.BuckshotSolver(DIM, nm)
    else:
        s = ms.SparsitySolver(DIM, nm)
    s.SetNestedSolver(ms.NelderMeadSimplexSolver if MEMBER[kind] == "NM" else ms.PowellDirectionalSolver)
    s.SetMapper(U.cmap)
    if attrs["rg"]:
        s.SetStrictRanges([LO] * DIM, [HI] * DIM)
    s.SetObjective(U.bumpy if fl.get("cost") == "bumpy" and MEMBER[kind] == "NM" else U.rosen)
    # the only user termination that ever fires: member 1 (solver id 0) at generation t1
    s.SetTermination(U.StopMember((0,) if attrs["t1"] >= 0 else (), max(attrs["t1"], 0)))
    if fl.get("cons"):
        s.SetConstraints(U.cons_fold)
    if pen is not None:
        s.SetPenalty(pen)
    if attrs["em"]:
        s.SetGenerationMonitor(Monitor())
        s.SetEvaluationMonitor(Monitor())
    if attrs["sf"] > 0:
        s.SetSaveFrequency(attrs["sf"], fileP)
    if attrs["lim"] >= 0:
        s.SetEvaluationLimits(generations=attrs["lim"])
    return s


def is_ensemble(s):
    return hasattr(s, "_allSolvers")


def members(s):
    return [m for m in getattr(s, "_allSolvers", []) if m is not None]


def project_ens(s, kind):
    """the whole ensemble: what it reports itself (best, counters, monitors, stop message) and EVERY member in full"""
    if not is_ensemble(s):
        return {"type": type(s).__name__}
    enc = H.enc
    p = {"type": type(s).__name__, "E.Terminated": s.Terminated(info=True)}      # (syncs the ensemble with its best member)
    sm, em = s._stepmon, s._evalmon
    p.update({
        "E.bestSolution": enc(s.bestSolution), "E.bestEnergy": enc(s.bestEnergy), "E.population": enc(s.population),
        "E.popEnergy": enc(s.popEnergy), "E.generations": int(s.generations), "E.evaluations": int(s.evaluations),
        "E.total_evals": int(s._total_evals), "E.all_evals": tuple(int(v) for v in s._all_evals),
        "E.all_iters": tuple(int(v) for v in s._all_iters),
        "E.energy_history": enc(s.energy_history), "E.solution_history": enc(s.solution_history),
        "E.stepmon.x": enc(sm._x), "E.stepmon.y": enc(sm._y), "E.stepmon.id": tuple(sm._id),
        "E.evalmon.x": enc(em._x), "E.evalmon.y": enc(em._y), "E.evalmon.id": tuple(em._id),
        "E.limits": (repr(s._maxiter), repr(s._maxfun)), "E._step": bool(s._step),
        "E.nmembers": len(s._allSolvers), "E.built": tuple(m is not None for m in s._allSolvers),
        "E.best_is_member": [m is s._bestSolver for m in s._allSolvers].count(True),
    })
    for j, m in enumerate(s._allSolvers):
        if m is None:
            continue
        for k, v in H.project(m, MEMBER[kind]).items():
            p["m%d.%s" % (j + 1, k)] = v
        p["m%d.id" % (j + 1)] = m.id
    return p


class Inst(object):
    __slots__ = ("solver", "ctx", "labels", "rngAt", "how", "proj")

    def __init__(self, solver, ctx, how):
        self.solver, self.ctx, self.how = solver, ctx, how
        self.labels = {}
        self.rngAt = None
        self.proj = None


class EnsGroup(object):
    """one (ensemble kind, setting): the reference run is executed once per command list and kept; every script gets a
    fresh original"""

    def __init__(self, kind, attrs, n, nm, seed, scratch):
        self.kind, self.attrs, self.n, self.nm, self.seed = kind, attrs, n, nm, seed
        self.fileR = os.path.join(scratch, "ref.pkl")
        self.fileP = os.path.join(scratch, "periodic.pkl")
        self.fileF = os.path.join(scratch, "explicit.pkl")
        self.viol = []
        self.refs = {}
        self.ref, self.A = None, []

    def report(self, key, sc, at, what, extra=None):
        self.viol.append((key, {"ensemble": True, "kind": self.kind, "kind_means": EDESCR[self.kind], "setting": self.attrs,
                                "setting_means": DESCR[self.attrs["id"]], "n": self.n, "nm": self.nm, "seed": self.seed,
                                "script": sc, "at_command": at, "extra": extra}, what))

    # -- one public call on an ensemble, with the real-call accounting (total and per member)
    def call(self, b, c, where, sc, n, how):
        s = b.solver
        ev0 = [int(getattr(m, "evaluations", 0)) if m is not None else 0 for m in s._allSolvers]
        del U.PER[:]
        c0 = U.CALLS[0]
        msg = s.Step() if c == "step" else s.Solve()
        real = U.CALLS[0] - c0
        per = {}
        for j, d in U.PER:
            per[j] = per.get(j, 0) + d
        ev1 = [int(getattr(m, "evaluations", 0)) if m is not None else 0 for m in s._allSolvers]
        moved = sum(ev1) - sum(ev0)
        if moved != real or int(s._total_evals) != sum(ev1):
            self.report("counts:%s:%s:total" % (self.kind, how), sc, n,
                        "%s: the members' evaluations moved by %d in total (_total_evals=%d, sum=%d) but the objective was "
                        "really called %d times" % (where, moved, int(s._total_evals), sum(ev1), real))
        bad = [(j + 1, ev1[j] - ev0[j], per.get(j, 0)) for j in range(len(ev1)) if ev1[j] - ev0[j] != per.get(j, 0)]
        if bad and sum(per.values()) == real:
            self.report("counts:%s:%s:member" % (self.kind, how), sc, n,
                        "%s: (member, evaluations moved, real calls while it ran) = %s" % (where, bad))
        return msg

    def _drive(self, refops, check):
        s = make_ens(self.kind, self.attrs, self.nm, self.fileR, self.seed)
        b = Inst(s, H.getrng(), "reference")
        out = []
        for m, c in enumerate(refops):
            H.setrng(b.ctx)
            if check:
                self.call(b, c, "reference run, command #%d %s" % (m, c), None, None, "reference")
            elif c == "step":
                s.Step()
            else:
                s.Solve()
            b.ctx = H.getrng()
            out.append(project_ens(s, self.kind))
        return s, out

    def reference(self, refops):
        key = tuple(refops)
        if key not in self.refs:
            s, A = self._drive(refops, True)
            s2, A2 = self._drive(refops, False)
            for m in range(len(A)):
                if A[m] != A2[m]:
                    raise RuntimeError("reference run of %s setting %s is not reproducible at command %d: %s" % (
                        self.kind, self.attrs["id"], m, H.diff(A[m], A2[m])))
            self.refs[key] = (s, A)
        self.ref, self.A = self.refs[key]

    def run_script(self, sc):
        kind = self.kind
        hdrtxt = "%s (%s) setting %d (%s) k=%d%s path=%s rng=%s mode=%s" % (
            kind, EDESCR[kind], sc["sid"], DESCR[sc["sid"]], sc["k"], " (AT THE STOP)" if sc["atstop"] else "", sc["path"],
            sc["rng"], sc["mode"])
        for f in (self.fileP, self.fileF):
            if os.path.exists(f):
                os.remove(f)
        try:
            self.reference(sc["refops"])
        except RuntimeError:
            raise
        except Exception as ex:
            self.report("raises:%s:reference-run:%s" % (kind, type(ex).__name__), sc, -1,
                        "%s: the uninterrupted reference run raised %r" % (hdrtxt, ex))
            return 0
        insts = {}
        o = Inst(make_ens(kind, self.attrs, self.nm, self.fileP, self.seed), None, "orig")
        o.ctx = H.getrng()
        o.labels[0] = o.ctx
        insts[2] = o
        dbytes = [None]
        claims = 0
        path = sc["path"]
        for n, op in enumerate(sc["ops"]):
            c, x, y = op["c"], op["x"], op["y"]
            where = "%s, command #%d %s(x=%d)" % (hdrtxt, n, c, x)
            before = {i: b.proj for i, b in insts.items()}
            try:
                if c in ("step", "solve"):
                    b = insts[x]
                    H.setrng(b.ctx)
                    msg = self.call(b, c, where, sc, n, b.how)
                    b.ctx = H.getrng()
                    b.labels[op["lab"]] = b.ctx
                    stopped = bool(msg) if c == "step" else bool(b.solver.Terminated())
                    if stopped != op["st"]:
                        self.report("predict:%s:%s:stop" % (kind, c), sc, n, "%s: returned %r / Terminated()=%s, specification "
                                    "says stopped=%s" % (where, msg, stopped, op["st"]))
                elif c == "saveF":
                    b = insts[x]
                    H.setrng(b.ctx)
                    b.solver.SaveSolver(self.fileF)
                    b.ctx = H.getrng()
                elif c == "saveD":
                    import dill
                    b = insts[x]
                    H.setrng(b.ctx)
                    dbytes[0] = dill.dumps(b.solver)
                    b.ctx = H.getrng()
                elif c in ("loadF", "loadP", "loadD"):
                    import dill
                    from mystic.solvers import LoadSolver
                    s = dill.loads(dbytes[0]) if c == "loadD" else LoadSolver(self.fileF if c == "loadF" else self.fileP)
                    b = Inst(s, H.getrng(), "restored-" + c[-1])
                    b.rngAt = insts[y].labels.get(op["ra"])
                    insts[x] = b
                    if op["ens"] and not is_ensemble(s):
                        # the specification says this file holds the ENSEMBLE as it was after ensemble step g
                        self.report(MEMBER_FILE_KEY if c == "loadP" else "resume:%s:%s:%s:not-an-ensemble" % (kind, path, c),
                                    sc, n, "%s: the restart file that must hold the %s after its step %d holds a %s "
                                    "(generations=%s): the restored object is one member, not the ensemble"
                                    % (where, type(insts[y].solver).__name__, op["g"], type(s).__name__,
                                       getattr(s, "generations", None)),
                                    {"restored_type": type(s).__name__})
                        return claims
                    if op["ens"] and self.attrs["sf"] > 0 and not self.attrs["sv"]:
                        # SaveSolver(file) registered the file; the steps the writer took afterwards must have rewritten it
                        mg = [int(m.generations) for m in members(s)]
                        if len(mg) == len(op["mg"]) and mg != list(op["mg"]) and all(u <= v for u, v in zip(mg, op["mg"])):
                            self.report(STALE_FILE_KEY, sc, n,
                                        "%s: the registered restart file must hold the ensemble after its step %d (members' "
                                        "generations %s: save frequency %d) but holds it as it was when SaveSolver was called "
                                        "(members' generations %s): the later steps did not rewrite it"
                                        % (where, op["g"], list(op["mg"]), self.attrs["sf"], mg))
                            return claims
                elif c == "copy":
                    src = insts[y]
                    H.setrng(src.ctx)
                    s = copy.deepcopy(src.solver)
                    src.ctx = H.getrng()
                    b = Inst(s, H.getrng(), "deepcopy")
                    b.rngAt = src.ctx
                    insts[x] = b
                elif c == "rrng":
                    b = insts[x]
                    if b.rngAt is None:
                        raise RuntimeError("%s: no generator state recorded for label %s" % (where, op["ra"]))
                    b.ctx = b.rngAt
                    b.labels[op["lab"]] = b.ctx
                elif c == "scr":
                    b = insts[x]
                    b.ctx = H.seeded(7000 + 13 * x + self.seed)
                    b.labels[op["lab"]] = b.ctx
                else:
                    raise RuntimeError("unknown command %r" % (op,))
            except RuntimeError:
                raise
            except Exception as ex:
                self.report("raises:%s:%s:%s" % (kind, c, type(ex).__name__), sc, n, "%s raised %r" % (where, ex))
                return claims
            b = insts[x]
            for i, bb in insts.items():
                bb.proj = project_ens(bb.solver, kind)
            ms_ = members(b.solver)
            # predicted per-member counters and verdicts
            if c in ("step", "solve", "loadF", "loadP", "loadD", "copy"):
                mg = [int(m.generations) for m in ms_]
                if mg != list(op["mg"]):
                    self.report("predict:%s:%s:member-generations" % (kind, c), sc, n,
                                "%s: members' generations %s, specification says %s" % (where, mg, op["mg"]))
                mst = [bool(m.Terminated()) for m in ms_]
                if mst != list(op["ms"]):
                    self.report("predict:%s:%s:member-stop" % (kind, c), sc, n,
                                "%s: members' stop verdicts %s, specification says %s" % (where, mst, op["ms"]))
            if op["r"] >= 0:
                claims += 1 if (c in ("step", "solve") and x >= 3) else 0
                if op["r"] >= len(self.A):
                    raise RuntimeError("%s: reference index %d out of range" % (where, op["r"]))
                d = H.diff(b.proj, self.A[op["r"]])
                if d:
                    cls = "resume" if b.how.startswith("restored") else "copy-resume" if b.how == "deepcopy" else "original"
                    self.report("%s:%s:%s:%s:%s" % (cls, kind, path, c, "+".join(d[:4])), sc, n,
                                "%s: ensemble %d (%s) differs from the uninterrupted ensemble (after its command #%d) in: %s"
                                % (where, x, b.how, op["r"], ", ".join(d[:12])),
                                {"members_generations": [int(m.generations) for m in ms_],
                                 "reference_total_evals": self.A[op["r"]].get("E.total_evals"),
                                 "total_evals": b.proj.get("E.total_evals")})
            for z in op["e"]:
                zproj, zhow = (self.A[-1], "reference") if z == 1 else (insts[z].proj, insts[z].how)
                d = H.diff(b.proj, zproj)
                if d:
                    self.report("equal:%s:%s:%s:%s" % (kind, path, c, "+".join(d[:4])), sc, n,
                                "%s: ensemble %d (%s) must equal ensemble %d (%s) but differs in: %s"
                                % (where, x, b.how, z, zhow, ", ".join(d[:12])))
            # Independence: nobody else moved, no member of anybody else moved
            for i, bb in insts.items():
                if i not in before or before[i] is None or (i == x and c in ("step", "solve")):
                    continue
                d = H.diff(bb.proj, before[i])
                if d:
                    self.report("independence:%s:%s:%s:%s" % (kind, path, c, "+".join(d[:4])), sc, n,
                                "%s: ensemble %d (%s) changed although ensemble %d acted; changed: %s"
                                % (where, i, bb.how, x, ", ".join(d[:12])))
        d = H.diff(project_ens(self.ref, kind), self.A[-1])
        if d:
            self.report("independence:%s:reference:%s" % (kind, "+".join(d[:4])), sc, None,
                        "%s: the reference ensemble changed during the script: %s" % (hdrtxt, ", ".join(d[:12])))
            self.A[-1] = project_ens(self.ref, kind)
        return claims


def gen_scripts(kind, tier, sid=None, n=None):
    env = {"C06_KIND": kind}
    if sid is not None:
        env["C06_SID"] = sid
    if n is not None:
        env["C06_N"] = n
    return run_tlc(GEN, cfg="Gen_CheckpointEns_%s.cfg" % tier, workers=1, timeout=3000, heap="3g", env=env)


def nparts(kind, sid, tier):
    """the groups whose every step pickles (save frequency > 0) and the sparsity ensembles (slow sampling of the starting
    points) are executed in several jobs: every `nparts`-th script each"""
    n = 1
    if sid in (105, 108):
        n = 2 if tier == "quick" else 3
    if kind == "SNM" and sid not in (106, 107):
        n += 1
    return n


def run_group(job, shared):
    """worker: the scripts of one (ensemble kind, setting) -- from the cache (quick: one TLC run per kind, made by the
    caller) or from a TLC run of its own (thorough) -- are executed; job = (tag, kind, setting, tier, seed, part, nparts):
    this job executes the scripts part, part+nparts, ..."""
    _tag, kind, sid, tier, seed, part, npart = job
    scripts_in = None if shared["scripts"] is None else shared["scripts"].get(("ENS", kind, sid))
    corrupt = shared["corrupt"]
    t0 = time.time()
    res = {"ens": True, "kind": kind, "sid": sid, "viol": [], "scripts": 0, "claims": 0, "nontrivial": [], "mc": None,
           "sample": None, "steps": 0, "atstop": 0, "member_steps": 0, "solves": 0}
    if scripts_in is None:
        r = gen_scripts(kind, tier, sid)
        res["mc"] = {"generated": r.generated, "distinct": r.distinct, "depth": r.depth, "wall_s": r.wall_s,
                     "violated": r.violated, "out": r.out[-3000:] if r.violated else ""}
        printed = r.printed
    else:
        printed = scripts_in
    res["tlc_s"] = round(time.time() - t0, 1)
    if not printed or "catalogue" not in printed[0]:
        raise RuntimeError("Gen_CheckpointEns printed no catalogue for %s/%s" % (kind, sid))
    head = printed[0]
    cat = {c["id"]: c for c in head["catalogue"]}
    scripts = printed[1:]
    if corrupt:
        scripts = corrupt(scripts)
    scripts = scripts[part::npart]
    if part and res["mc"]:
        res["mc"] = None           # the TLC run of a split group is counted once
    scratch = "/dev/shm/c06e_%d_%s_%s_%d" % (os.getpid(), kind, sid, part)
    shutil.rmtree(scratch, ignore_errors=True)
    os.makedirs(scratch)
    devnull = open(os.devnull, "w")
    groups = {}
    viol = []
    try:
        with contextlib.redirect_stdout(devnull):
            for sc in scripts:
                if sc["kind"] != kind or sc["sid"] not in FLAVOUR or sc["sid"] not in cat:
                    raise RuntimeError("script of another group / unknown setting %r" % (sc["sid"],))
                g = groups.get(sc["sid"])
                if g is None:
                    g = groups[sc["sid"]] = EnsGroup(kind, cat[sc["sid"]], head["n"], head["nm"], seed * 7919 + 23, scratch)
                claims = g.run_script(sc)
                res["scripts"] += 1
                res["claims"] += claims
                calls = [op for op in sc["ops"] if op["c"] in ("step", "solve")]
                res["steps"] += len(calls)
                res["solves"] += sum(1 for op in calls if op["c"] == "solve")
                res["member_steps"] += len(calls) * head["nm"]
                if claims:
                    res["nontrivial"].append(("ENS", kind, sc["sid"], sc["k"], sc["path"], sc["rng"], sc["mode"], len(sc["ops"])))
                    if sc["atstop"]:
                        res["atstop"] += 1
    finally:
        devnull.close()
        shutil.rmtree(scratch, ignore_errors=True)
    for g in groups.values():
        viol += g.viol
    res["viol"] = viol[:400]
    res["nviol"] = len(viol)
    if scripts:
        pick = [x for x in scripts if x["atstop"] and x["mode"] == "solve_rest"] or \
               [x for x in scripts if x["sid"] in (103, 105) and x["k"] >= 2 and x["path"] == "F"] or scripts
        sc = pick[0]
        res["sample"] = {"ensemble": EDESCR[kind], "setting": DESCR[sc["sid"]], "k": sc["k"], "path": sc["path"],
                         "rng": sc["rng"], "mode": sc["mode"], "checkpoint_at_the_stop": sc["atstop"],
                         "reference_commands": sc["refops"],
                         "commands_with_spec_verdicts": sc["ops"][max(0, sc["k"]):sc["k"] + 7]}
    res["wall_s"] = round(time.time() - t0, 1)
    return res


# ------------------------------------------------------------------------------------------------ design (TLC only)
VARIANTS = [
    ("snap_omits_members", ["ResumeEquivalence"]),
    ("load_drops_member_counters", ["ResumeEquivalence"]),
    ("copy_shares_members", ["Independence", "CopyCounts", "TotalIsSum"]),
    ("copy_shares_member_counters", ["Independence", "CopyCounts"]),
    ("copy_shares_monitors", ["Independence"]),
    ("member_dump_clobbers", ["ResumeEquivalence"]),
]
WITNESSES = ["NeverResumedCompared", "NeverCopyCompared", "NeverPerturbed", "NeverMemberStoppedEarly",
             "NeverStopRestoredRefused", "NeverSolveDumpRestored", "NeverPeriodicRestore"]
# every one of these is a JVM start: the quick tier runs one refutation per refuted design and the witnesses of the
# ensemble-specific situations; the thorough tier runs all
QUICK_VARIANTS = {("snap_omits_members", "ResumeEquivalence"), ("load_drops_member_counters", "ResumeEquivalence"),
                  ("copy_shares_members", "Independence"), ("copy_shares_member_counters", "CopyCounts"),
                  ("copy_shares_monitors", "Independence"), ("member_dump_clobbers", "ResumeEquivalence")}
QUICK_WITNESSES = {"NeverResumedCompared", "NeverMemberStoppedEarly", "NeverStopRestoredRefused", "NeverSolveDumpRestored"}


def design_runs(tier, jobs):
    """(name, module, cfg, workers, expectation) -- same convention as check_C06.design_runs, plus the module"""
    runs = [("MC_CheckpointEns(%s)" % tier, MCMOD, "MC_CheckpointEns_%s.cfg" % tier, min(jobs, 4), None)]
    if tier == "thorough":
        runs.append(("MC_CheckpointEns(thorough, 3 further settings)", MCMOD, "MC_CheckpointEns_thoroughT.cfg", min(jobs, 4), None))
        runs.append(("MC_CheckpointEns(3 members)", MCMOD, "MC_CheckpointEns_thorough3.cfg", min(jobs, 4), None))
        runs.append(("MC_CheckpointEns(4 instances)", MCMOD, "MC_CheckpointEns_thorough4.cfg", min(jobs, 4), None))
    for d, props in VARIANTS:
        for p in props:
            if tier == "thorough" or (d, p) in QUICK_VARIANTS:
                runs.append(("asis:ens:%s:%s" % (d, p), MCMOD, "MC_CheckpointEns_asis_%s_%s.cfg" % (d, p), 1, {p}))
    for w in WITNESSES:
        if tier == "thorough" or w in QUICK_WITNESSES:
            runs.append(("witness:ens:%s" % w, MCMOD, "MC_CheckpointEns_wit_%s.cfg" % w, 1, {w}))
    return runs
