"""C11 --selftest: in-memory mutants of mystic (this process only; /repo is never written) that break the property
in ways the pinned suite does not notice, plus corruptions of what TLC expects / of a recorded trace.

A mutant is *caught* iff the check reports at least one violation class that the unchanged tree does not produce
(the unchanged tree is run first; its classes -- genuine defects reported under their own keys -- are the baseline).
"""
import io, contextlib, types, sys


def _baseline_and_mutants(a, explore, new_check):
    import numpy as np
    import mystic.collapse as ct
    import mystic.termination as mt
    import mystic.mask as ma
    import mystic.monitors as mm
    import mystic.constraints as cn
    import mystic.tools as to
    import mystic.abstract_solver as ab
    from mystic.abstract_solver import AbstractSolver

    saved = {}

    def patch(obj, name, new):
        saved.setdefault((id(obj), name), (obj, name, getattr(obj, name)))
        setattr(obj, name, new)

    def restore():
        for obj, name, old in saved.values():
            setattr(obj, name, old)
        saved.clear()

    # ---- detectors -------------------------------------------------------------------------------------
    def m_at_strict():          # collapse_at: <= tolerance  ->  < tolerance
        orig = ct.collapse_at

        def collapse_at(stepmon, target=None, tolerance=0.005, generations=50, mask=None):
            orig(stepmon, target, tolerance, generations, mask)          # same input validation
            tol = np.asarray(tolerance); tol.shape = (-1, 1)
            params = mm._solutions(stepmon, generations)
            if target is None: params = np.ptp(params, axis=0) < tol
            else: params = abs(params - target).max(axis=0) < tol
            params = np.where(params)[-1]
            if mask is None: return set(params)
            return set(i for i in params if i not in set(mask))
        patch(ct, "collapse_at", collapse_at)

    def m_as_mask_ignored():    # collapse_as: the mask is not subtracted
        orig = ct.collapse_as

        def collapse_as(stepmon, offset=False, tolerance=0.005, generations=50, mask=None):
            orig(stepmon, offset, tolerance, generations, mask)
            return orig(stepmon, offset, tolerance, generations, None)
        patch(ct, "collapse_as", collapse_as)

    def m_window_plus_one():    # the look-back window reads generations+1 entries
        def _solutions(monitor, last=None):
            indx = last if last is None else -(last + 1) if last else -last
            return np.array(monitor.x[indx:])
        patch(mm, "_solutions", _solutions)

    def m_window_minus_one():   # the look-back window reads generations-1 entries
        def _solutions(monitor, last=None):
            indx = last if (last is None or last < 2) else -(last - 1)
            if last is not None and last < 2: indx = -last
            return np.array(monitor.x[indx:])
        patch(mm, "_solutions", _solutions)

    def m_as_pair_reversed_mask():   # a pair mask only matches in the orientation given
        patch(ct, "_pair_selector", lambda mask: (lambda x: tuple(x) in mask))

    def m_weight_min():         # collapse_weight tests the smallest instead of the largest weight of the window
        def collapse_weight(stepmon, tolerance=0.005, generations=50, mask=None):
            weights = mm._weights(stepmon, generations).min(axis=0) <= tolerance
            mask, pairs = ct._weight_filter(mask)
            wts = (tuple(i) for i in np.where(weights) if len(i))
            if pairs: return mask(set(zip(*wts)))
            if pairs is None: return mask(wts)
            wts = np.array(tuple(wts))
            if not wts.size: return {}
            return mask(dict((i, set(wts[1][wts[0] == i])) for i in range(1 + wts[0][-1]) if i in wts[0]))
        patch(ct, "collapse_weight", collapse_weight)

    def m_position_dict_mask_oriented():   # collapse_position: a dict mask no longer matches reversed pairs
        patch(to, "_symmetric", lambda pairs: set(pairs))

    def m_condition_window():   # CollapseAt fires one generation early (lg <= generations  ->  lg < generations)
        def CollapseAt(target=None, tolerance=1e-4, generations=50, mask=None):
            kwds = {'tolerance': tolerance, 'generations': generations, 'target': target, 'mask': mask}
            doc = "CollapseAt with %s" % kwds

            def _CollapseAt(inst, info=False):
                info = (lambda x: x) if info else bool
                lg = len(inst.energy_history)
                if not lg or lg < generations: return info("")
                collapsed = ct.collapse_at(inst._stepmon, **kwds)
                if collapsed: return info(doc + ' at %s' % str(collapsed))
                return info("")
            _CollapseAt.__doc__ = doc
            _CollapseAt.__module__ = mt.__name__
            return _CollapseAt
        patch(mt, "CollapseAt", CollapseAt)

    def m_cost_mask_ignored():  # collapse_cost: the mask is not intersected with the bounds
        orig = ct.collapse_cost
        patch(ct, "collapse_cost", lambda stepmon, clip=False, limit=1.0, samples=50, mask=None: orig(stepmon, clip, limit, samples, None))

    # ---- masks -----------------------------------------------------------------------------------------
    def m_mask_replaced():      # update_mask replaces the mask instead of extending it
        patch(ma, "_extend_mask", lambda condition, mask: ma._replace_mask(condition, mask) if mask is not None else condition)

    # ---- the solver loop -------------------------------------------------------------------------------
    def m_no_constraint_update():   # Collapse() updates the termination's mask but not the constraints
        def Collapse(self, disp=False):
            collapses = self._AbstractSolver__get_collapses(disp)
            if collapses:
                state, termination = self._AbstractSolver__collapse_termination(collapses)
                self.SetTermination(termination)
            return collapses
        patch(AbstractSolver, "Collapse", Collapse)

    def m_no_mask_update():     # Collapse() updates the constraints but not the termination's mask
        def Collapse(self, disp=False):
            collapses = self._AbstractSolver__get_collapses(disp)
            if collapses:
                state, termination = self._AbstractSolver__collapse_termination(collapses)
                self.SetConstraints(self._AbstractSolver__collapse_constraints(state, collapses))
            return collapses
        patch(AbstractSolver, "Collapse", Collapse)

    def m_wrong_index():        # the pin is applied to the next parameter
        orig = cn.impose_at
        patch(cn, "impose_at", lambda index, target=0.0: orig([i + 1 for i in index], target))

    def m_tie_wrong_partner():  # a tied pair (i, j) is applied as (j+1, i): the partner index is confused
        orig = cn.impose_as
        patch(cn, "impose_as", lambda mask, offset=None: orig([(j + 1, i) for (i, j) in mask], offset))

    def m_pin_at_wrong_value():  # target=None: pinned at the value of the previous parameter of the best solution
        orig = to.select_params

        def select_params(params, index):
            idx, vals = orig(params, index)
            best = getattr(params, "bestSolution", None)
            if best is None: return idx, vals
            return idx, tuple(best[i - 1] + 0.5 for i in idx)
        patch(to, "select_params", select_params)

    def m_list_target_order():   # seeded C11b: per-parameter targets taken in sorted index order, indices walked in set order
        orig = cn.impose_at

        def impose_at(index, target=0.0):
            idx = list(index)
            if hasattr(target, "__len__") and len(target) == len(idx):
                target = [target[idx.index(j)] for j in sorted(idx)]
            return orig(index, target)
        patch(cn, "impose_at", impose_at)

    def m_best_value_order():    # target=None: the best solution's values taken in sorted index order, indices in set order
        orig = to.select_params

        def select_params(params, index):
            idx, vals = orig(params, index)
            pairs = dict(zip(idx, vals))
            return idx, tuple(pairs[j] for j in sorted(idx))
        patch(to, "select_params", select_params)

    def m_collapse_despite_stop():  # a collapse is applied although a stop condition holds as well
        def __get_collapses(self, disp=False):
            return self.Collapsed(disp=disp, info=True)
        patch(AbstractSolver, "_AbstractSolver__get_collapses", __get_collapses)

    def m_constraints_first_call_only():  # the collapsed constraint wears off: applied to the first evaluation only
        orig = AbstractSolver.Collapse

        def Collapse(self, disp=False):
            before = self._constraints
            r = orig(self, disp)
            if r:
                new, n = self._constraints, [0]

                def constraints(x):
                    n[0] += 1
                    return new(x) if n[0] <= 1 else before(x)
                self._constraints = constraints
            return r
        patch(AbstractSolver, "Collapse", Collapse)

    # ---- measure collapses in the solver loop (CollapseWeight / CollapsePosition, harness/c11_measure.py) -----------
    def m_measure_weight_almost_zero():   # a collapsed weight is left at 1e-300 instead of exactly 0.0
        orig = cn.impose_unweighted

        def impose_unweighted(index, samples, weights, nullable=True):
            pos, wts = orig(index, samples, weights, nullable)
            idx = set(len(wts) + i if i < 0 else i for i in (index or ()))
            return pos, [(1e-300 if (i in idx and w == 0.0) else w) for i, w in enumerate(wts)]
        patch(cn, "impose_unweighted", impose_unweighted)

    def m_measure_total_weight_lost():    # the collapsed weights are zeroed without giving what they held to the others
        def impose_unweighted(index, samples, weights, nullable=True):
            idx = set(len(weights) + i if i < 0 else i for i in (index or ()))
            return list(samples), [0.0 if i in idx else w for i, w in enumerate(weights)]
        patch(cn, "impose_unweighted", impose_unweighted)

    def m_measure_track_wrong_partner():  # a tracked pair (i, j) is applied to (i, j+1): the wrong position follows
        orig = cn.impose_collapse

        def impose_collapse(pairs, samples, weights):
            n = len(weights)
            return orig(set((i, (j + 1) % n) for (i, j) in pairs if (j + 1) % n != i) or set(pairs), samples, weights)
        patch(cn, "impose_collapse", impose_collapse)

    def m_measure_weight_collapse_dropped():   # Collapse() builds impose_measure from the position collapses only
        orig = cn.impose_measure
        patch(cn, "impose_measure", lambda npts, tracking={}, noweight={}: orig(npts, tracking, {}))

    def m_measure_dict_mask_replaced():   # update_mask: a dict mask (measure conditions) is replaced by the reported collapse
        orig = ma._extend_mask

        def _extend_mask(condition, mask):
            if type(mask) is dict and mask and all(type(v) is set for v in mask.values()):
                return ma._replace_mask(condition, mask)
            return orig(condition, mask)
        patch(ma, "_extend_mask", _extend_mask)

    def m_measure_npts_ignored():         # the solver does not look at the step monitor's `_npts`: no measure constraint is built
        orig = AbstractSolver._AbstractSolver__collapse_constraints

        def __collapse_constraints(self, state, collapses):
            mon = self._stepmon
            keep = getattr(mon, "_npts", None)
            try:
                mon._npts = None
                return orig(self, state, collapses)
            finally:
                mon._npts = keep
        patch(AbstractSolver, "_AbstractSolver__collapse_constraints", __collapse_constraints)

    mutants = [
        ("measure loop: a collapsed weight is left at 1e-300, not exactly 0.0", m_measure_weight_almost_zero),
        ("measure loop: collapsed weights zeroed without keeping the factor's total weight", m_measure_total_weight_lost),
        ("measure loop: tracked pair applied to the wrong partner position", m_measure_track_wrong_partner),
        ("measure loop: weight collapses dropped when the measure constraint is built", m_measure_weight_collapse_dropped),
        ("measure loop: update_mask replaces a dict mask instead of extending it", m_measure_dict_mask_replaced),
        ("measure loop: the step monitor's _npts is ignored (no measure constraint built)", m_measure_npts_ignored),
        ("collapse_at: '<= tolerance' becomes '<'", m_at_strict),
        ("collapse_as: mask not subtracted", m_as_mask_ignored),
        ("look-back window reads generations+1 entries", m_window_plus_one),
        ("look-back window reads generations-1 entries", m_window_minus_one),
        ("collapse_as: pair mask matches one orientation only", m_as_pair_reversed_mask),
        ("collapse_weight: min instead of max over the window", m_weight_min),
        ("collapse_position: dict mask matches one orientation only", m_position_dict_mask_oriented),
        ("CollapseAt fires one generation early", m_condition_window),
        ("collapse_cost: mask not intersected", m_cost_mask_ignored),
        ("update_mask replaces instead of extends", m_mask_replaced),
        ("Collapse() updates the mask but not the constraints", m_no_constraint_update),
        ("Collapse() updates the constraints but not the mask", m_no_mask_update),
        ("pin applied to the wrong index", m_wrong_index),
        ("tied pair applied to the wrong partner", m_tie_wrong_partner),
        ("target=None pins at a wrong value", m_pin_at_wrong_value),
        ("per-parameter targets and indices walked in different orders (C11b; shows for indices >= 8 only)", m_list_target_order),
        ("target=None: best values and indices walked in different orders (shows for indices >= 8 only)", m_best_value_order),
        ("collapse applied although a stop condition holds", m_collapse_despite_stop),
        ("collapsed constraint applied to the first evaluation only", m_constraints_first_call_only),
    ]
    return mutants, restore


def _classes(a, explore, new_check):
    import os
    ck = new_check(a)
    ck.dry = True
    ck.outdir = os.path.join(os.path.dirname(ck.outdir), "C11_selftest")
    buf = io.StringIO()
    err = None
    with contextlib.redirect_stdout(buf):
        try:
            explore(ck, a, light=True)
        except Exception as ex:       # a mutant that makes the machinery fall over is caught as well
            err = "check raised %r" % (ex,)
    keys = set(ck.viol_keys)
    if err:
        keys.add("raised:" + err[:80])
    return keys, ck.violations


def run(a, explore, new_check):
    import shutil, os
    from harness import c11_loop as L, c11_detect as D
    from harness import check_C11
    check_C11.TLC_CACHE = {}
    mutants, restore = _baseline_and_mutants(a, explore, new_check)
    base, nbase = _classes(a, explore, new_check)
    print("SELFTEST baseline (unchanged tree): %d violation classes: %s" % (len(base), sorted(base)))
    missed = 0
    only = os.environ.get("C11_SELFTEST_ONLY")          # development aid: run only the mutants whose name contains this
    for name, mut in mutants:
        if only and only not in name:
            continue
        mut()
        try:
            keys, n = _classes(a, explore, new_check)
        finally:
            restore()
        new = sorted(keys - base)
        print("SELFTEST %s: %s (%d new violation classes%s)" % (name, "caught" if new else "MISSED", len(new),
                                                                  (": " + "; ".join(new[:4])) if new else ""))
        sys.stdout.flush()
        missed += 0 if new else 1

    # ---- corrupt what TLC expects: one expected report of a detector case, one expected mask of a loop stop
    orig_replay = D.replay_state

    def corrupt_detector(mods, header, st, solver_every=7, emb=None):
        st = dict(st)
        if st["d"] and not corrupt_detector.done:
            d = [list(x) for x in st["d"]]
            d[0] = [] if d[0] else ([0] if header["mode"] == "param" else [[0, 0]] if header["mode"] == "weight" else [[0, [0, 1]]])
            st["d"] = d
            corrupt_detector.done = True
        return orig_replay(mods, header, st, solver_every, emb)
    corrupt_detector.done = False
    D.replay_state = corrupt_detector
    try:
        keys, n = _classes(a, explore, new_check)
    finally:
        D.replay_state = orig_replay
    new = sorted(keys - base)
    print("SELFTEST corrupted expected report of one detector case (TLC output): %s (%s)" % ("caught" if new else "MISSED", "; ".join(new[:3])))
    missed += 0 if new else 1

    orig_stop = L.replay_stop

    def corrupt_stop(mt, case, kind, points, emb=None):
        if case["ra"] and not corrupt_stop.done:
            case = dict(case)
            case["mk"] = dict(case["mk"], at={"none": False, "idx": []})
            corrupt_stop.done = True
        return orig_stop(mt, case, kind, points, emb)
    corrupt_stop.done = False
    L.replay_stop = corrupt_stop
    try:
        keys, n = _classes(a, explore, new_check)
    finally:
        L.replay_stop = orig_stop
    new = sorted(keys - base)
    print("SELFTEST corrupted expected mask of one loop stop (TLC output): %s (%s)" % ("caught" if new else "MISSED", "; ".join(new[:3])))
    missed += 0 if new else 1

    # ---- corrupt what TLC expects for a measure stop: one expected reported weight collapse, one pattern table
    from harness import c11_measure as Mz
    orig_mstop = Mz.replay_mstop

    def corrupt_mstop(field):
        def run_one(mt, case, kind, domain):
            if not run_one.done and case["rw"] and (field != "mbad" or (case["conf"]["initWt"]["fmt"] in ("none", "dict") and not case["script"])):
                case = dict(case)
                if field == "rw":
                    case["rw"] = case["rw"][:-1]
                else:        # every pattern of a factor with a collapsed weight is declared to break the zero-weight clause
                    m = case["rw"][0][0]
                    P = case["conf"]["npts"][1]
                    import itertools
                    case["mbad"] = [{"m": m, "w": list(w), "p": list(q), "mass": f, "why": ["collapsed-weight-zero[index-not-tracked]"]}
                                    for w in itertools.product((0, 1), repeat=P) for q in itertools.product(range(P), repeat=P) for f in (True, False)]
                run_one.done = True
            return orig_mstop(mt, case, kind, domain)
        run_one.done = False
        return run_one
    for field, what in (("rw", "expected reported weight collapse"), ("mbad", "expected table of relation-breaking patterns")):
        Mz.replay_mstop = corrupt_mstop(field)
        try:
            keys, n = _classes(a, explore, new_check)
        finally:
            Mz.replay_mstop = orig_mstop
        new = sorted(keys - base)
        print("SELFTEST corrupted %s of one measure loop stop (TLC output): %s (%s)" % (what, "caught" if new else "MISSED", "; ".join(new[:3])))
        missed += 0 if new else 1

    # ---- corrupt one recorded field of otherwise valid traces
    def corrupt_trace(field):
        orig_rec = L.record_run

        def rec(mt, spec):
            tr = orig_rec(mt, spec)
            for k, e in enumerate(tr):
                if field == "mask" and e["ev"] == "Collapse" and e["ra"]:
                    e = dict(e); e["after"] = dict(e["after"], at=dict(e["after"]["at"], idx=e["after"]["at"]["idx"][:-1]))
                    tr[k] = e; break
                if field == "point" and e["ev"] == "CostCall" and any(x["ev"] == "Collapse" and x["ra"] and x["vals"][x["ra"][0]] >= 0 for x in tr[:k]):
                    c = next(x for x in tr[:k] if x["ev"] == "Collapse" and x["ra"] and x["vals"][x["ra"][0]] >= 0)
                    e = dict(e); x = list(e["x"]); x[c["ra"][0]] = max(x) + 1000; e["x"] = x
                    tr[k] = e; break
            return tr
        L.record_run = rec
        try:
            return _classes(a, explore, new_check)
        finally:
            L.record_run = orig_rec
    for field, what in (("mask", "mask-after of one Collapse event"), ("point", "one evaluated point after a pin")):
        keys, n = corrupt_trace(field)
        new = sorted(keys - base)
        print("SELFTEST corrupted %s in the recorded traces: %s (%s)" % (what, "caught" if new else "MISSED", "; ".join(new[:3])))
        missed += 0 if new else 1
    shutil.rmtree(os.path.join(os.path.dirname(os.path.dirname(os.path.abspath(__file__))), "out", "C11_selftest"), ignore_errors=True)
    return 1 if missed else 0
