"""C06 -- a checkpointed solver resumes exactly as if it had never been interrupted; restored solvers and deep
copies are independent of the original and count their own evaluations.

Technique: model-based verification with an explicit TLA+ specification.

  specs/solver/Checkpoint.tla       state machine with several solver instances (reference, original, restored /
                                    copied ones), a store of snapshots (SaveSolver file, periodic dump, dill bytes),
                                    counter cells on a heap (sharing = equal addresses), the generator state as an
                                    explicit harness variable.  TLC checks ResumeEquivalence, Independence (action
                                    property) and CopyCounts over all interleavings of small instances, and REFUTES
                                    the named as-is designs (snapshot without internals, shared / detached counter
                                    cell of a copy, periodic dump in the middle of a step, ...).
  specs/solver/Gen_Checkpoint.tla   the same actions driven as crash / restore experiments: TLC enumerates every
                                    (kind, setting, interruption point k, path, generator handling, mode) and emits the
                                    command script together with what the specification says after every command.

spec -> code: every emitted script is executed on real solvers.  After EVERY command the full projection of every live
instance is taken and compared as the specification dictates:
  r >= 0   the acting instance equals, bit for bit, the uninterrupted reference run at generation r
  e        ... equals the listed other instances
  others   every other instance is unchanged (Independence)
  g,st,f   generation counter, stop verdict and (DE kinds, no ranges) evaluation counter as predicted
  counts   evaluations moved by exactly the number of real objective calls of the action (CopyCounts)
Where the specification claims nothing (generator deliberately not restored for a DE kind, re-clipping after a deep
copy under strict ranges, a re-configured instance) nothing is judged.

The ENSEMBLE solvers (LatticeSolver / BuckshotSolver / SparsitySolver: an instance whose private state is the vector of
its member solvers) are covered by specs/solver/CheckpointEns.tla + Gen_CheckpointEns.tla, bound by harness/c06_ens.py in
exactly the same way (every member is projected in full; real objective calls are counted per ensemble AND per member).
"""
import os, sys, io, json, copy, random, time, shutil, types, contextlib
import numpy as np
from harness.core import Check, tier_seed, assert_repo, main_guard
from harness.tlc import run_tlc
from harness import c06_costs as U
from harness import c06_ens as E

KINDS = ["DE", "DE2", "NM", "PW"]
DEK = ("DE", "DE2")
DIM = {"DE": 3, "DE2": 3, "NM": 3, "PW": 2}
X0 = {"NM": [0.8, -1.2, 1.1], "PW": [-1.2, 1.0]}
LO, HI = -1.5, 1.8
GEN = "solver/Gen_Checkpoint"
MCMOD = "solver/MC_Checkpoint"

# what the setting ids of Gen_Checkpoint.Catalogue mean concretely, beyond the abstract attributes (sf, em, lim, le,
# rg) that are taken from TLC's own catalogue print-out: constraint / penalty / monitor class / termination / objective
FLAVOUR = {
    1: dict(), 2: dict(), 3: dict(cons="pure", cost="bumpy"), 4: dict(cons="mystic"), 5: dict(pen=True, cost="bumpy"),
    6: dict(mon="Monitor", cost="wall"), 7: dict(mon="Verbose"), 8: dict(), 9: dict(), 10: dict(), 11: dict(cost="wall"),
    12: dict(mon="Monitor"), 13: dict(cons="pure", pen=True, mon="Monitor"), 14: dict(term="compound", cost="bumpy"),
    15: dict(mon="Verbose"), 16: dict(), 17: dict(mon="Monitor", cost="bumpy"), 18: dict(cons="pure"), 19: dict(pen=True),
}
DESCR = {1: "plain", 2: "strict ranges", 3: "pure-python constraint", 4: "mystic.symbolic constraint", 5: "penalty",
         6: "Monitor step+evaluation monitors", 7: "quiet VerboseMonitor step+evaluation monitors", 8: "generation limit",
         9: "evaluation limit (DE kinds)", 10: "save frequency 1", 11: "save frequency 2",
         12: "save frequency 3 + evaluation monitor", 13: "ranges+constraint+penalty+monitors+save frequency 2+limit",
         14: "compound termination Or(ChangeOverGeneration, VTR, When(VTR))", 15: "save frequency 1 + verbose monitors + limit",
         16: "strict ranges + save frequency 1 + limit (the stop is a dump generation)",
         17: "strict ranges + monitors + save frequency 2 + limit at an even generation (a dump generation)",
         18: "strict ranges + constraint + save frequency 3 + limit at a multiple of 3",
         19: "strict ranges + penalty + limit, no restart file"}

_CACHE = {}
_SHARED = {"scripts": None, "corrupt": None}     # inherited by forked workers (selftest only)


def _symbolic_constraint():
    if "symc" not in _CACHE:
        from mystic.symbolic import generate_constraint, generate_solvers, simplify
        _CACHE["symc"] = generate_constraint(generate_solvers(simplify("x0 + x1 <= 2.0")))
    return _CACHE["symc"]


def _penalty():
    if "pen" not in _CACHE:
        from mystic.penalty import quadratic_inequality
        _CACHE["pen"] = quadratic_inequality(U.pen_cond, k=100.0)(U.zero)
    return _CACHE["pen"]


def step_kw(kind, attrs, uninterrupted):
    """keywords of Step: in the settings with an odd id the DE kinds run a NON-DEFAULT mutation strategy the way Solve
    hands it on -- as a keyword of every Step of the uninterrupted run (reference and original).  The strategy is a
    sticky setting of the solver (solver.strategy holds its name): a restored or copied instance is continued with a
    bare Step(), as a user does who picks a run up from its restart file, and must go on with the same strategy"""
    if kind in DEK and attrs["id"] % 2 == 1 and uninterrupted:
        import mystic.strategy as st
        return {"strategy": st.Rand1Bin}
    return {}


def make_solver(kind, attrs, fileP, seed, NP):
    """a configured, never stepped solver; the generators are seeded first (DE initial points are random)"""
    import mystic.solvers as ms
    import mystic.termination as mt
    from mystic.monitors import Monitor, VerboseMonitor
    fl = FLAVOUR[attrs["id"]]
    # build the shared user callables BEFORE seeding: mystic.symbolic consumes random numbers while simplifying
    symc = _symbolic_constraint() if fl.get("cons") == "mystic" else None
    pen = _penalty() if fl.get("pen") else None
    random.seed(seed)
    np.random.seed(seed % (2 ** 32))
    dim = DIM[kind]
    if kind == "DE":
        s = ms.DifferentialEvolutionSolver(dim, NP)
    elif kind == "DE2":
        s = ms.DifferentialEvolutionSolver2(dim, NP)
    elif kind == "NM":
        s = ms.NelderMeadSimplexSolver(dim)
    else:
        s = ms.PowellDirectionalSolver(dim)
    if kind in DEK:
        s.SetRandomInitialPoints([-2.0] * dim, [2.0] * dim)
    else:
        s.SetInitialPoints(X0[kind])
    # Powell converges on the non-smooth objective within 5 generations: it always gets the Rosenbrock valley
    # "wall": an objective that is +inf on a half-space (DE kinds: members there keep the initial inf energy)
    s.SetObjective(U.bumpy if fl.get("cost") == "bumpy" and kind != "PW" else
                   U.wall if fl.get("cost") == "wall" and (kind == "DE" or (kind == "DE2" and attrs["em"])) else U.rosen)
    # (DE2 without an evaluation monitor counts the finite entries of the map's result: a cost that returns inf is then
    #  under-counted -- known finding of C04, keyed there; not mixed into the C06 clauses)
    never = mt.ChangeOverGeneration(tolerance=1e-300, generations=10 ** 6)
    if fl.get("term") == "compound":
        s.SetTermination(mt.Or(never, mt.VTR(1e-12, -1.0), mt.When(mt.VTR(1e-12, -2.0))))
    else:
        s.SetTermination(never)
    if attrs["rg"]:
        s.SetStrictRanges([LO] * dim, [HI] * dim)
    if fl.get("cons") == "pure":
        s.SetConstraints(U.cons_fold)
    elif fl.get("cons") == "mystic":
        s.SetConstraints(symc)
    if fl.get("pen"):
        s.SetPenalty(pen)
    if attrs["em"]:
        # the monitor classes and their cost multiplier k rotate with the seed: plain / verbose as the setting says, the
        # same with k=2 (stored costs are k*cost, reported ones cost), and the logging classes with k=2 writing to
        # scratch files next to the restart file (what a monitor pickles must restore the STORED values)
        from mystic.monitors import LoggingMonitor, VerboseLoggingMonitor
        verbose = fl.get("mon") == "Verbose"
        rot = (seed + attrs["id"] + len(kind)) % 3
        def M(tag):
            if rot == 0:
                return VerboseMonitor(0, 0) if verbose else Monitor()
            if rot == 1:
                return VerboseMonitor(0, 0, k=2) if verbose else Monitor(k=2)
            fn = "%s.%s.log" % (fileP, tag)
            return (VerboseLoggingMonitor(1, 0, filename=fn, new=True, k=2) if verbose
                    else LoggingMonitor(1, filename=fn, new=True, k=2))
        s.SetGenerationMonitor(M("step"))
        s.SetEvaluationMonitor(M("eval"))
    if attrs["sf"] > 0:
        s.SetSaveFrequency(attrs["sf"], fileP)
    if attrs["lim"] >= 0 or attrs["le"] >= 0:
        s.SetEvaluationLimits(generations=attrs["lim"] if attrs["lim"] >= 0 else None,
                              evaluations=attrs["le"] if attrs["le"] >= 0 else None)
    return s


# ------------------------------------------------------------------------------------------------ projection
def enc(x):
    """exact, NaN-aware encoding of a numeric value / array / nested list"""
    if x is None:
        return None
    try:
        a = np.asarray(x, dtype=np.float64)
    except (ValueError, TypeError):
        return ("ragged",) + tuple(enc(v) for v in x)
    if a.size:
        nan = np.isnan(a)
        if nan.any():
            a = a.copy()
            a[nan] = np.nan
    return (a.shape, a.tobytes())


def project(s, kind):
    """everything C06 talks about: populations, energies, best, counters, histories, monitor contents, the per-kind
    private iteration state, limits and the termination message.  Deliberately excluded: the registered restart file
    (_state), _live, monitor info lines (DUMPED/LOADED notes), the scratch trialSolution."""
    sm, em = s._stepmon, s._evalmon
    p = {
        "population": enc(s.population), "popEnergy": enc(s.popEnergy),
        "bestSolution": enc(s.bestSolution), "bestEnergy": enc(s.bestEnergy),
        "generations": int(s.generations), "evaluations": int(s.evaluations),
        "energy_history": enc(s.energy_history), "solution_history": enc(s.solution_history),
        "stepmon.x": enc(sm._x), "stepmon.y": enc(sm._y), "stepmon.id": tuple(sm._id), "stepmon.len": len(sm),
        "evalmon.x": enc(em._x), "evalmon.y": enc(em._y), "evalmon.id": tuple(em._id), "evalmon.len": len(em),
        "Terminated": s.Terminated(info=True),
        "limits": (repr(s._maxiter), repr(s._maxfun)),
        "nDim/nPop": (s.nDim, s.nPop),
    }
    if kind in DEK:
        p["genealogy"] = tuple(enc(g) for g in s.genealogy)
        p["DE.settings"] = (s.scale, s.probability, s.strategy)
    elif kind == "NM":
        p["NM.settings"] = (s.radius, s.adaptive)
    else:
        p["direc"] = enc(s._direc)
        it = s._PowellDirectionalSolver__internals
        p["internals"] = tuple(enc(v) for v in it)
        p["PW.settings"] = (s.xtol, s.imax)
    return p


def diff(a, b):
    return sorted(k for k in set(a) | set(b) if a.get(k) != b.get(k))


def getrng():
    return (random.getstate(), np.random.get_state())


def setrng(st):
    random.setstate(st[0])
    np.random.set_state(st[1])


def seeded(seed):
    random.seed(seed)
    np.random.seed(seed % (2 ** 32))
    return getrng()


# the ensemble binding projects every member with project() and handles the generators the same way
E.H = types.SimpleNamespace(project=project, enc=enc, diff=diff, getrng=getrng, setrng=setrng, seeded=seeded)


# ------------------------------------------------------------------------------------------------ execution
def raise_limit(solver, gens, n, nw):
    """continue a stopped run (the specification's Raised configuration): generation limit n+10, evaluation limit out of
    reach; nw=0 as totals (new=False), nw=1 relative to the present counters (new=True) -- the same resulting limits"""
    if nw:
        solver.SetEvaluationLimits(generations=n + 10 - gens, evaluations=10 ** 6 - solver.evaluations, new=True)
    else:
        solver.SetEvaluationLimits(generations=n + 10, evaluations=10 ** 6)


class Inst(object):
    __slots__ = ("solver", "ctx", "ctxlog", "rngAt", "how", "proj")

    def __init__(self, solver, ctx, how):
        self.solver, self.ctx, self.how = solver, ctx, how
        self.ctxlog = {}
        self.rngAt = None
        self.proj = None


class Group(object):
    """one (kind, setting): the reference run is executed once and kept alive; every script gets a fresh original"""

    def __init__(self, kind, attrs, n, NP, seed, scratch):
        self.kind, self.attrs, self.n, self.NP, self.seed = kind, attrs, n, NP, seed
        self.scratch = scratch
        self.fileR = os.path.join(scratch, "ref.pkl")
        self.fileP = os.path.join(scratch, "periodic.pkl")
        self.fileF = os.path.join(scratch, "explicit.pkl")
        self.viol = []
        self.ref = None
        self.A = []
        self.refs = {}

    # -- the reference: the uninterrupted run (driven into its stop, limit raised, continued -- as TLC's reflog says),
    # -- projected after every one of its commands
    def _drive(self, refops, nw, check):
        s = make_solver(self.kind, self.attrs, self.fileR, self.seed, self.NP)
        ctx = getrng()
        out = []
        g = -1
        for m, c in enumerate(refops):
            setrng(ctx)
            if c == "step":
                c0, e0 = U.CALLS[0], s.evaluations
                s.Step(**step_kw(self.kind, self.attrs, True))
                g += 1
                if check and s.evaluations - e0 != U.CALLS[0] - c0:
                    self.report("counts:%s:reference" % self.kind, None, None,
                                "reference run: evaluations moved by %d, real calls %d at generation %d" % (
                                    s.evaluations - e0, U.CALLS[0] - c0, g))
            else:
                raise_limit(s, g, self.n, nw)
            ctx = getrng()
            out.append(project(s, self.kind))
        return s, out

    def reference(self, refops, nw):
        key = (tuple(refops), nw)
        if key not in self.refs:
            s, A = self._drive(refops, nw, True)
            # premise "same configuration and generator state => same run": the reference must be reproducible
            s2, A2 = self._drive(refops, nw, False)
            for m in range(len(A)):
                if A[m] != A2[m]:
                    raise RuntimeError("reference run of %s setting %s is not reproducible at command %d: %s" % (
                        self.kind, self.attrs["id"], m, diff(A[m], A2[m])))
            self.refs[key] = (s, A)
        self.ref, self.A = self.refs[key]

    def report(self, key, sc, at, what, extra=None):
        self.viol.append((key, {"kind": self.kind, "setting": self.attrs, "setting_means": DESCR[self.attrs["id"]],
                                "n": self.n, "NP": self.NP, "seed": self.seed, "script": sc, "at_command": at,
                                "extra": extra}, what))

    # -- one script
    def run_script(self, sc):
        kind = self.kind
        hdrtxt = "%s setting %d (%s) k=%d%s path=%s rng=%s mode=%s" % (
            kind, sc["sid"], DESCR[sc["sid"]], sc["k"], " (AT THE STOP)" if sc["atstop"] else "", sc["path"], sc["rng"], sc["mode"])
        for f in (self.fileP, self.fileF):
            if os.path.exists(f):
                os.remove(f)
        insts = {}
        o = Inst(make_solver(kind, self.attrs, self.fileP, self.seed, self.NP), None, "orig")
        o.ctx = getrng()
        insts[2] = o
        dbytes = [None]
        claims = 0
        try:
            self.reference(sc["refops"], sc["nw"])
        except RuntimeError:
            raise
        except Exception as ex:      # mystic itself raised while the uninterrupted reference ran: a violation, not a
            self.report("raises:%s:reference-run:%s" % (kind, type(ex).__name__), sc, -1,      # machinery failure
                        "%s: the uninterrupted reference run raised %r" % (hdrtxt, ex))
            return claims

        for n, op in enumerate(sc["ops"]):
            c, x, y = op["c"], op["x"], op["y"]
            where = "%s, command #%d %s(x=%d)" % (hdrtxt, n, c, x)
            before = {i: b.proj for i, b in insts.items()}
            try:
                if c == "step":
                    b = insts[x]
                    setrng(b.ctx)
                    c0, e0 = U.CALLS[0], b.solver.evaluations
                    msg = b.solver.Step(**step_kw(kind, self.attrs, b.how == "orig"))
                    b.ctx = getrng()
                    b.ctxlog[op["g"]] = b.ctx        # keyed by the generation the specification says this is
                    real, moved = U.CALLS[0] - c0, b.solver.evaluations - e0
                    if real != moved:
                        self.report("counts:%s:%s" % (kind, b.how), sc, n,
                                    "%s: evaluations moved by %d but the instance's objective was really called %d times"
                                    % (where, moved, real), {"evaluations": b.solver.evaluations})
                    if bool(msg) != op["st"]:
                        self.report("predict:%s:stop" % kind, sc, n, "%s: Step returned %r, specification says stopped=%s"
                                    % (where, msg, op["st"]))
                elif c == "saveF":
                    b = insts[x]
                    setrng(b.ctx)
                    b.solver.SaveSolver(self.fileF)
                    b.ctx = getrng()
                elif c == "saveD":
                    import dill
                    b = insts[x]
                    setrng(b.ctx)
                    dbytes[0] = dill.dumps(b.solver)
                    b.ctx = getrng()
                elif c in ("loadF", "loadP", "loadD"):
                    import dill
                    from mystic.solvers import LoadSolver
                    if c == "loadD":
                        s = dill.loads(dbytes[0])
                    else:
                        s = LoadSolver(self.fileF if c == "loadF" else self.fileP)
                    b = Inst(s, getrng(), "restored-" + c[-1])
                    # the generator state that was current when the snapshot was written: writer y, generation g
                    b.rngAt = insts[y].ctxlog.get(op["g"])
                    insts[x] = b
                elif c == "copy":
                    src = insts[y]
                    setrng(src.ctx)
                    s = copy.deepcopy(src.solver)
                    src.ctx = getrng()
                    b = Inst(s, getrng(), "deepcopy")
                    b.rngAt = src.ctx
                    insts[x] = b
                elif c == "rrng":
                    b = insts[x]
                    if b.rngAt is None:
                        raise RuntimeError("%s: no generator state recorded for the snapshot" % where)
                    b.ctx = b.rngAt
                elif c == "scr":
                    insts[x].ctx = seeded(7000 + 13 * x + self.seed)
                elif c == "relimit":
                    b = insts[x]
                    b.solver.SetEvaluationLimits(generations=y, evaluations=b.solver._maxfun)
                elif c == "raise":
                    b = insts[x]
                    setrng(b.ctx)
                    raise_limit(b.solver, op["g"], self.n, sc["nw"])
                    b.ctx = getrng()
                else:
                    raise RuntimeError("unknown command %r" % (op,))
            except RuntimeError:
                raise
            except Exception as ex:
                self.report("raises:%s:%s:%s" % (kind, c, type(ex).__name__), sc, n, "%s raised %r" % (where, ex))
                return claims
            b = insts[x]
            for i, bb in insts.items():
                bb.proj = project(bb.solver, kind)
            path = sc["path"]
            # predicted counters
            if b.proj["generations"] != op["g"]:
                self.report("predict:%s:%s:generations" % (kind, c), sc, n, "%s: generations=%d, specification says %d"
                            % (where, b.proj["generations"], op["g"]))
            if kind in DEK and not self.attrs["rg"] and b.proj["evaluations"] != op["f"]:
                self.report("predict:%s:%s:evaluations" % (kind, c), sc, n, "%s: evaluations=%d, specification says %d"
                            % (where, b.proj["evaluations"], op["f"]))
            # equal to the uninterrupted run where the specification says so
            if op["r"] >= 0:
                claims += 1 if (c == "step" and x >= 3) else 0
                if op["r"] >= len(self.A):
                    raise RuntimeError("%s: reference index %d out of range" % (where, op["r"]))
                d = diff(b.proj, self.A[op["r"]])
                if d:
                    cls = "resume" if b.how.startswith("restored") else "copy-resume" if b.how == "deepcopy" else "original"
                    self.report("%s:%s:%s:%s:%s" % (cls, kind, path, c, "+".join(d[:4])), sc, n,
                                "%s: instance %d (%s) differs from the uninterrupted run (after its command #%d, generation %d) in: %s"
                                % (where, x, b.how, op["r"], self.A[op["r"]]["generations"], ", ".join(d)),
                                {"generations": b.proj["generations"], "evaluations": b.proj["evaluations"],
                                 "reference_evaluations": self.A[op["r"]]["evaluations"]})
            for z in op["e"]:
                zproj, zhow = (self.A[-1], "reference") if z == 1 else (insts[z].proj, insts[z].how)
                d = diff(b.proj, zproj)
                if d:
                    self.report("equal:%s:%s:%s:%s" % (kind, path, c, "+".join(d[:4])), sc, n,
                                "%s: instance %d (%s) must equal instance %d (%s) but differs in: %s"
                                % (where, x, b.how, z, zhow, ", ".join(d)))
            # Independence: nobody else moved; Save / generator commands do not move the instance itself either
            for i, bb in insts.items():
                if i not in before or (i == x and c in ("step", "relimit", "raise")):
                    continue
                d = diff(bb.proj, before[i])
                if d:
                    self.report("independence:%s:%s:%s:%s" % (kind, path, c, "+".join(d[:4])), sc, n,
                                "%s: instance %d (%s) changed although instance %d acted; changed: %s"
                                % (where, i, bb.how, x, ", ".join(d)))
        # the reference was never touched by any of this
        d = diff(project(self.ref, kind), self.A[-1])
        if d:
            self.report("independence:%s:reference:%s" % (kind, "+".join(d[:4])), sc, None,
                        "%s: the reference instance changed during the script: %s" % (hdrtxt, ", ".join(d)))
            self.A[-1] = project(self.ref, kind)
        return claims


def n_for(kind, attrs, tier):
    """run length n of a group.  Every periodic dump is a full dill pickle of the solver (10-60 ms inside mystic), so the
    groups that dump every generation, and Powell with an evaluation monitor (thousands of records), get shorter runs"""
    if tier == "quick":
        return 8
    if kind == "PW" and attrs["em"]:
        return 12
    if kind == "PW" and attrs["id"] == 4:      # the symbolic constraint runs in every one of Powell's ~35 evaluations per step
        return 16
    if attrs["sf"] == 1:
        return 16
    if attrs["sf"] > 1:
        return 20
    return 25


def run_group(job):
    """worker: generate the scripts of one (kind, setting) with TLC, execute them; returns plain data"""
    kind, sid, tier, seed, n = job
    scripts_in = None if _SHARED["scripts"] is None else _SHARED["scripts"].get((kind, sid))
    corrupt = _SHARED["corrupt"]
    t0 = time.time()
    res = {"kind": kind, "sid": sid, "viol": [], "scripts": 0, "claims": 0, "nontrivial": [], "mc": None, "sample": None,
           "steps": 0, "atstop": 0}
    if scripts_in is None:
        r = run_tlc(GEN, cfg="Gen_Checkpoint_%s.cfg" % tier, workers=1, timeout=3000, heap="3g",
                    env={"C06_KIND": kind, "C06_SID": sid, "C06_N": n})
        res["mc"] = {"generated": r.generated, "distinct": r.distinct, "depth": r.depth, "wall_s": r.wall_s,
                     "violated": r.violated, "out": r.out[-3000:] if r.violated else ""}
        printed = r.printed
    else:
        printed = scripts_in
    res["tlc_s"] = round(time.time() - t0, 1)
    if not printed or "catalogue" not in printed[0]:
        raise RuntimeError("Gen_Checkpoint printed no catalogue for %s/%s" % (kind, sid))
    head = printed[0]
    cat = [c for c in head["catalogue"] if c["id"] == sid]
    if len(cat) != 1:
        raise RuntimeError("setting %s not in TLC's catalogue" % sid)
    attrs = cat[0]
    scripts = printed[1:]
    if corrupt:
        scripts = corrupt(scripts)
    scratch = "/dev/shm/c06_%d_%s_%d" % (os.getpid(), kind, sid)
    shutil.rmtree(scratch, ignore_errors=True)
    os.makedirs(scratch)
    devnull = open(os.devnull, "w")
    try:
        with contextlib.redirect_stdout(devnull):
            g = Group(kind, attrs, head["n"], head["np"], seed * 7919 + 11, scratch)
            for sc in scripts:
                if sc["kind"] != kind or sc["sid"] != sid:
                    raise RuntimeError("script of another group")
                claims = g.run_script(sc)
                res["scripts"] += 1
                res["claims"] += claims
                res["steps"] += sum(1 for op in sc["ops"] if op["c"] == "step")
                if claims:
                    res["nontrivial"].append((kind, sid, sc["k"], sc["path"], sc["rng"], sc["mode"], sc["nw"],
                                              len(sc["ops"])))
                    if sc["atstop"]:
                        res["atstop"] += 1
    finally:
        devnull.close()
        shutil.rmtree(scratch, ignore_errors=True)
    res["viol"] = g.viol[:400]
    res["nviol"] = len(g.viol)
    if scripts:
        stops = [x for x in scripts if x["atstop"] and x["path"] == "P"]
        sc = stops[0] if stops else scripts[len(scripts) // 2]
        res["sample"] = {"kind": kind, "setting": DESCR[sid], "k": sc["k"], "path": sc["path"], "rng": sc["rng"],
                         "mode": sc["mode"], "checkpoint_at_the_stop": sc["atstop"], "reference_commands": sc["refops"],
                         "commands_with_spec_verdicts": sc["ops"][max(0, sc["k"] - 1):sc["k"] + 7]}
    res["wall_s"] = round(time.time() - t0, 1)
    return res


def run_any(job):
    """pool worker: a (kind, setting) group of the single solvers, or an ensemble group (job[0] == "ENS")"""
    if job[0] == "ENS":
        return E.run_group(job, _SHARED)
    return run_group(job)


def ens_jobs(tier, seed):
    """ensemble groups of the thorough tier: one per (kind, setting), each with a TLC run of its own (the quick tier takes
    them from one pre-generated TLC run per ensemble kind, see explore)"""
    r = run_tlc(E.GEN, cfg="Gen_CheckpointEns_thorough.cfg", workers=1, env={"C06_LIST": "1"}, timeout=600)
    ids = sorted(c["id"] for c in r.printed[0]["catalogue"])
    for i in ids:
        if i not in E.FLAVOUR:
            raise RuntimeError("TLC ensemble catalogue has setting %s unknown to the harness" % i)
    return [("ENS", k, i, tier, seed, part, E.nparts(k, i, tier)) for k in E.EKINDS for i in ids
            for part in range(E.nparts(k, i, tier))]


# ------------------------------------------------------------------------------------------------ design (TLC only)
VARIANTS = [   # refuted design -> properties TLC must violate for it
    ("snap_omits_internals", ["ResumeEquivalence"]),
    ("load_resets_counter", ["ResumeEquivalence"]),
    ("load_drops_stepmon", ["ResumeEquivalence"]),
    ("copy_shares_counter", ["Independence", "CopyCounts"]),
    ("copy_detached_counter", ["CopyCounts"]),
    ("dump_midstep", ["ResumeEquivalence"]),
    ("forced_dump_skipped", ["ResumeEquivalence"]),
]
WITNESSES = ["NeverResumedCompared", "NeverCopyCompared", "NeverPeriodicRestore", "NeverUnrestored", "NeverPerturbed",
             "NeverForcedDump", "NeverTwoFromOne", "NeverStopRestoredContinued", "NeverStopRestoredNonDividing"]


def design_runs(tier, jobs):
    """list of (name, module, cfg, workers, expectation) -- expectation None = must pass, else set of acceptable names"""
    runs = [("MC_Checkpoint(%s)" % tier, "MC_Checkpoint_%s.cfg" % tier, min(jobs, 4), None)]
    if tier == "thorough":
        runs.append(("MC_Checkpoint(thorough, 3 further settings)", "MC_Checkpoint_thoroughT.cfg", min(jobs, 4), None))
        runs.append(("MC_Checkpoint(the stop: restore at the stop, raise, continue)", "MC_Checkpoint_thoroughS.cfg", min(jobs, 4), None))
        runs.append(("MC_Checkpoint(4 instances)", "MC_Checkpoint_thorough4.cfg", min(jobs, 4), None))
    for d, props in VARIANTS:
        for p in props:
            runs.append(("asis:%s:%s" % (d, p), "MC_Checkpoint_asis_%s_%s.cfg" % (d, p), 1, {p}))
    for w in WITNESSES:
        runs.append(("witness:%s" % w, "MC_Checkpoint_wit_%s.cfg" % w, 1, {w}))
    return runs


def run_design(ck, tier, jobs, ens=True):
    from concurrent.futures import ThreadPoolExecutor
    runs = [(name, MCMOD, cfg, workers, expect) for name, cfg, workers, expect in design_runs(tier, jobs)]
    if ens:
        runs += E.design_runs(tier, jobs)

    def one(run):
        name, mod, cfg, workers, expect = run
        return run, run_tlc(mod, cfg=cfg, workers=workers, timeout=3000, heap="6g" if expect is None else "2g")
    refuted, witnessed = {}, {}
    # one executor of three threads; the exhaustive (multi-threaded) runs are spread between the small refutation /
    # witness runs so that they do not all start at once
    big = [r for r in runs if r[4] is None]
    small = [r for r in runs if r[4] is not None]
    order, per = [], (len(small) + len(big) - 1) // max(1, len(big))
    for i, b in enumerate(big):
        order += [b] + small[i * per:(i + 1) * per]
    order += small[len(big) * per:]
    with ThreadPoolExecutor(max(1, min(4 if ens else 3, jobs // 2))) as ex:
        done = list(ex.map(one, order))
    for (name, mod, cfg, workers, expect), r in done:
        if True:
            if expect is None:
                ck.mc(r, name)
                if r.violated:
                    ck.violation("spec:" + r.violated, {"tlc": r.out[-4000:], "cfg": cfg},
                                 "TLC: %s violated in the design of %s (%s)" % (r.violated, mod, cfg))
            elif name.startswith("asis:"):
                refuted[name[5:]] = r.violated
                if r.violated not in expect:
                    ck.violation("spec:vacuous:" + name, {"tlc": r.out[-2000:]},
                                 "the refuted design %s passes %s: the property is vacuous" % (cfg, sorted(expect)))
            else:
                witnessed[name[8:]] = r.violated
                if r.violated not in expect:
                    ck.violation("spec:unreachable:" + name, {"tlc": r.out[-2000:]},
                                 "vacuity witness %s is not reachable (%s)" % (name, cfg))
    ck.extra["asis_designs_refuted_by"] = refuted
    ck.extra["vacuity_witnesses_reached"] = sorted(k for k, v in witnessed.items() if v)


# ------------------------------------------------------------------------------------------------ main
RULE = ("every (solver kind, setting, interruption generation k, checkpoint path F=SaveSolver+LoadSolver / P=periodic "
        "SetSaveFrequency dump+LoadSolver / D=dill / C=deepcopy, generator restored or scrambled, mode) script emitted by "
        "TLC from Gen_Checkpoint.tla is executed on real solvers; a case = one script; after every command the full "
        "projection of all live instances is compared as the specification says (equal to the uninterrupted run / "
        "unchanged / counters). non-trivial = the restored or copied instance took at least one further step for which "
        "the specification claims equality with the uninterrupted run. Ensembles (lattice / buckshot / sparsity of Nelder-Mead "
        "or Powell members): the same with scripts from Gen_CheckpointEns.tla; commands are Step() and Solve() of the "
        "ensemble, every member is compared in full and counts its own real calls")


def groups_for(tier):
    r = run_tlc(GEN, cfg="Gen_Checkpoint_%s.cfg" % tier, workers=1, env={"C06_LIST": "1"}, timeout=600)
    head = r.printed[0]
    groups = []
    for c in sorted(head["catalogue"], key=lambda c: c["id"]):
        if c["id"] not in FLAVOUR:
            raise RuntimeError("TLC catalogue has setting %s unknown to the harness" % c["id"])
        for kind in KINDS:
            if c["dk"] and kind not in DEK:
                continue
            groups.append((kind, c["id"], n_for(kind, c, tier)))
    return head, groups


def explore(ck, a, only=None, design=True, ens=True):
    """only: filter on the single-solver groups (kind, setting, n); ens: True = all ensemble groups, False = none, or a
    filter on the ensemble jobs ("ENS", kind, setting, tier, seed, part, nparts)"""
    assert_repo()
    tier = a.tier
    jobs = max(1, int(a.jobs))
    import threading
    import multiprocessing as mp
    head, groups = groups_for(tier)
    if only:
        groups = [g for g in groups if only(g)]
    # heavy groups first (Powell pickles large evaluation monitors)
    groups.sort(key=lambda g: (g[0] != "PW", g[1]))
    jl = [(k, sid, tier, a.seed, n) for k, sid, n in groups]
    pregen = []
    epregen = []
    own_cache = False
    phase = {"t0": time.time()}
    if tier == "quick":
        # quick: one TLC run per solver kind / ensemble kind (all settings) instead of one per group -- JVM start-up
        # dominates there; the groups then take their scripts from the cache the forked workers inherit
        from concurrent.futures import ThreadPoolExecutor
        if _SHARED["scripts"] is None:
            _SHARED["scripts"] = {}
            own_cache = True
            kinds = sorted(set(g[0] for g in groups))
        else:
            kinds = []
        cache = _SHARED["scripts"]
        ekinds = [k for k in E.EQUICK if ens and not any(key[0] == "ENS" and key[1] == k for key in cache)]

        def gen(task):
            what, kind = task
            if what == "E":
                return task, E.gen_scripts(kind, "quick")
            return task, run_tlc(GEN, cfg="Gen_Checkpoint_quick.cfg", workers=1, timeout=3000, heap="3g",
                                 env={"C06_KIND": kind, "C06_N": groups[0][2]})
        tasks = [("E", k) for k in ekinds] + [("S", k) for k in kinds]
        if tasks:
            with ThreadPoolExecutor(min(len(tasks), jobs)) as ex:
                for (what, kind), r in ex.map(gen, tasks):
                    if what == "E":
                        epregen.append((kind, r))
                        for c in r.printed[0]["catalogue"]:
                            cache[("ENS", kind, c["id"])] = [r.printed[0]]
                        for sc in r.printed[1:]:
                            cache[("ENS", kind, sc["sid"])].append(sc)
                    else:
                        pregen.append((kind, r))
                        for sc in r.printed[1:]:
                            cache.setdefault((kind, sc["sid"]), [r.printed[0]]).append(sc)
        ejl = [("ENS", key[1], key[2], tier, a.seed, part, E.nparts(key[1], key[2], tier))
               for key in sorted(k for k in cache if k[0] == "ENS") for part in range(E.nparts(key[1], key[2], tier))] if ens else []
    else:
        ejl = ens_jobs(tier, a.seed) if ens else []
    ejl = [j for j in ejl if ens is True or ens(j)]
    # the slowest ensemble groups first: sparsity (sampling the starting points), then those that pickle at every step
    ejl.sort(key=lambda j: (j[1] != "SNM", j[2] not in (105, 108), j[1], j[2]))
    jl = ejl + jl
    phase["pregen"] = round(time.time() - phase["t0"], 1)
    nproc = max(1, min(len(jl), jobs - (3 if design else 0)))
    pool = mp.get_context("fork").Pool(nproc) if nproc > 1 else None      # fork before any thread exists
    th = None
    failed = []
    try:
        if design:
            def guarded():
                try:
                    run_design(ck, tier, jobs, ens=bool(ejl))
                except BaseException as ex:        # machinery failures of the design runs must not be lost
                    failed.append(ex)
                phase["design_done"] = round(time.time() - phase["t0"], 1)
            th = threading.Thread(target=guarded)
            th.start()
        results = pool.map(run_any, jl, chunksize=1) if pool else [run_any(j) for j in jl]
        phase["groups_done"] = round(time.time() - phase["t0"], 1)
    finally:
        if pool:
            pool.close()
            pool.join()
        if th:
            th.join()
    if own_cache:
        _SHARED["scripts"] = None
    if failed:
        raise failed[0]
    for kind, r in epregen:
        ck.mc(r, "Gen_CheckpointEns[%s, all quick settings]" % kind)
        if r.violated:
            ck.violation("spec:gen:ens:" + r.violated, {"tlc": r.out[-3000:]},
                         "TLC: %s violated in Gen_CheckpointEns for %s" % (r.violated, kind))
    for kind, r in pregen:
        ck.mc(r, "Gen_Checkpoint[%s, all quick settings]" % kind)
        if r.violated:
            ck.violation("spec:gen:" + r.violated, {"tlc": r.out[-3000:]},
                         "TLC: %s violated in Gen_Checkpoint for %s" % (r.violated, kind))
    del phase["t0"]
    ck.extra["phases_done_at_s(pregen,groups,design)"] = phase
    eres = [r for r in results if r.get("ens")]
    results = [r for r in results if not r.get("ens")]
    merge_ens(ck, eres, tier)
    nsteps = 0
    for res in results:
        if res["mc"]:
            ck.mc(res["mc"], "Gen_Checkpoint[%s,%d]" % (res["kind"], res["sid"]))
            if res["mc"]["violated"]:
                ck.violation("spec:gen:" + res["mc"]["violated"], {"tlc": res["mc"]["out"]},
                             "TLC: %s violated in Gen_Checkpoint for %s setting %d" % (res["mc"]["violated"], res["kind"], res["sid"]))
        ck.case(n=res["scripts"] - len(res["nontrivial"]))
        for key in res["nontrivial"]:
            ck.case(nontrivial=True, key=tuple(key))
        ck.trace(res["scripts"])
        nsteps += res["steps"]
        for key, detail, what in res["viol"]:
            ck.violation(key, detail, what)
        if res["sample"] and (res["kind"], res["sid"]) in (("NM", 16), ("DE", 17), ("PW", 13), ("DE2", 9)):
            ck.sample(res["sample"])
    if design:
        # copy.copy is a shallow copy: it shares the counter cell and the monitors with the original by construction
        # (the specification's refuted design copy_shares_counter), hence it is recorded here and not judged
        probe = make_solver("NM", [c for c in head["catalogue"] if c["id"] == 1][0], os.devnull, 1, head["np"])
        probe.Step()
        sh = copy.copy(probe)
        ck.extra["copy.copy_shares_counter_and_monitors(not judged)"] = bool(sh._fcalls is probe._fcalls and sh._stepmon is probe._stepmon)
    ck.extra["groups(kind,setting)"] = len(results)
    ck.extra["scripts"] = sum(r["scripts"] for r in results)
    ck.extra["steps_compared_after_checkpoint"] = nsteps
    ck.extra["claims_equal_to_uninterrupted_run"] = sum(r["claims"] for r in results)
    nstop = sum(r["atstop"] for r in results)
    ck.extra["scripts_restoring_the_checkpoint_taken_at_the_stop_and_continuing"] = nstop
    if results and not nstop and not only and not _SHARED["corrupt"]:
        ck.violation("spec:unreachable:atstop", {}, "no script restores a checkpoint taken at the stop of a run and continues it")
    ck.extra["settings"] = {str(c["id"]): DESCR[c["id"]] for c in head["catalogue"]}
    ck.extra["run_length_n(kind,setting)"] = {"%s,%d" % (k, sid): n for k, sid, n in groups}
    ck.extra["slowest_groups"] = sorted(((r["wall_s"], r["kind"], r["sid"]) for r in results), reverse=True)[:6]
    ck.extra["sum_group_wall_s"] = round(sum(r["wall_s"] for r in results), 1)
    return results


def merge_ens(ck, eres, tier):
    """evidence of the ensemble part"""
    if not eres:
        return
    for res in eres:
        tag = "%s,%s" % (res["kind"], "all %s settings" % tier if res["sid"] is None else res["sid"])
        if res["mc"]:
            ck.mc(res["mc"], "Gen_CheckpointEns[%s]" % tag)
            if res["mc"]["violated"]:
                ck.violation("spec:gen:ens:" + res["mc"]["violated"], {"tlc": res["mc"]["out"]},
                             "TLC: %s violated in Gen_CheckpointEns for %s" % (res["mc"]["violated"], tag))
        ck.case(n=res["scripts"] - len(res["nontrivial"]))
        for key in res["nontrivial"]:
            ck.case(nontrivial=True, key=tuple(key))
        ck.trace(res["scripts"])
        for key, detail, what in res["viol"]:
            ck.violation(key, detail, what)
    for kind in ("LNM", "BPW"):
        got = [r["sample"] for r in eres if r["kind"] == kind and r["sample"]]
        if got:
            ck.sample(got[0])
    nstop = sum(r["atstop"] for r in eres)
    ck.extra["ensembles"] = {
        "kinds": {k: E.EDESCR[k] for k in sorted(set(r["kind"] for r in eres))},
        "settings": {str(i): E.DESCR[i] for i in sorted(E.DESCR) if tier == "thorough" or i not in (101, 108)},
        "groups": len(set((r["kind"], r["sid"]) for r in eres)), "jobs": len(eres),
        "scripts": sum(r["scripts"] for r in eres),
        "public_calls_compared(Step/Solve)": sum(r["steps"] for r in eres),
        "of_which_Solve": sum(r["solves"] for r in eres),
        "member_states_compared": sum(r["member_steps"] for r in eres),
        "claims_equal_to_uninterrupted_ensemble": sum(r["claims"] for r in eres),
        "scripts_restoring_the_checkpoint_taken_at_the_stop": nstop,
        "slowest_groups": sorted(((r["wall_s"], r["kind"], str(r["sid"])) for r in eres), reverse=True)[:4],
        "not_claimed": "continuing a stopped ensemble by raising its limits (SetEvaluationLimits on the ensemble does not "
                       "reach the members, nothing documents it): a stopped ensemble only refuses further calls",
    }
    if not nstop and not _SHARED["corrupt"] and any(r["scripts"] for r in eres):
        ck.violation("spec:unreachable:ens:atstop", {}, "no ensemble script restores a checkpoint taken at the stop and calls it again")


def new_check(a):
    ck = Check("C06", "model_checking", a.tier, a.seed, rule=RULE)
    ck.exhaustive = True
    ck.assumptions = [
        "the premise 'same random-generator state' is realised by saving random.getstate()/numpy.random.get_state() "
        "when the snapshot is written and installing it before the restored instance continues; the harness installs "
        "each instance's own generator state before every call on it",
        "where the generator is deliberately not restored (DE kinds) the specification claims nothing about the "
        "trajectory and nothing is judged there; for Nelder-Mead and Powell equality is required regardless",
        "a deep copy is marked not live and re-wraps its objective at its first Step; under strict ranges that re-clips "
        "the population (draws random numbers for DE, rebuilds the simplex for Nelder-Mead) - the specification models "
        "this and claims no trajectory equality for such copies (independence and counting are still judged)",
        "user termination conditions never fire inside the run (stops come from generation / evaluation limits, which "
        "the specification predicts); costs are finite; copy.copy is a shallow copy that shares state by definition "
        "(the specification's refuted design copy_shares_counter) and is not judged",
        "ensembles: driven through the in-process serial map c06_costs.cmap (members run in member order, as with the "
        "default map), class-API nested solvers; the only user termination that fires is the harness's StopMember (a "
        "deterministic function of the member's id and generation) which the specification predicts; continuing a stopped "
        "ensemble by raising its limits is not claimed (the API does not pass the new limits to the members)",
    ]
    return ck


def selftest(a):
    assert_repo()
    from harness.srcpatch import patch
    import mystic.abstract_solver as AS_
    import mystic.solvers as SV
    import mystic.scipy_optimize as SO
    import mystic.differential_evolution as DEM
    from mystic.monitors import Monitor
    AS, PW, DE = AS_.AbstractSolver, SO.PowellDirectionalSolver, DEM.DifferentialEvolutionSolver
    a2 = types.SimpleNamespace(tier="quick", seed=a.seed, jobs=min(a.jobs, 6))
    sel = lambda g: g[1] in (1, 2, 11, 13, 16)
    # scripts do not depend on the mutant: generate them once
    head, groups = groups_for("quick")
    cache = {}
    from concurrent.futures import ThreadPoolExecutor

    def gen(g):
        r = run_tlc(GEN, cfg="Gen_Checkpoint_quick.cfg", workers=1, timeout=3000,
                    env={"C06_KIND": g[0], "C06_SID": g[1], "C06_N": g[2]})
        return g[:2], r.printed
    with ThreadPoolExecutor(a2.jobs) as ex:
        for g, printed in ex.map(gen, [g for g in groups if sel(g)]):
            cache[g] = printed
    _SHARED["scripts"] = cache

    nobody = lambda g: False
    # the ensemble part on its own: two ensemble kinds, the settings without the step-wise periodic dump (setting 105 is
    # where the unchanged tree has its member-file finding: a run that is violated anyway shows nothing about a mutant)
    esel = lambda j: j[1] in ("LNM", "BPW") and j[2] in (102, 103, 104, 106, 107)

    def attempt(name, mk, corrupt=None, ens=False):
        undo = mk() if mk else None
        try:
            ck = new_check(a2)
            ck.dry = True
            ck.outdir = selftest_out           # replay artefacts of mutants do not belong into out/C06
            buf = io.StringIO()
            with contextlib.redirect_stdout(buf):
                try:
                    _SHARED["corrupt"] = corrupt
                    if ens:
                        explore(ck, a2, only=nobody, design=False, ens=esel)
                    else:
                        explore(ck, a2, only=sel, design=False, ens=False)
                    rc = 1 if ck.violations else 0
                except Exception as ex:
                    rc = "raised %r" % (ex,)
            classes = sorted(ck.viol_keys)
            caught = rc != 0
            if mk is not None or corrupt is not None:
                print("SELFTEST %s%s: %s   %s" % ("[ensembles] " if ens else "", name, "caught" if caught else "MISSED",
                                                (str(rc) if isinstance(rc, str) else "; ".join(classes))[:260]))
            sys.stdout.flush()
            return caught
        finally:
            _SHARED["corrupt"] = None
            if undo:
                for u in (undo if isinstance(undo, (list, tuple)) else [undo]):
                    u()

    def setattr_undo(obj, name, val):
        had = name in obj.__dict__
        old = obj.__dict__.get(name)
        setattr(obj, name, val)

        def undo():
            if had:
                setattr(obj, name, old)
            else:
                delattr(obj, name)
        return undo

    muts = []
    muts.append(("__load_state drops the step monitor",
                 lambda: patch(AS, "_AbstractSolver__load_state", "self.__dict__.update(solver.__dict__, **kwds)",
                               "self.__dict__.update(solver.__dict__, **kwds); self._stepmon = type(self._stepmon)()")))
    muts.append(("SaveSolver omits the population energies",
                 lambda: patch(AS, "SaveSolver", "dill.dump(self, f, **kwds)",
                               "import copy as _c; _s = _c.copy(self); _s.popEnergy = [self._init_popEnergy] * len(self.popEnergy); dill.dump(_s, f, **kwds)")))

    def m_direc():
        def getstate(self):
            d = dict(self.__dict__)
            if d.get("_direc") is not None:
                d["_direc"] = np.eye(len(d["_direc"]))
            return d
        return setattr_undo(PW, "__getstate__", getstate)
    muts.append(("Powell's direction set is not pickled (restarts from the identity)", m_direc))
    muts.append(("deepcopy shares the population with the original",
                 lambda: patch(AS, "__deepcopy__", "        result._live = False\n", "        result._live = False\n        result.population = self.population\n")))
    muts.append(("deepcopy leaves the copy live: its objective counts into a detached cell (2fd65b7 reverted)",
                 lambda: patch(AS, "__deepcopy__", "        result._live = False\n", "        pass\n")))
    muts.append(("LoadSolver resets the evaluation counter",
                 lambda: patch(SV, "LoadSolver", "    self._state = filename\n", "    self._state = filename\n    self._fcalls = [0]\n")))
    muts.append(("Powell's periodic dump is written before the step's internals are stored (778ef22 reverted)",
                 lambda: patch(PW, "_Step",
                               "        self.__internals = [x1, fx, bigind, delta]\n        self._direc = direc\n        self.population[0] = x   # bestSolution\n        self.popEnergy[0] = fval # bestEnergy\n        # if savefrequency matches, then save state (of the completed step)\n        self._AbstractSolver__save_state()\n",
                               "        self.population[0] = x   # bestSolution\n        self.popEnergy[0] = fval # bestEnergy\n        self._AbstractSolver__save_state()\n        self.__internals = [x1, fx, bigind, delta]\n        self._direc = direc\n")))
    muts.append(("DE writes the periodic dump before logging the generation",
                 lambda: patch(DE, "_Step",
                               "        self._stepmon(self.bestSolution[:], self.bestEnergy, self.id)\n        # if savefrequency matches, then save state\n        self._AbstractSolver__save_state()\n",
                               "        self._AbstractSolver__save_state()\n        self._stepmon(self.bestSolution[:], self.bestEnergy, self.id)\n")))

    muts.append(("the forced dump at the stop is skipped when the periodic dump fired at this generation (seeded C06b)",
                 lambda: patch(AS, "_AbstractSolver__save_state",
                               "        if force and bool(self._state):\n            self.SaveSolver()\n            return\n",
                               "        if force:\n            if bool(self._state) and not (bool(self._saveiter) and not bool(self.generations % self._saveiter)):\n                self.SaveSolver()\n            return\n")))

    def m_monid():
        def getstate(self):
            d = dict(self.__dict__)
            d["_y"] = list(d["_y"][:-1]) + [0.0] if d["_y"] else []
            return d
        return setattr_undo(Monitor, "__getstate__", getstate)
    muts.append(("pickling a monitor corrupts its last recorded energy", m_monid))
    muts.append(("LoadSolver hands back the unpickled solver's bestEnergy only after a step (best energy dropped)",
                 lambda: patch(AS, "_AbstractSolver__load_state", "self.__dict__.update(solver.__dict__, **kwds)",
                               "self.__dict__.update(solver.__dict__, **kwds); self._bestEnergy = None")))

    missed = 0
    selftest_out = "/dev/shm/c06_selftest_%d" % os.getpid()
    # sanity: the unchanged tree passes the reduced run used here
    ok = not attempt("control", None)
    print("SELFTEST-CONTROL unchanged mystic passes the reduced run used for the mutants: %s" % ("yes" if ok else "NO (self-test invalid)"))
    missed += 0 if ok else 1
    for name, mk in muts:
        missed += 0 if attempt(name, mk) else 1

    # corrupted expectations from TLC must be noticed
    def corrupt_r(scripts):
        out = json.loads(json.dumps(scripts))
        for sc in out:
            for op in sc["ops"]:
                if op["c"] == "step" and op["x"] >= 3 and op["r"] >= 1:
                    op["r"] -= 1
                    return out
        return out

    def corrupt_e(scripts):
        out = json.loads(json.dumps(scripts))
        for sc in out:
            if sc["mode"] == "orig_first":
                for op in sc["ops"]:
                    if op["c"].startswith("load") or op["c"] == "copy":
                        op["e"] = sorted(set(op["e"]) | {2})
                        return out
        return out

    def corrupt_g(scripts):
        out = json.loads(json.dumps(scripts))
        out[0]["ops"][-1]["g"] += 1
        return out
    missed += 0 if attempt("corrupted expectation: equal-to-reference generation off by one", None, corrupt_r) else 1
    missed += 0 if attempt("corrupted expectation: restored instance claimed equal to the advanced original", None, corrupt_e) else 1
    missed += 0 if attempt("corrupted expectation: predicted generation counter", None, corrupt_g) else 1

    # ---------------------------------------------------------------- the ensemble part (CheckpointEns / c06_ens)
    import mystic.abstract_ensemble_solver as AES_
    AES = AES_.AbstractEnsembleSolver
    ok = not attempt("control", None, ens=True)
    print("SELFTEST-CONTROL [ensembles] unchanged mystic passes the reduced ensemble run used for the mutants: %s"
          % ("yes" if ok else "NO (self-test invalid)"))
    missed += 0 if ok else 1
    emuts = []
    emuts.append(("deepcopy of an ensemble holds the original's member solvers",
                  lambda: patch(AS, "__deepcopy__", "        result._live = False\n",
                                "        result._live = False\n        if hasattr(self, '_allSolvers'): result._allSolvers = self._allSolvers\n")))

    def m_bestonly():
        def getstate(self):
            d = dict(self.__dict__)
            d["_allSolvers"] = [m if m is d.get("_bestSolver") else None for m in d["_allSolvers"]]
            return d
        return setattr_undo(AES, "__getstate__", getstate)
    emuts.append(("pickling an ensemble keeps only its best member (the others are rebuilt)", m_bestonly))

    def m_dropcounters():
        def setstate(self, d):
            self.__dict__.update(d)
            for m in self._allSolvers:
                if m is not None and m is not self._bestSolver:
                    m._fcalls[0] = 0
        return setattr_undo(AES, "__setstate__", setstate)
    emuts.append(("unpickling an ensemble drops the evaluation counters of the members that are not the best", m_dropcounters))

    def m_stepflag():
        def getstate(self):
            d = dict(self.__dict__)
            d["_step"] = False
            return d
        return setattr_undo(AES, "__getstate__", getstate)
    emuts.append(("the sticky step flag of an ensemble is not pickled", m_stepflag))
    emuts.append(("deepcopy leaves the members of the copied ensemble live: they count into detached cells (2fd65b7 reverted)",
                  lambda: patch(AS, "__deepcopy__", "        result._live = False\n", "        pass\n")))

    def m_membermon():
        def getstate(self):
            d = dict(self.__dict__)
            d["_y"] = list(d["_y"][:-1]) + [0.0] if d["_y"] else []
            return d
        return setattr_undo(Monitor, "__getstate__", getstate)
    emuts.append(("pickling a monitor corrupts its last recorded energy (members' monitors)", m_membermon))
    emuts.append(("a terminated member is stepped again by the ensemble (the stop verdict of the members is ignored)",
                  lambda: patch(AES, "_Step", "            solver.Step(cost,ExtraArgs=ExtraArgs,disp=disp,callback=callback)\n",
                                "            solver.Step(cost,ExtraArgs=ExtraArgs,disp=disp,callback=callback)\n"
                                "            if _term is True: solver._Step()\n")))
    for name, mk in emuts:
        missed += 0 if attempt(name, mk, ens=True) else 1

    def ecorrupt_r(scripts):
        out = json.loads(json.dumps(scripts))
        for sc in out:
            for op in sc["ops"]:
                if op["c"] == "step" and op["x"] >= 3 and op["r"] >= 1 and not op["st"]:
                    op["r"] -= 1
                    return out
        return out

    def ecorrupt_mg(scripts):
        out = json.loads(json.dumps(scripts))
        for sc in out:
            for op in sc["ops"]:
                if op["c"] == "step" and op["x"] >= 3:
                    op["mg"][-1] += 1
                    return out
        return out

    def ecorrupt_e(scripts):
        out = json.loads(json.dumps(scripts))
        for sc in out:
            if sc["mode"] == "orig_first" and not sc["atstop"]:
                for op in sc["ops"]:
                    if op["c"].startswith("load") or op["c"] == "copy":
                        op["e"] = sorted(set(op["e"]) | {2})
                        return out
        return out
    missed += 0 if attempt("corrupted expectation: equal-to-reference index of a restored ensemble off by one", None, ecorrupt_r, ens=True) else 1
    missed += 0 if attempt("corrupted expectation: predicted generation counter of one member", None, ecorrupt_mg, ens=True) else 1
    missed += 0 if attempt("corrupted expectation: restored ensemble claimed equal to the advanced original", None, ecorrupt_e, ens=True) else 1
    shutil.rmtree(selftest_out, ignore_errors=True)
    return 1 if missed else 0


def replay(a):
    assert_repo()
    art = json.load(open(a.replay))
    d = art["detail"]
    sc = d["script"]
    scratch = "/dev/shm/c06_replay_%d" % os.getpid()
    os.makedirs(scratch, exist_ok=True)
    try:
        if d.get("ensemble"):
            g = E.EnsGroup(d["kind"], d["setting"], d["n"], d["nm"], d["seed"], scratch)
        else:
            g = Group(d["kind"], d["setting"], d["n"], d["NP"], d["seed"], scratch)
        with contextlib.redirect_stdout(io.StringIO()):
            g.run_script(sc)
    finally:
        shutil.rmtree(scratch, ignore_errors=True)
    for key, detail, what in g.viol:
        print("VIOLATION(replay) %s: %s" % (key, what))
    print("replay: %d violations" % len(g.viol))
    return 1 if g.viol else 0


def main():
    a = tier_seed()
    if a.selftest:
        return selftest(a)
    if a.replay:
        return replay(a)
    ck = new_check(a)
    explore(ck, a)
    return ck.finish()


if __name__ == "__main__":
    main_guard(main)
