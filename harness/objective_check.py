"""C01 / C02 / C03 share one pipeline: Objective.tla model-checked (design), real solver runs recorded by
harness/objrec.py and validated by TLC against Trace_Objective.tla; `run(prop, a)` reports the violations of
the clauses that belong to `prop`."""
import random, copy, io, contextlib, warnings, json, time
from collections import Counter
from harness.core import Check, assert_repo
from harness.tlc import run_tlc
from harness import lifecycle as L
from harness.objrec import ObjRun, BOXES, tup

RULES = {
    "C01": "real runs of DE, DE2, Nelder-Mead and Powell (class API, stepped, snapshot after EVERY iteration) and of the "
           "fmin/fmin_powell/diffev/diffev2/lattice/buckshot/sparsity wrappers on problems drawn by seed from a catalogue (5 cost "
           "families incl. array-valued with reducers, plateaus and +inf walls; 6 constraint families pure and in-place; 3 "
           "penalties; 6 boxes x tight/clip modes; installation at the start or mid-run; dims 1-3); the recorder logs every "
           "call of the user's cost and TLC validates each trace against Trace_Objective. non-trivial = finite best energy "
           "and at least one of constraints / penalty / reducer / strict ranges active",
    "C02": "same runs as C01; decided here: every call of the user's cost is inside the box in force at that moment "
           "(also for ranges installed or changed mid-run, every tight/clip mode, constraints present), a finite reported "
           "best lies in the box when the ranges were in force from the start, random initial points lie within the "
           "requested limits. non-trivial = strict ranges active (and the initial points or trials reach outside them)",
    "C03": "same runs as C01; decided here: every call of the user's cost is at a point the constraints in force leave "
           "unchanged (pure and in-place constraint functions, installed at the start or mid-run), and with constraints "
           "from the first iteration the reported solution satisfies them with the energy of that point at EVERY "
           "iteration boundary. non-trivial = a constraint function is active",
}


def rand_cfg(rng, kinds=("DE", "DE2", "NM", "PW")):
    kind = rng.choice(kinds)
    dim = rng.choice([1, 2, 3])
    box = rng.choice(["none", "wide", "unit", "unit", "degenerate", "onesided", "infinite", "halfinf", "mixedinf", "shifted", "negshift", "fracround"])
    tight, clip = rng.choice([(None, None)] * 4 + [(True, None), (False, None), (True, True), (None, True), (True, False)])
    cons = rng.choice(["none", "pin", "clamp", "round", "tie", "symbolic"])
    if box == "degenerate" and cons in ("round", "pin", "clamp"):
        cons = "none"
    if box == "none":
        tight = clip = None
    if box in ("onesided", "infinite", "halfinf", "mixedinf") and (tight or clip is not None):
        tight = clip = None        # symbolic bounds refuse infinite sides at set-up (raises; no run to observe)
    # how the caller writes numbers (bounds, start, constraint results): floats, python ints, integer arrays, tuples
    spell = rng.choice(["float", "float", "int", "intarray", "tuple"])
    # the first box replaced by a fractional sub-box before the first Step (0) or between iterations; a rounding
    # constraint does not map the sub-box into itself, so it is not combined with it
    box2_at = rng.choice([None, None, None, 0, 2, 3]) if box in ("wide", "unit", "shifted", "negshift") and cons != "round" else None
    far = cons == "round" and box == "none" and rng.random() < 0.5
    return dict(init=rng.choice(["random", "random", "random", "multinormal", "sampled"]), spell=spell, box2_at=box2_at, far=far, kind=kind, dim=dim, npop=rng.choice([4, 5, 6]),
                cost=rng.choice(["sphere", "abs", "plateau", "vector", "infwall"]),
                cons=cons, inplace=rng.random() < 0.5, pen=rng.choice(["none", "abs", "quad"]), box=box,
                tight=tight, clip=clip, cons_at=rng.choice([0, 0, 0, 1, 2, 3]), box_at=rng.choice([0, 0, 0, 1, 2, 4]),
                pen_at=rng.choice([0, 0, 1, 2, 3]), via=rng.choice(["set", "set", "step"]),
                box_off_at=rng.choice([None, None, None, None, 1, 2, 3]), box_off_how=rng.choice(["off", "default"]), steps=rng.choice([3, 5, 7]), x0out=rng.random() < 0.4, maxgen=8,
                strategy=rng.choice([None, "Rand1Bin", "Best1Exp", "RandToBest1Bin", "Rand2Exp"]))


def _fix(cfg):
    if cfg.get("strategy") == "Rand2Exp":      # needs five distinct donors besides the candidate
        cfg["npop"] = max(cfg["npop"], 7)
    return cfg


def strip(events):
    """what TLC needs: integers / booleans / strings only"""
    out = []
    for e in events:
        e = copy.deepcopy(e)
        e.pop("x", None); e.pop("cfg", None); e.pop("seed", None)
        if e["ev"] == "Boundary":
            e["best"].pop("x", None)
            for m in e["members"]:
                m.pop("x", None)
        out.append(e)
    return out


def quiet(fn, *a, **k):
    with contextlib.redirect_stdout(io.StringIO()), warnings.catch_warnings():
        warnings.simplefilter("ignore")
        return fn(*a, **k)


# ------------------------------------------------------------------------------------------------ wrappers
def run_wrapper(name, cfg, seed):
    """fmin / fmin_powell / diffev / diffev2 / lattice / buckshot / sparsity with a recorded cost; final Boundary only"""
    import numpy as np
    r = ObjRun(cfg, seed=seed)
    dim = cfg["dim"]
    bx = BOXES[cfg["box"]](dim) if cfg["box"] != "none" else None
    kw = {}
    rfs = bx is not None
    if bx is not None:
        lo = [(-1e3 if v is None else float(v)) for v in bx[0]]
        hi = [(1e3 if v is None else float(v)) for v in bx[1]]
        r.box = (lo, hi)
        kw["bounds"] = list(zip(bx[0], bx[1]))
    from harness.objrec import as_given
    if r.cons_pristine is not None:
        r.cons = r.cons_pristine
        kw["constraints"] = as_given(r.cons_pristine, cfg.get("inplace", False))
    if r.pen_pristine is not None:
        r.pen = r.pen_pristine
        kw["penalty"] = r.pen_pristine
    if r.red:
        return None            # the wrappers have no reducer argument
    r.events.append({"ev": "New", "kind": name, "rfs": bool(rfs), "cfs": r.cons is not None, "randomclip": False,
                     "members": False, "cfg": cfg, "seed": seed})
    rng = r.rng
    x0 = [rng.uniform(0.1, 1.9) for _ in range(dim)]
    import mystic.solvers as ms
    if name == "fmin":
        out = ms.fmin(r.cost, x0, maxiter=cfg["maxgen"], full_output=1, disp=0, **kw)
    elif name == "fmin_powell":
        out = ms.fmin_powell(r.cost, x0, maxiter=cfg["maxgen"], full_output=1, disp=0, **kw)
    elif name in ("diffev", "diffev2"):
        fn = getattr(ms, name)
        b = kw.pop("bounds", None)
        fin = lambda v, d: d if (v is None or v in (float("inf"), -float("inf"))) else v
        out = fn(r.cost, x0 if b is None else list(zip([fin(v, -1e3) for v in bx[0]], [fin(v, 1e3) for v in bx[1]])),
                 npop=4, maxiter=cfg["maxgen"], full_output=1, disp=0, bounds=b, **kw)
    elif name in ("lattice", "buckshot", "sparsity"):
        if bx is None:
            return None
        fn = getattr(ms, name)
        b = kw.pop("bounds")
        b = [((-3.0 if (v is None or v == -float("inf")) else v), (3.0 if (w is None or w == float("inf")) else w)) for v, w in b]
        r.box = ([v for v, w in b], [w for v, w in b])
        arg = {"lattice": dict(nbins=2), "buckshot": dict(npts=3), "sparsity": dict(npts=2)}[name]
        out = fn(r.cost, dim, bounds=b, maxiter=cfg["maxgen"], full_output=1, disp=0, **arg, **kw)
    else:
        raise ValueError(name)
    x, fval = out[0], out[1]
    r.boundary(members=False, best=np.atleast_1d(x), beste=float(np.asarray(fval).ravel()[0]), note="wrapper-return")
    r.events[-1]["init"] = None
    return r


def run_ensemble(kind, cfg, seed):
    """LatticeSolver / BuckshotSolver through the class API, advanced step by step (Step loop, then Solve(step=True)
    or Solve again): a Boundary after EVERY ensemble step, so that the reported (best, energy) is judged while the
    members are still improving, not only at the end of a one-shot wrapper call"""
    import numpy as np
    import mystic.solvers as ms
    from harness.objrec import as_given
    r = ObjRun(cfg, seed=seed)
    if r.red:
        return None
    dim = cfg["dim"]
    bx = BOXES[cfg["box"]](dim) if cfg["box"] not in ("none",) else BOXES["wide"](dim)
    lo = [(-3.0 if (v is None or v == -float("inf")) else float(v)) for v in bx[0]]
    hi = [(3.0 if (w is None or w == float("inf")) else float(w)) for w in bx[1]]
    r.box = (lo, hi)
    if kind == "lattice":
        s = ms.LatticeSolver(dim, nbins=[2] + [1] * (dim - 1) if dim > 1 else [3])
    else:
        s = ms.BuckshotSolver(dim, npts=3)
    nested = cfg.get("nested", "NM")
    if nested == "DE":
        s.SetNestedSolver(ms.DifferentialEvolutionSolver, NP=cfg.get("npop", 4))
    elif nested == "DE2":
        s.SetNestedSolver(ms.DifferentialEvolutionSolver2, NP=cfg.get("npop", 4))
    elif nested == "PW":
        s.SetNestedSolver(ms.PowellDirectionalSolver)
    else:
        s.SetNestedSolver(ms.NelderMeadSimplexSolver)
    s.SetStrictRanges(lo, hi)
    if r.cons_pristine is not None:
        r.cons = r.cons_pristine
        s.SetConstraints(as_given(r.cons_pristine, cfg.get("inplace", False)))
    if r.pen_pristine is not None:
        r.pen = r.pen_pristine
        s.SetPenalty(r.pen_pristine)
    s.SetEvaluationLimits(cfg.get("maxgen", 8), None)
    import mystic.termination as mt
    s.SetTermination(mt.VTR(1e-12))
    r.solver = s
    r.events.append({"ev": "New", "kind": kind + "/" + nested, "rfs": True, "cfs": r.cons is not None, "randomclip": False,
                     "members": False, "cfg": cfg, "seed": seed})
    s.SetObjective(r.cost)
    for k in range(cfg.get("steps", 5)):
        msg = s.Step()
        r.boundary(members=False, best=np.atleast_1d(s.bestSolution), beste=float(np.asarray(s.bestEnergy).ravel()[0]),
                   note="ensemble-step%d" % k)
        r.events[-1]["init"] = None
        if msg:
            break
    if cfg.get("finish") == "solve-step":
        s.Solve(step=True)
    elif cfg.get("finish") == "solve":
        s.Solve()
    if cfg.get("finish") in ("solve", "solve-step"):
        r.boundary(members=False, best=np.atleast_1d(s.bestSolution), beste=float(np.asarray(s.bestEnergy).ravel()[0]),
                   note="ensemble-" + cfg["finish"])
        r.events[-1]["init"] = None
    return r


# ------------------------------------------------------------------------------------------------ main
def run(prop, a):
    assert_repo()
    ck = Check(prop, "model_checking", a.tier, a.seed, rule=RULES[prop])
    ck.dry = bool(getattr(a, "dry", False))
    light = bool(getattr(a, "light", False))
    thorough = a.tier == "thorough"
    rng = random.Random(a.seed)

    # ---- design: Objective.tla
    if not light:
        suffix = "" if thorough else "_quick"
        for name in ("DE_report", "NM_report"):
            r = run_tlc("solver/Objective", cfg="MC_Objective_%s%s.cfg" % (name, suffix), workers=min(a.jobs, 8), heap="8g", timeout=3000)
            ck.mc(r, "Objective(%s)" % name)
            if r.violated:
                ck.violation("spec:%s:%s" % (name, r.violated), {"tlc": r.out[-3000:]},
                             "design invariant %s violated in Objective.tla (%s)" % (r.violated, name))
        r = run_tlc("solver/Objective", cfg="MC_Objective_NM_next_quick.cfg", workers=min(a.jobs, 8), heap="8g", timeout=3000)
        ck.extra["design_constrain_best_only_at_next_iteration_refuted_by"] = r.violated
        if not r.violated:
            ck.violation("spec:vacuous", {}, "the 'constrain the best vertex at the next iteration' design passes: invariants vacuous")

    # ---- code -> spec: recorded runs
    nruns = 300 if light else (8000 if thorough else 700)
    nwrap = 0 if light else (1200 if thorough else 150)
    traces, meta = [], []
    refused = Counter()
    t0 = time.time()
    # a systematic block first: every (solver kind x range mode x constraint) combination with everything installed
    # before the first Step, on a box that the optimum may leave; the rest of the budget is random configurations
    grid = [(k, tc, cn) for k in ("DE", "DE2", "NM", "PW")
            for tc in ((None, None), (True, None), (False, None), (True, True), (None, True), (True, False))
            for cn in ("none", "pin", "clamp", "round", "tie", "symbolic")]
    rng.shuffle(grid)
    ngrid = 0 if light else (len(grid) * 3 if thorough else len(grid))
    # a second systematic block: how the caller writes numbers (python ints / integer arrays / tuples for bounds, start
    # and constraint results) x a scenario in which that matters: a rounding constraint on a start far from the origin,
    # an integer box replaced by a fractional sub-box before the first Step or between iterations
    sgrid = [(k, sp, sc) for k in ("DE", "DE2", "NM", "PW") for sp in ("int", "intarray", "tuple")
             for sc in ("round-far", "round-far/b", "round-far/c", "infstart-pin", "infstart-round", "infstart-tie", "rebox-shifted-0", "rebox-negshift-2", "rebox-unit-3", "rebox-shifted-2")]
    rng.shuffle(sgrid)
    nsgrid = 0 if light else len(sgrid)
    for i in range(nruns):
        cfg = _fix(rand_cfg(rng))
        if i < ngrid:
            k, tc, cn = grid[i % len(grid)]
            cfg.update(kind=k, tight=tc[0], clip=tc[1], cons=cn, cons_at=0, box_at=0, pen_at=0, box_off_at=None, via="set",
                       box=(("unit", "wide", "fracround")[(i // len(grid) + i) % 3] if cn != "round" else
                            "fracround"), dim=max(2, cfg["dim"]), far=False,
                       box2_at=None if cn == "round" else cfg.get("box2_at"))
            if cfg["cost"] == "infwall":
                cfg["cost"] = "sphere"
        elif i < ngrid + nsgrid:
            k, sp, sc = sgrid[i - ngrid]
            cfg.update(kind=k, spell=sp, tight=None, clip=None, cons_at=0, box_at=0, pen_at=0, box_off_at=None, via="set",
                       dim=max(2, cfg["dim"]), inplace=False, steps=7, x0out=False)
            if cfg["cost"] in ("infwall", "vector"):
                cfg["cost"] = "sphere"
            if sc.startswith("infstart"):
                # every energy the solver sees in its first iterations is +inf (start deep behind the wall of 'infwall_last');
                # stops after 1, 2, 3 iterations
                cfg.update(cost="infwall_last", cons=sc.split("-")[1], box="none", far=False, deepinf=True, box2_at=None, pen="none",
                           steps=1 + (i % 3), init="random", dim=3)
            elif sc.startswith("round-far"):
                cfg.update(cons="round", box="none", far=True, box2_at=None, pen="none")
            else:
                _, bx, at2 = sc.split("-")
                cfg.update(cons=rng.choice(["none", "none", "tie", "pin"]), box=bx, box2_at=int(at2), far=False)
        r = ObjRun(cfg, seed=a.seed * 7919 + i)
        try:
            quiet(r.run_class_api)
        except Exception as ex:
            started = any(e["ev"] in ("Call", "Boundary") for e in r.events)
            if not started:
                refused["%s:%s" % (type(ex).__name__, str(ex)[:50])] += 1
                continue
            r.events.append({"ev": "Raise", "what": repr(ex)[:200]})
        traces.append(strip(r.finish_ids()))
        meta.append((cfg["kind"], cfg, r))
    wnames = ["fmin", "fmin_powell", "diffev", "diffev2", "lattice", "buckshot", "sparsity"]
    for i in range(nwrap):
        name = wnames[i % len(wnames)]
        cfg = rand_cfg(rng)
        cfg["cons_at"] = cfg["box_at"] = cfg["pen_at"] = 0
        cfg["tight"] = cfg["clip"] = None
        if cfg["cost"] == "vector":
            cfg["cost"] = "sphere"
        cfg["maxgen"] = 5
        try:
            r = quiet(run_wrapper, name, cfg, a.seed * 104729 + i)
        except Exception as ex:
            refused["%s:%s:%s" % (name, type(ex).__name__, str(ex)[:40])] += 1
            continue
        if r is None:
            continue
        traces.append(strip(r.finish_ids()))
        meta.append((name, cfg, r))
    # ensembles through the class API, stepped (the statement names "an ensemble of them"; at every iteration boundary)
    nens = 0 if light else (600 if thorough else 90)
    for i in range(nens):
        cfg = rand_cfg(rng)
        cfg["cons_at"] = cfg["box_at"] = cfg["pen_at"] = 0
        cfg["tight"] = cfg["clip"] = None
        if cfg["cost"] == "vector":
            cfg["cost"] = "sphere"
        if cfg["box"] in ("degenerate", "onesided", "infinite", "halfinf", "mixedinf"):
            cfg["box"] = "unit"
        cfg["dim"] = max(cfg["dim"], 2) if i % 3 else cfg["dim"]
        cfg["nested"] = ["DE", "NM", "DE2", "PW", "DE", "NM"][i % 6]
        cfg["maxgen"] = 6
        cfg["steps"] = rng.choice([3, 5, 8])
        cfg["finish"] = rng.choice(["none", "solve-step", "solve"])
        ek = ["lattice", "buckshot"][(i // 6) % 2]
        try:
            r = quiet(run_ensemble, ek, cfg, a.seed * 15485863 + i)
        except Exception as ex:
            refused["%s:%s:%s" % (ek, type(ex).__name__, str(ex)[:40])] += 1
            continue
        if r is None:
            continue
        traces.append(strip(r.finish_ids()))
        meta.append((ek + "/" + cfg["nested"], cfg, r))
    ck.extra["stepped_ensemble_runs"] = nens
    ck.extra["record_wall_s"] = round(time.time() - t0, 1)
    ck.extra["refused_at_setup"] = dict(refused)

    # initial points within requested limits (C02, third clause)
    if prop == "C02":
        import mystic.solvers as ms, numpy as np
        bad = 0
        for i in range(200 if not thorough else 2000):
            dim = rng.choice([1, 2, 4])
            lo = [rng.choice([-5.0, -1.0, 0.0, 2.0]) for _ in range(dim)]
            hi = [l + rng.choice([0.0, 0.5, 3.0]) for l in lo]
            S = rng.choice([ms.DifferentialEvolutionSolver, ms.DifferentialEvolutionSolver2])
            s = S(dim, rng.choice([4, 7]))
            random.seed(i)
            s.SetRandomInitialPoints(list(lo), list(hi))
            ok = all(l <= v <= h for p in s.population for v, l, h in zip(p, lo, hi))
            ck.case(nontrivial=True, key=("initpts", i))
            if not ok:
                ck.violation("initial-points-outside-requested-limits", {"lo": lo, "hi": hi, "population": s.population},
                             "SetRandomInitialPoints(%s,%s) produced a point outside" % (lo, hi))

    verdicts = []
    chunk = 3000
    for i in range(0, len(traces), chunk):
        verdicts += L.validate(traces[i:i + chunk], ck, name="Trace_Objective[%d..]" % i, spec=L.OBJECTIVE)
    other = 0
    for idx, v in enumerate(verdicts):
        kind, cfg, rec = meta[idx]
        active = {"C01": cfg["cons"] != "none" or cfg["pen"] != "none" or cfg["cost"] == "vector" or cfg["box"] != "none",
                  "C02": cfg["box"] != "none", "C03": cfg["cons"] != "none"}[prop]
        finite = any(e["ev"] == "Boundary" and e["best"]["e"] < 1000000 for e in traces[idx])
        nt = active and finite
        key = (kind, json.dumps({k: cfg[k] for k in sorted(cfg)}, sort_keys=True, default=str))
        if v is None:
            ck.case(nontrivial=nt, key=key)
            ck.trace()
            continue
        failing = v["failing"]
        if (v.get("event") or {}).get("ev") == "Raise":
            mine = ["raised:" + (v["event"].get("what") or "")[:60]]
        else:
            mine = [f for f in failing if f.startswith(prop + ":") or f.startswith("event-not-enabled")
                    or f.startswith("rejected-not-diagnosed") or f.startswith("invariant:")]
        if not mine:
            other += 1
            continue
        ck.case(nontrivial=nt, key=key)
        ev = v.get("event")
        ck.violation("%s:%s" % (kind, "+".join(mine)),
                     {"solver": kind, "config": cfg, "seed": rec.seed, "at_event": v["at"], "event": ev,
                      "failing_clauses": failing, "trace": rec.events[:400]},
                     "%s %s: event #%s %s; false clauses: %s" % (kind, {k: cfg[k] for k in ("cost", "cons", "inplace", "pen", "box", "tight", "clip", "cons_at", "box_at", "pen_at")},
                                                                 v["at"], (ev or {}).get("ev"), ", ".join(failing)))
    ck.extra["traces_rejected_on_other_property_clauses"] = other
    if traces:
        ck.sample({"config": meta[0][1], "trace_head": traces[0][:6]})
        ck.sample({"config": meta[-1][1], "solver": meta[-1][0], "trace_tail": traces[-1][-2:]})
    ck.exhaustive = False
    ck.assumptions = [
        "constraints in the catalogue are deterministic, idempotent and map the box into itself (the statement's premise)",
        "C01 clauses are asserted while the objective configuration is the one the members were evaluated under; after a "
        "mid-run Set the stored energies belong to the previous objective and the C01 clauses are waived (C02/C03 call "
        "clauses are never waived)",
        "a run whose best energy is not finite reports no solution (reported-solution clauses need a finite energy)",
        "energies are compared as exact floats through order-preserving ranks; the recorder evaluates cost+penalty in "
        "the same order as mystic",
        "set-ups that raise before the first evaluation (e.g. symbolic bounds with infinite sides) are counted as refused"]
    return ck.finish()
