"""Things the C09 (ensemble) check hands to mystic -- kept in an importable module on purpose.

mystic deep-copies the configured nested solver once per member and copies the cost function with dill:
a function that lives in an importable module is copied BY REFERENCE, so every member calls the very
same harness function and the harness really counts every cost call.  (Functions defined in
`__main__` or closures would be copied by value and the copies would count into private lists.)

Contents
  LOG / CUR          the call log: one entry (member, x, raw cost, penalty) per real cost call; the member
                     is the work item the calling thread is executing (set by the harness maps)
  cost_*             cheap deterministic costs (plateaus produce exact ties between members)
  cons_*, pen_*      constraints / penalty functions owned by the harness
  gen_term(g)        a termination condition "stop once `g` steps were recorded"
  maps               serial / reversed / shuffled / scheduled / thread-pool maps; all return the results in
                     work-item order, all report the completion of every work item to the active recorder
  ScriptedSolver     a nested solver whose progress is dictated by a TLC-generated program
"""
import threading, random as _random
import numpy as np

LOG = []                       # (member, x tuple, cost value)
PENLOG = []                    # (member, x tuple, penalty value)
CONSLOG = []                   # (member, input tuple, output tuple)
CUR = threading.local()
LOCK = threading.Lock()
SINK = [None]                  # active recorder: gets .item_done(member, work item arguments, returned tuple) calls


def reset():
    del LOG[:], PENLOG[:], CONSLOG[:]
    SINK[0] = None


def member():
    return getattr(CUR, "member", 0)


def tup(x):
    return tuple(float(v) + 0.0 for v in np.asarray(x, dtype=float).ravel())


# ------------------------------------------------------------------------------------------ costs
def _log(x, v):
    LOG.append((member(), tup(x), v))
    return v


def cost_bowl(x):
    """smooth bowl, minimum at 0.3 in every coordinate"""
    return _log(x, float(sum((float(v) - 0.3) ** 2 for v in x)))


def cost_plateau(x):
    """zero on the box |x_i| <= 1/2, linear outside: members reach exactly 0.0 -> ties"""
    return _log(x, float(sum(max(0.0, abs(float(v)) - 0.5) for v in x)))


def cost_far(x):
    """minimum at 3 in every coordinate: outside the boxes used, pulls every member to the boundary"""
    return _log(x, float(sum(abs(float(v) - 3.0) for v in x)))


def cost_steps(x):
    """piecewise constant (quarter-unit steps of the distance to 0.3): many exact ties"""
    return _log(x, float(sum(np.floor(4.0 * abs(float(v) - 0.3)) / 4.0 for v in x)))


def cost_script(x):
    """x = [solution id, energy]: the energy is dictated by the caller (ScriptedSolver)"""
    return _log(x, float(x[1]))


COSTS = {"bowl": cost_bowl, "plateau": cost_plateau, "far": cost_far, "steps": cost_steps}


def pristine(name, x):
    """the value of a cost WITHOUT logging (used by the harness for its own judgements)"""
    n = len(LOG)
    v = COSTS[name](x)
    del LOG[n:]
    return v


# ------------------------------------------------------------------------------ constraints / penalty
def cons_grid(x):
    """idempotent, box-compatible constraint: round every coordinate to a multiple of 1/64"""
    y = [round(float(v) * 64.0) / 64.0 for v in x]
    CONSLOG.append((member(), tup(x), tuple(y)))
    return y


def cons_grid_pure(x):
    return tuple(round(float(v) * 64.0) / 64.0 for v in x)


def pen_half(x):
    """a penalty that is never zero (1/2 + |x_0|/8): an unpenalised member is recognisable by its energies"""
    v = 0.5 + abs(float(x[0])) / 8.0
    PENLOG.append((member(), tup(x), v))
    return v


def pen_half_pure(x):
    return 0.5 + abs(float(x[0])) / 8.0


# ------------------------------------------------------------------------------------- termination
def gen_term(g):
    """stop once g steps were taken (the energy history holds g records: g-1 generations)"""
    doc = "GenTerm with %s" % {'records': int(g)}

    def _GenTerm(inst, info=False):
        hit = len(inst.energy_history) >= g
        if info:
            return doc if hit else ""
        return hit
    _GenTerm.__doc__ = doc
    return _GenTerm


def script_term():
    """a scripted member stops when its program is exhausted"""
    doc = "ScriptEnd with %s" % {}

    def _ScriptEnd(inst, info=False):
        prog = PROGRAMS.get(getattr(inst, "id", None))
        hit = prog is not None and len(inst._stepmon) >= len(prog)
        if info:
            return doc if hit else ""
        return hit
    _ScriptEnd.__doc__ = doc
    return _ScriptEnd


# --------------------------------------------------------------------------------------------- maps
def _run_item(f, idx, args):
    CUR.member = idx + 1
    try:
        r = f(*args)
    finally:
        CUR.member = 0
    with LOCK:
        if SINK[0] is not None:
            SINK[0].item_done(idx + 1, args, r)
    return r


def _items(seqs):
    return list(zip(*seqs))


def serial_map(f, *seqs, **kwds):
    items = _items(seqs)
    return [_run_item(f, i, a) for i, a in enumerate(items)]


def reversed_map(f, *seqs, **kwds):
    items = _items(seqs)
    res = [None] * len(items)
    for i in reversed(range(len(items))):
        res[i] = _run_item(f, i, items[i])
    return res


class ShuffledMap(object):
    """executes the work items in a fresh seeded random order on every call"""
    def __init__(self, seed):
        self.rng = _random.Random(seed)
        self.__name__ = "shuffled"

    def __call__(self, f, *seqs, **kwds):
        items = _items(seqs)
        order = list(range(len(items)))
        self.rng.shuffle(order)
        res = [None] * len(items)
        for i in order:
            res[i] = _run_item(f, i, items[i])
        return res


class ScheduledMap(object):
    """executes the work items in the completion orders given (one per map call, 1-based indices;
    the last order is repeated if the ensemble maps more often)"""
    def __init__(self, orders):
        self.orders = [list(o) for o in orders]
        self.calls = 0
        self.__name__ = "scheduled"

    def __call__(self, f, *seqs, **kwds):
        items = _items(seqs)
        order = self.orders[min(self.calls, len(self.orders) - 1)] if self.orders else list(range(1, len(items) + 1))
        self.calls += 1
        if sorted(order) != list(range(1, len(items) + 1)):
            raise RuntimeError("schedule %r does not fit %d work items" % (order, len(items)))
        res = [None] * len(items)
        for i in order:
            res[i - 1] = _run_item(f, i - 1, items[i - 1])
        return res


class ThreadMap(object):
    """a thread pool: the work items run concurrently; if `order` is given their COMPLETION is forced into
    that order (an item holds its result back until its predecessor in the order has completed)"""
    def __init__(self, workers=3, order=None):
        self.workers, self.order = workers, order
        self.__name__ = "threads" if order is None else "threads-forced"

    def __call__(self, f, *seqs, **kwds):
        from concurrent.futures import ThreadPoolExecutor
        items = _items(seqs)
        n = len(items)
        order = self.order
        if order is not None and sorted(order) != list(range(1, n + 1)):
            order = None
        done = {i: threading.Event() for i in range(n)}
        pred = {}
        if order is not None:
            for a, b in zip(order, order[1:]):
                pred[b - 1] = a - 1

        def work(i):
            CUR.member = i + 1
            try:
                r = f(*items[i])
            finally:
                CUR.member = 0
            if i in pred:
                done[pred[i]].wait()
            with LOCK:
                if SINK[0] is not None:
                    SINK[0].item_done(i + 1, items[i], r)
            done[i].set()
            return r
        workers = n if order is not None else self.workers
        with ThreadPoolExecutor(max(1, workers)) as ex:
            return list(ex.map(work, range(n)))


# ----------------------------------------------------------------------------------- scripted member
PROGRAMS = {}     # member id (0-based, = solver.id) -> [(k, e), ...]


def _scripted_class():
    from mystic.abstract_solver import AbstractSolver

    class ScriptedSolver(AbstractSolver):
        """every Step executes the next entry (k, e) of PROGRAMS[self.id]: k cost calls at the point
        [solution id, e] (the scripted cost returns e); the best is replaced iff e is strictly better"""
        def __init__(self, dim, **kwds):
            super(ScriptedSolver, self).__init__(dim, **kwds)
            self.start = None

        def _Step(self, cost=None, ExtraArgs=None, **kwds):
            settings = self._process_inputs(kwds)
            callback = settings.get('callback')
            cost = self._bootstrap_objective(cost, ExtraArgs)
            if self.start is None:
                self.start = [float(v) for v in self.population[0]]
            prog = PROGRAMS[self.id]
            g = len(self._stepmon) + 1
            k, e = prog[g - 1]
            x = [float(10 * (self.id + 1) + g), float(e)] + [0.0] * (self.nDim - 2)
            for _ in range(k):
                fx = cost(x)
            if self._bestEnergy is None or fx < self._bestEnergy:
                self.bestEnergy = fx
                self.bestSolution = list(x)
                self.population[0] = list(x)
                self.popEnergy[0] = fx
            self._stepmon(self.bestSolution[:], self.bestEnergy, self.id)
            if callback is not None:
                callback(self.bestSolution)
            return
    return ScriptedSolver


_SCRIPTED = [None]


def ScriptedSolver():
    """the class (created after mystic is importable; module-level so that pickling is by reference)"""
    if _SCRIPTED[0] is None:
        cls = _scripted_class()
        cls.__module__ = __name__
        cls.__qualname__ = "ScriptedSolverClass"
        globals()["ScriptedSolverClass"] = cls
        _SCRIPTED[0] = cls
    return _SCRIPTED[0]
