"""C15 -- penalty methods are zero on the feasible set and follow their documented formulas.

spec -> code.  specs/pen/Penalty.tla is the penalty closure family as a state machine: per level of a
nesting chain the iteration counter n and the stored multiplier list ys; actions Iter(j,i|None),
Clear(j), Store(j,x,i|None), Eval(j,x), Error(j,x) propagated through the chain.  TLC model-checks
the design invariants / action properties on every chain of the catalogue (MC_Penalty.tla) and emits
every reachable state with (a) everything observable in it -- iteration(), stored(), stored(i),
F[j](x) and F[j].error(x)^2 for every level j and probe x -- and (b) every enabled state-changing call
with its post-state.  The harness builds the *real* closures of mystic.penalty for the chain (through
the decorators, constraints.with_penalty and constraints.as_penalty), walks the whole transition graph
(every edge at least once; a walk from freshly built closures = one behaviour) and after EVERY call
compares every observable of every level with what the specification says.

Expected values come from TLC only; the harness merely turns the spec's exact values
(n/d - sum log(a)/q, +-inf, nan) into floats.  Comparison: exactly (==) where no level at or below the
observed one is a lagrange_inequality or barrier_inequality type; 1e-12 relative (to the largest
magnitude among the stacked values) otherwise; error(x) against sqrt(spec error^2) at 1e-12 relative.

  bin/check C15 --tier quick|thorough [--seed N]   the catalogue is cut in parts; a pool of worker processes
                                                   runs TLC on a part and replays it; --seed changes the order
                                                   in which the enabled calls of a state are tried
  bin/check C15 --selftest                         in-memory mutants of mystic.penalty + one corrupted TLC value
  bin/check C15 --replay out/C15/replay_x.json     re-run the call script of a violation artefact
"""
import sys, os, json, math, time, random, collections, warnings
from harness.core import Check, tier_seed, assert_repo, main_guard
from harness.tlc import run_tlc, TLCError

INF, ZD, NONE = 1000000, 999999, -1
PINF = float("inf")
REL = 1e-12
MAXSTEPS = 400          # calls per behaviour (then fresh closures are built)
MAXVIOL_PER_CHAIN = 12
INEXACT_TYPES = (5, 8)  # barrier_inequality (log), lagrange_inequality (division by 2k)

TIERS = {
    "quick":    dict(cfg="MC_Penalty_quick.cfg",    nparts=16),
    "thorough": dict(cfg="MC_Penalty_thorough.cfg", nparts=64),
}


# ------------------------------------------------------------------------------------------------
# TLC side: one part of the catalogue -> graphs per chain
def tlc_part(tier, part, nparts=None):
    t = TIERS[tier]
    nparts = nparts or t["nparts"]
    r = run_tlc("pen/MC_Penalty", cfg=t["cfg"], workers=1, timeout=3000, heap="3g",
                env={"C15_NPARTS": nparts, "C15_PART": part, "_JAVA_OPTIONS": "-XX:CICompilerCount=2"})
    head = r.printed[0] if r.printed else None
    if not isinstance(head, dict) or "catalogue" not in head:
        raise TLCError("no catalogue emitted by MC_Penalty part %d:\n%s" % (part, r.out[-2000:]))
    if (head["inf"], head["zd"], head["none"]) != (INF, ZD, NONE) or head["nparts"] != nparts or head["part"] != part:
        raise TLCError("sentinels / partition of the spec and the harness disagree: %r" % {k: head[k] for k in ("inf", "zd", "none", "nparts", "part")})
    graphs = {}
    for st in r.printed[1:]:
        if not isinstance(st, dict):
            raise TLCError("unparsable state line from TLC: %r" % (st,))
        g = graphs.setdefault(st["c"], {})
        g[skey(st["n"], st["ys"])] = (st["obs"], st["succ"])
    mc = {"distinct": r.distinct, "generated": r.generated, "depth": r.depth, "wall_s": r.wall_s,
          "violated": r.violated, "out": r.out[-4000:] if r.violated else ""}
    return head, graphs, mc


def skey(n, ys):
    return (tuple(n), tuple(tuple(y) for y in ys))


# ------------------------------------------------------------------------------------------------
# implementation side: the real closures of a chain
def make_cond(tab, use_kwds):
    vals = [None if v == ZD else float(v) for v in tab]
    if use_kwds:
        def cond(x, table=None):
            v = table[int(x[0]) - 1]
            if v is None:
                return 1.0 / 0
            return v
        return cond, {"table": vals}
    def cond(x):
        v = vals[int(x[0]) - 1]
        if v is None:
            return 1.0 / 0
        return v
    return cond, None


def build(mp, mcons, head, chain):
    """-> (F, how): F[l] the real penalised function of level l+1 (F[0] outermost)"""
    types, ctabs, btabs = head["types"], head["cond"], head["base"]
    btab = [float(v) for v in btabs[chain["b"] - 1]]
    def base(x):
        return btab[int(x[0]) - 1]
    D = len(chain["lv"])
    F, how = [None] * D, [None] * D
    inner = base
    for l in reversed(range(D)):
        L = chain["lv"][l]
        ptype = getattr(mp, types[L["ty"] - 1])
        k = PINF if L["k"] == INF else L["k"]
        tab = ctabs[L["c"] - 1]
        innermost_zero = (l == D - 1) and not any(btab)
        if innermost_zero and ZD not in tab and min(tab) >= 0:
            # the adapter as_penalty: the condition is the norm of the displacement by a constraint
            shift = [float(v) for v in tab]
            def constraint(x, shift=shift):
                return [x[0] + shift[int(x[0]) - 1]]
            f = mcons.as_penalty(constraint, ptype, k=k, h=L["h"])
            how[l] = "as_penalty"
        elif innermost_zero:
            cond, kw = make_cond(tab, False)
            f = mcons.with_penalty(ptype, k=k, h=L["h"])(cond)
            how[l] = "with_penalty"
        else:
            cond, kw = make_cond(tab, (l + D) % 2 == 0)
            f = ptype(cond, kwds=kw, k=k, h=L["h"])(inner) if kw else ptype(cond, k=k, h=L["h"])(inner)
            how[l] = "decorator" + ("+kwds" if kw else "")
        F[l] = f
        inner = f
    return F, how


def val_float(vt):
    """a spec value <<tcode, n, d, lg>> as (kind, float)"""
    t, n, d, lg = vt
    if t == 1:
        return 1, PINF
    if t == 2:
        return 2, -PINF
    if t == 3:
        return 3, float("nan")
    v = n / d
    for a, q in lg:
        v -= math.log(a) / q
    return 0, v


def describe(head, chain):
    return {"levels (outermost first)": [
        {"ptype": head["types"][L["ty"] - 1], "k": "inf" if L["k"] == INF else L["k"], "h": L["h"],
         "condition values at probes 1..4": ["ZeroDivisionError" if v == ZD else v for v in head["cond"][L["c"] - 1]]}
        for L in chain["lv"]], "base function values": head["base"][chain["b"] - 1]}


def opstr(e):
    o, j, x, i = e[0], e[1], e[2], e[3]
    if o == "I":
        return "F[%d].iter(%s)" % (j, "" if i == NONE else i)
    if o == "C":
        return "F[%d].clear()" % j
    return "F[%d].store(x%d%s)" % (j, x, "" if i == NONE else ", %d" % i)


def apply_op(F, X, e):
    o, j, x, i = e[0], e[1], e[2], e[3]
    f = F[j - 1]
    if o == "I":
        return f.iter() if i == NONE else f.iter(i)
    if o == "C":
        return f.clear()
    return f.store(X[x - 1]) if i == NONE else f.store(X[x - 1], i)


class Expect(object):
    """what the spec says is observable in one state, turned into floats once"""
    __slots__ = ("levels",)

    def __init__(self, obs, chain):
        D = len(obs)
        lv = []
        for l in range(D):
            o = obs[l]
            ev = [val_float(v) for v in o["ev"]]
            lv.append([o["it"], [PINF if y == INF else float(y) for y in o["st"]],
                       [PINF if y == INF else float(y) for y in o["sti"]], ev,
                       [PINF if e == INF else math.sqrt(e) for e in o["er"]], None])
        # comparison mode / scale of F[l](x): exact unless an inexact type sits at or below level l
        for l in range(D):
            inexact = any(L["ty"] in INEXACT_TYPES for L in chain["lv"][l:])
            tol = []
            for x in range(len(lv[l][3])):
                if not inexact:
                    tol.append(0.0)
                else:
                    sc = 1.0
                    for m in range(l, D):
                        k, v = lv[m][3][x]
                        if k == 0 and abs(v) > sc:
                            sc = abs(v)
                    tol.append(REL * sc)
            lv[l][5] = tol
        self.levels = lv


def feas_class(head, chain, l, x):
    L = chain["lv"][l]
    c = head["cond"][L["c"] - 1][x]
    if c == ZD:
        return "zerodivision"
    eq = L["ty"] in (1, 2, 3, 9)
    return "feasible" if (c == 0 if eq else c <= 0) else "violated"


def compare(F, X, exp, head, chain, lastop):
    """all observables of all levels against the spec; -> list of (key, info) mismatches"""
    bad = []
    types = head["types"]
    for l, (it, st, sti, ev, er, tol) in enumerate(exp.levels):
        f = F[l]
        pt = types[chain["lv"][l]["ty"] - 1]
        nested = "" if lastop is None or lastop[1] - 1 == l else ("-nested" if lastop[1] - 1 < l else "-outer")
        after = "New" if lastop is None else {"I": "Iter", "C": "Clear", "S": "Store"}[lastop[0]]
        try:
            g = f.iteration()
        except Exception as ex:
            g = "raised %r" % (ex,)
        if g != it or isinstance(g, bool):
            bad.append(("iteration:%s:after-%s%s" % (pt, after, nested), {"level": l + 1, "observable": "F[%d].iteration()" % (l + 1), "obs": ["iteration", 0], "expected": it, "got": g}))
        try:
            g = list(f.stored())
        except Exception as ex:
            g = "raised %r" % (ex,)
        if g != st:
            bad.append(("stored:%s:after-%s%s" % (pt, after, nested), {"level": l + 1, "observable": "F[%d].stored()" % (l + 1), "obs": ["stored", 0], "expected": st, "got": g}))
        for i, e in enumerate(sti[:len(st)]):     # in-range indices only (what stored(i) does past the end is not C15's business)
            try:
                g = f.stored(i)
            except Exception as ex:
                g = "raised %r" % (ex,)
            if g != e:
                bad.append(("stored(i):%s:after-%s%s" % (pt, after, nested), {"level": l + 1, "observable": "F[%d].stored(%d)" % (l + 1, i), "obs": ["stored_i", i], "expected": e, "got": g}))
        for x, (kind, v) in enumerate(ev):
            try:
                g = f(X[x])
                if kind == 0:
                    ok = (g == v) if tol[x] == 0.0 else (abs(g - v) <= tol[x])
                elif kind == 3:
                    ok = g != g
                else:
                    ok = g == v
            except Exception as ex:
                g, ok = "raised %r" % (ex,), False
            if not ok:
                bad.append(("eval:%s:%s" % (pt, feas_class(head, chain, l, x)),
                            {"level": l + 1, "observable": "F[%d](x%d)" % (l + 1, x + 1), "obs": ["eval", x], "expected": v, "got": g,
                             "tolerance": tol[x]}))
            e = er[x]
            try:
                g = f.error(X[x])
                ok = (g == e) if e == PINF else (abs(g - e) <= REL * max(1.0, e))
            except Exception as ex:
                g, ok = "raised %r" % (ex,), False
            if not ok:
                bad.append(("error:%s:%s" % (pt, feas_class(head, chain, l, x)),
                            {"level": l + 1, "observable": "F[%d].error(x%d)" % (l + 1, x + 1), "obs": ["error", x], "expected": e, "got": g,
                             "tolerance": 0.0 if e == PINF else REL * max(1.0, e)}))
    return bad


def observe(F, X, level, obs):
    f = F[level - 1]
    kind, arg = obs
    if kind == "iteration":
        return f.iteration()
    if kind == "stored":
        return list(f.stored())
    if kind == "stored_i":
        return f.stored(arg)
    if kind == "eval":
        return f(X[arg])
    if kind == "error":
        return f.error(X[arg])
    raise ValueError(kind)


def agrees(got, exp, tol):
    if isinstance(exp, float) and exp != exp:
        return got != got
    if isinstance(exp, (int, float)) and isinstance(got, (int, float)) and abs(exp) != PINF and tol:
        return abs(got - exp) <= tol
    return got == exp


def nontrivial_state(key):
    return any(key[0]) or any(key[1])


def replay_chain(mp, mcons, head, cid, graph, stop_first=False, corrupt=False, want_sample=False, seed=0):
    """walk every edge of the chain's state graph on the real closures"""
    chain = head["catalogue"][cid - 1]
    D = len(chain["lv"])
    NX = len(head["cond"][0])
    X = [[float(x)] for x in range(1, NX + 1)]
    init = ((0,) * D, ((),) * D)
    if init not in graph:
        raise RuntimeError("initial state of chain %d not emitted" % cid)
    res = {"cid": cid, "steps": 0, "edges": 0, "nontrivial_edges": 0, "traces": 0, "violations": [],
           "states": len(graph), "states_visited": 0, "sample": None, "how": None, "nviol": 0}
    # successor lists and BFS tree from the initial state
    succ = {}
    for k, (obs, ss) in graph.items():
        lst = []
        for e in ss:
            pk = skey(e[4], e[5])
            if pk not in graph:
                raise RuntimeError("chain %d: successor state %r of %r not emitted" % (cid, pk, k))
            lst.append((e, pk))
        succ[k] = lst
    parent = {init: None}
    dq = collections.deque([init])
    while dq:
        k = dq.popleft()
        for e, pk in succ[k]:
            if pk not in parent:
                parent[pk] = (k, e)
                dq.append(pk)
    if len(parent) != len(graph):
        raise RuntimeError("chain %d: %d emitted states but %d reachable through emitted edges" % (cid, len(graph), len(parent)))
    clear1 = {}
    for k, lst in succ.items():
        for e, pk in lst:
            if e[0] == "C" and e[1] == 1:
                clear1[k] = (e, pk)
        if k not in clear1 or clear1[k][1] != init:
            raise RuntimeError("chain %d: Clear(1) from %r does not lead to the initial state in the spec" % (cid, k))
    rng = random.Random(seed * 100003 + cid)
    todo = {}
    for k, lst in succ.items():
        idx = list(range(len(lst)))
        rng.shuffle(idx)
        idx.sort(key=lambda i: lst[i][1] == k)          # calls that do not change the state are tried first (pop from the end)
        todo[k] = idx
    pending = collections.OrderedDict((k, None) for k in parent if todo[k])    # BFS order
    remaining = sum(len(v) for v in todo.values())
    expcache = {}
    visited = set()

    def expect(k):
        e = expcache.get(k)
        if e is None:
            e = expcache[k] = Expect(graph[k][0], chain)
        return e

    if corrupt:
        # self-test of the binding itself: falsify one expected value that came from TLC
        for k in parent:
            obs = graph[k][0]
            hit = [x for x, v in enumerate(obs[0]["ev"]) if v[0] == 0]
            if hit and any(k[0]):
                v = obs[0]["ev"][hit[0]]
                obs[0]["ev"][hit[0]] = [0, v[1] + v[2], v[2], v[3]]
                break

    def path_to(k):
        p = []
        while parent[k] is not None:
            pk, e = parent[k]
            p.append((e, k))
            k = pk
        p.reverse()
        return p

    def report(bad, script, cur, lastop, pre=None):
        for key, info in bad:
            res["nviol"] += 1
            if len(res["violations"]) < MAXVIOL_PER_CHAIN:
                info = dict(info)
                # a short call sequence that shows it too: shortest path to the spec state, or to the pre-state + the last call
                cands = [[e for e, _ in path_to(cur)]]
                if pre is not None and lastop is not None:
                    cands.append([e for e, _ in path_to(pre)] + [lastop])
                shortp, repro = cands[0], None
                if "obs" in info:
                    repro = False
                    for cand in cands:
                        try:
                            F2, _ = build(mp, mcons, head, chain)
                            for e in cand:
                                apply_op(F2, X, e)
                            hit = not agrees(observe(F2, X, info["level"], info["obs"]), info["expected"], info.get("tolerance", 0.0))
                        except Exception:
                            hit = True
                        if hit:
                            shortp, repro = cand, True
                            break
                info.update({"chain": describe(head, chain), "built_by": res["how"], "after_call": None if lastop is None else opstr(lastop),
                             "spec_state": {"n": list(cur[0]), "ys": [list(y) for y in cur[1]]},
                             "script": [list(e[:4]) for e in script], "script_text": [opstr(e) for e in script],
                             "short_script": [opstr(e) for e in shortp], "short_script_reproduces": repro, "cid": cid,
                             "replay": {"chain": chain, "head": {q: head[q] for q in ("types", "cond", "base")}}})
                after = (" ; ".join(opstr(e) for e in shortp) or "construction") if repro or not script else \
                    "the %d-call script of the artefact (last call %s)" % (len(script), opstr(script[-1]))
                what = "%s built %s: after %s the spec says %s = %r, mystic gives %r" % (
                    " > ".join(head["types"][L["ty"] - 1] + "(k=%s,h=%s)" % ("inf" if L["k"] == INF else L["k"], L["h"]) for L in chain["lv"]),
                    "/".join(res["how"]), after, info["observable"], info["expected"], info["got"])
                res["violations"].append((key, info, what))

    while remaining > 0 and res["nviol"] < MAXVIOL_PER_CHAIN and not (stop_first and res["nviol"]):
        F, how = build(mp, mcons, head, chain)
        res["how"] = how
        res["traces"] += 1
        cur = init
        script = []
        sample = [] if (want_sample and res["sample"] is None) else None
        bad = compare(F, X, expect(cur), head, chain, None)
        visited.add(cur)
        if bad:
            report(bad, script, cur, None)
            break                      # wrong right after construction: every further step repeats it
        steps = 0
        desync = False
        route = collections.deque()
        while steps < MAXSTEPS and remaining > 0 and not desync:
            first = False
            if route:
                e, nk = route.popleft()
            elif todo[cur]:
                idx = todo[cur].pop()
                e, nk = succ[cur][idx]
                first = True
            else:
                pending.pop(cur, None)
                hop = None
                for e2, k2 in succ[cur]:              # one-step look-ahead
                    if todo[k2]:
                        hop = (e2, k2)
                        break
                if hop is not None:
                    e, nk = hop
                else:
                    while pending:
                        tgt = next(iter(pending))
                        if todo[tgt]:
                            break
                        pending.pop(tgt)
                    if not pending:
                        remaining = 0
                        break
                    route.extend(path_to(tgt))
                    if cur != init:
                        e, nk = clear1[cur]
                    else:
                        e, nk = route.popleft()
            try:
                ret = apply_op(F, X, e)
            except Exception as ex:
                ret = ex
            script.append(e)
            steps += 1
            res["steps"] += 1
            if first:
                remaining -= 1
                res["edges"] += 1
                if nontrivial_state(cur) or nontrivial_state(nk):
                    res["nontrivial_edges"] += 1
            pre, cur = cur, nk
            visited.add(cur)
            bad = compare(F, X, expect(cur), head, chain, e)
            if isinstance(ret, BaseException):
                bad.insert(0, ("call:%s:raises" % {"I": "iter", "C": "clear", "S": "store"}[e[0]],
                               {"level": e[1], "observable": opstr(e), "expected": "returns", "got": "raised %r" % (ret,)}))
            if sample is not None and len(sample) < 6 and pre != cur:
                o = graph[cur][0]
                sample.append({"call": opstr(e), "spec_n": list(cur[0]), "spec_ys": [["inf" if y == INF else y for y in ys] for ys in cur[1]],
                               "spec F[1](x1..x4)": [val_float(v)[1] for v in o[0]["ev"]],
                               "spec F[1].error(x1..x4)^2": ["inf" if v == INF else v for v in o[0]["er"]]})
            if bad:
                report(bad, script, cur, e, pre)
                if any(b[0].startswith(("iteration", "stored", "call")) for b in bad):
                    desync = True      # the real object left the spec's state: start a fresh behaviour
                if stop_first:
                    break
        if sample:
            res["sample"] = {"chain": describe(head, chain), "built_by": how, "behaviour": sample}
    res["states_visited"] = len(visited)
    res["complete"] = remaining == 0
    return res


# ------------------------------------------------------------------------------------------------
_CTX = {}


def work_part(part):
    """one catalogue part: TLC (model check + emission) then replay of all its chains"""
    tier = _CTX["tier"]
    mp, mcons = _CTX["mp"], _CTX["mcons"]
    t0 = time.time()
    head, graphs, mc = tlc_part(tier, part)
    t1 = time.time()
    out = []
    for cid in sorted(graphs):
        lv = head["catalogue"][cid - 1]["lv"]
        out.append(replay_chain(mp, mcons, head, cid, graphs[cid], seed=_CTX["seed"],
                                want_sample=len(lv) >= 2 and any(L["ty"] in (8, 9) for L in lv)))
    return {"part": part, "mc": mc, "chains": out, "ncat": len(head["catalogue"]), "t_tlc": t1 - t0, "t_replay": time.time() - t1,
            "cat_digest": json.dumps(head["catalogue"], sort_keys=True)}


def quiet():
    warnings.simplefilter("ignore")
    import numpy
    numpy.seterr(all="ignore")


def new_check(a):
    return Check("C15", "model_checking", a.tier, a.seed,
                 rule="TLC enumerates, for every chain of the catalogue (nine penalty types x k,h x condition tables x nesting "
                      "depth 1..3), every reachable state (iteration counters, stored multiplier lists) of pen/Penalty.tla and "
                      "every enabled iter/clear/store call; the harness executes every such transition on the real mystic.penalty "
                      "closures and after each call compares iteration(), stored(), stored(i), F[j](x), F[j].error(x) for every "
                      "level j and probe x with the spec. a case = one executed call followed by the full comparison; "
                      "distinct non-trivial = distinct (chain, pre-state, call) transitions whose pre- or post-state has a "
                      "non-zero iteration counter or a stored multiplier")


def explore(ck, a):
    import multiprocessing
    tier = a.tier
    nparts = TIERS[tier]["nparts"]
    procs = max(1, min(a.jobs, os.cpu_count() or 1, 10, nparts))
    ctx = multiprocessing.get_context("fork")
    results = []
    with ctx.Pool(procs) as pool:
        for r in pool.imap_unordered(work_part, range(nparts)):
            results.append(r)
    results.sort(key=lambda r: r["part"])
    digests = set(r["cat_digest"] for r in results)
    if len(digests) != 1:
        raise RuntimeError("the TLC runs disagree on the order of the chain catalogue")
    ncat = results[0]["ncat"]
    seen = collections.Counter(c["cid"] for r in results for c in r["chains"])
    if sorted(seen) != list(range(1, ncat + 1)) or set(seen.values()) != {1}:
        raise RuntimeError("catalogue not covered exactly once by the parts: %d chains, %d seen" % (ncat, len(seen)))
    tot = {"distinct": 0, "generated": 0, "depth": 0, "wall_s": 0.0}
    for r in results:
        mc = r["mc"]
        if mc["violated"]:
            ck.violation("spec:" + mc["violated"], {"tlc": mc["out"], "part": r["part"]},
                         "TLC: design invariant/property %s violated in pen/Penalty.tla" % mc["violated"])
        tot["distinct"] += mc["distinct"] or 0
        tot["generated"] += mc["generated"] or 0
        tot["depth"] = max(tot["depth"], mc["depth"] or 0)
        tot["wall_s"] += mc["wall_s"] or 0
    ck.mc(tot, "pen/MC_Penalty (%s, %d parts)" % (TIERS[tier]["cfg"], nparts))
    complete = True
    samples = []
    bydepth = collections.Counter()
    states_visited = 0
    for r in results:
        for c in r["chains"]:
            ck.case(nontrivial=True, n=c["nontrivial_edges"])
            ck.case(nontrivial=False, n=c["steps"] - c["nontrivial_edges"])
            ck.trace(c["traces"])
            states_visited += c["states_visited"]
            bydepth[c["cid"]] = c["edges"]
            if c["sample"] is not None:
                samples.append(c["sample"])
            for key, info, what in c["violations"]:
                ck.violation(key, info, what)
            if c["nviol"] > len(c["violations"]):
                ck.violations += c["nviol"] - len(c["violations"])
            if not c["complete"]:
                complete = False
            elif c["states_visited"] != c["states"]:
                raise RuntimeError("chain %d: all edges walked but only %d of %d states visited" % (c["cid"], c["states_visited"], c["states"]))
    samples.sort(key=lambda s: (-len(s["built_by"]), json.dumps(s, sort_keys=True)))
    for s in samples[:1] + samples[len(samples) // 2:len(samples) // 2 + 1] + samples[-1:]:
        ck.sample(s, limit=3)
    ck.exhaustive = complete
    ck.extra["chains"] = ncat
    ck.extra["distinct_transitions_executed_on_impl"] = sum(bydepth.values())
    ck.extra["spec_states_reached_on_impl"] = states_visited
    ck.extra["t_tlc_cpu_s"] = round(sum(r["t_tlc"] for r in results), 1)
    ck.extra["t_replay_cpu_s"] = round(sum(r["t_replay"] for r in results), 1)
    ck.assumptions = [
        "condition values are small integers (as floats), k,h integers (k=inf for the uniform defaults): float arithmetic of the "
        "quadratic/linear/uniform/lagrange_equality types is exact and compared with ==",
        "chains containing lagrange_inequality (division by 2k) or barrier_inequality (log) at or below the observed level are "
        "compared at 1e-12 relative to the largest stacked magnitude; error(x) at 1e-12 relative to sqrt(spec error^2)",
        "barrier_inequality: the documented log barrier (-log(-f)/(2k h^n) inside, +inf on the boundary and outside) is the "
        "oracle, not 'zero on the feasible set'; Lagrange types with accumulated multipliers follow the documented accumulation",
        "bounded instance: iteration counters, stored-list lengths, k,h, condition tables and nesting depth as in the MC_Penalty "
        "catalogue; store() at a point where the condition divides by zero records an infinite multiplier (IEEE arithmetic follows)",
        "trusted: TLC, the transcription of the docstring formulas into Penalty.tla, the float rendering n/d - sum log(a)/q of spec values",
    ]


# ------------------------------------------------------------------------------------------------
# self-test: in-memory mutants of mystic.penalty
def mutate(mp, fname, subs):
    import inspect
    f = getattr(mp, fname)
    src = inspect.getsource(f)
    for old, new in subs:
        if old not in src:
            raise RuntimeError("mutant does not apply to %s: %r not found" % (fname, old))
        src = src.replace(old, new)
    ns = dict(mp.__dict__)
    exec(compile(src, "<mutant of %s>" % fname, "exec"), ns)
    setattr(mp, fname, ns[fname])


PROP_CLEAR = "        if hasattr(_f[0], 'clear'): _f[0].clear()\n"
PROP_ITER = "        if hasattr(_f[0], 'iter'): _f[0].iter(i)\n"

MUTANTS = [
    ("quadratic_inequality: factor 2 dropped", [("quadratic_inequality", [("float(2*_k)*max(0., pf)**2", "float(_k)*max(0., pf)**2")])]),
    ("linear_inequality: factor 2 dropped", [("linear_inequality", [("float(2*_k)*abs(", "float(_k)*abs(")])]),
    ("linear_equality: h**n -> h*n", [("linear_equality", [("k * pow(h,_n[0])", "k * (h*_n[0] if _n[0] else 1)")])]),
    ("quadratic_equality: h**n -> h**(n+1)", [("quadratic_equality", [("pow(h,_n[0])", "pow(h,_n[0]+1)")])]),
    ("uniform_equality: clear() not propagated to the nested penalty", [("uniform_equality", [(PROP_CLEAR, "")])]),
    ("lagrange_inequality: clear() keeps the stored multipliers", [("lagrange_inequality", [("        [_y.pop() for i in range(len(_y))]\n", "")])]),
    ("linear_inequality: max(0,pf) -> pf", [("linear_inequality", [("abs(max(0., pf))", "abs(pf)")])]),
    ("quadratic_inequality: max(0,pf) -> pf", [("quadratic_inequality", [("max(0., pf)**2 + f(", "pf**2 + f(")])]),
    ("barrier_inequality: iter() not propagated", [("barrier_inequality", [(PROP_ITER, "")])]),
    ("quadratic_equality: iter(i) propagated as iter()", [("quadratic_equality", [("_f[0].iter(i)", "_f[0].iter()")])]),
    ("uniform_inequality: error() loses max(0,.)", [("uniform_inequality", [("rms = max(0., condition(x, *args, **kwds))**2", "rms = condition(x, *args, **kwds)**2")])]),
    ("linear_equality: error() ignores the nested penalty", [("linear_equality", [("        if hasattr(_f[0], 'error'): rms += _f[0].error(x)**2\n", "")])]),
    ("lagrange_equality: multiplier not accumulated (last one only)", [("lagrange_equality", [("lam += 2.*_k*stored(i)", "lam = 2.*_k*stored(i)")])]),
    ("lagrange_inequality: multiplier may go negative (no max)", [("lagrange_inequality", [("beta += 2.*_k*max(-beta/(2.*_k), stored(i))", "beta += 2.*_k*stored(i)")])]),
    ("lagrange_equality: store(x) passes i=None on instead of the resolved index", [("lagrange_equality", [("_f[0].store(x,i)", "_f[0].store(x)")])]),
    ("uniform_inequality: boundary point penalised (pf > 0 -> pf >= 0)", [("uniform_inequality", [("if pf > 0 else 0.0", "if pf >= 0 else 0.0")])]),
    ("quadratic_inequality: ZeroDivisionError -> 0 instead of inf", [("quadratic_inequality", [("                return inf\n            _k = k", "                return 0.0\n            _k = k")])]),
    ("barrier_inequality: 1/(2k) -> 1/k", [("barrier_inequality", [("-.5/_k*log(-pf)", "-1./_k*log(-pf)")])]),
    ("uniform_equality: clear() leaves the iteration counter", [("uniform_equality", [("    def clear():\n        _n[0] = 0\n", "    def clear():\n")])]),
]


def selftest(a, mp, mcons):
    import concurrent.futures as cf
    tier = "quick"
    nparts = 8
    t0 = time.time()
    with cf.ThreadPoolExecutor(8) as ex:
        parts = list(ex.map(lambda i: tlc_part(tier, i, nparts), range(nparts)))
    for head, graphs, mc in parts:
        if mc["violated"]:
            print("SELFTEST aborted: spec violated %s" % mc["violated"])
            return 2
    head = parts[0][0]
    graphs = {}
    for _, g, _ in parts:
        graphs.update(g)
    print("selftest: %d chains, %d spec states from TLC in %.1fs" % (len(graphs), sum(len(g) for g in graphs.values()), time.time() - t0))
    types = head["types"]
    order = sorted(graphs, key=lambda c: len(graphs[c]))

    def run(filter_types=None, corrupt_cid=None):
        nv, keys = 0, collections.Counter()
        for cid in order:
            chain = head["catalogue"][cid - 1]
            if filter_types and not any(types[L["ty"] - 1] in filter_types for L in chain["lv"]):
                continue
            if corrupt_cid is not None and cid != corrupt_cid:
                continue
            g = graphs[cid]
            if corrupt_cid is not None:
                g = json.loads(json.dumps({"g": [[list(k[0]), [list(y) for y in k[1]], v[0], v[1]] for k, v in g.items()]}))["g"]
                g = {skey(n, ys): (obs, ss) for n, ys, obs, ss in g}
            r = replay_chain(mp, mcons, head, cid, g, stop_first=True, corrupt=corrupt_cid is not None)
            for key, info, what in r["violations"]:
                keys[key] += 1
            nv += r["nviol"]
            if nv:
                break
        return nv, keys

    missed = 0
    # sanity: the unchanged tree is quiet on what the mutants are judged on
    orig = {f: getattr(mp, f) for f in types}
    for name, edits in MUTANTS:
        t1 = time.time()
        for fname, subs in edits:
            mutate(mp, fname, subs)
        try:
            nv, keys = run(filter_types=set(f for f, _ in edits))
        except Exception as ex:
            nv, keys = 1, {"raised:%r" % (ex,): 1}
        for f, v in orig.items():
            setattr(mp, f, v)
        print("SELFTEST %s: %s (%s) %.1fs" % (name, "caught" if nv else "MISSED", ", ".join(sorted(keys)) or "-", time.time() - t1))
        missed += 0 if nv else 1
    lag = [c for c in order if any(L["ty"] == 9 for L in head["catalogue"][c - 1]["lv"])][0]
    nv, keys = run(corrupt_cid=lag)
    print("SELFTEST corrupted expected value from TLC (chain %d): %s (%s)" % (lag, "caught" if nv else "MISSED", ", ".join(sorted(keys)) or "-"))
    missed += 0 if nv else 1
    return 1 if missed else 0


# ------------------------------------------------------------------------------------------------
def replay_artefact(path, mp, mcons):
    """re-run the script of a violation artefact on the current tree"""
    d = json.load(open(path))["detail"]
    if "obs" not in d or "replay" not in d:
        print("artefact %s carries no replayable observation (spec-level violation?)" % path)
        return 2
    head = dict(d["replay"]["head"])
    chain = d["replay"]["chain"]
    NX = len(head["cond"][0])
    X = [[float(x)] for x in range(1, NX + 1)]
    F, how = build(mp, mcons, head, chain)
    for e in d["script"]:
        apply_op(F, X, e)
    exp = d["expected"]
    conv = lambda v: float(v) if isinstance(v, str) else v
    exp = [conv(v) for v in exp] if isinstance(exp, list) else conv(exp)
    try:
        got = observe(F, X, d["level"], d["obs"])
    except Exception as ex:
        got = "raised %r" % (ex,)
    ok = agrees(got, exp, d.get("tolerance") or 0.0)
    print("replay %s: %s after %s\n  spec expected %r, mystic now gives %r -> %s" % (
        path, d["observable"], " ; ".join(d["script_text"]) or "construction", exp, got, "agrees" if ok else "STILL DISAGREES"))
    if not ok:
        print("VIOLATION property=C15 replay=%s" % path)
    return 0 if ok else 1


def main():
    a = tier_seed()
    assert_repo()
    quiet()
    import mystic.penalty as mp
    import mystic.constraints as mcons
    if a.replay:
        return replay_artefact(a.replay, mp, mcons)
    if a.selftest:
        return selftest(a, mp, mcons)
    _CTX.update(tier=a.tier, mp=mp, mcons=mcons, seed=a.seed)
    ck = new_check(a)
    explore(ck, a)
    return ck.finish()


if __name__ == "__main__":
    main_guard(main)
