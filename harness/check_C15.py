"""C15 -- penalty methods are zero on the feasible set and follow their documented formulas.

spec -> code.  specs/pen/Penalty.tla is the penalty closure family as a state machine: per level of a
nesting chain the iteration counter n and the stored multiplier list ys; actions Iter(j,i|None),
Clear(j), Store(j,x,i|None), Eval(j,x), Error(j,x) propagated through the chain.  TLC model-checks
the design invariants / action properties on every chain of the catalogue (MC_Penalty.tla) and emits
every reachable state with (a) everything observable in it -- iteration(), stored(), stored(i),
F[j](x) and F[j].error(x)^2 for every level j and probe x -- and (b) every enabled state-changing call
with its post-state.  The harness builds the *real* closures of mystic.penalty for the chain (through
the decorators, constraints.with_penalty and constraints.as_penalty), walks the whole transition graph
(every edge at least once; a walk from freshly built closures = one behaviour) and after EVERY call
compares every observable of every level with what the specification says.

Three families of catalogues per tier (specs/pen/MC_Penalty.tla): the state graph proper (all types, nesting
depth 1..3), the boundary values of every argument (conditions in halves and thirds, k = 0, h = 0, k and h below
one, the types' defaults, conditions / multipliers scaled by 2^-1074 .. 2^996, store(x, 0)) and multi-digit
iteration counters.  Every behaviour (freshly built closures) is written down in another concrete spelling of the
same abstract inputs (harness/c15_spell.py: types of numbers, of x, of the condition's result, ways to pass
arguments, adapters, call forms), rotating deterministically.

Expected values come from TLC only; the harness merely turns the spec's exact values
((n/d - sum log(a)*p/q) * 2^e, +-inf, nan) into floats.  Comparison: exactly (==) where no level at or below the
observed one is a lagrange_inequality or barrier_inequality type or has a condition in thirds; 1e-12 relative (to
the largest magnitude among the stacked values) otherwise; error(x) against sqrt(spec error^2) at 1e-12 relative.

  bin/check C15 --tier quick|thorough [--seed N]   the catalogue is cut in parts; a pool of worker processes
                                                   runs TLC on a part and replays it; --seed changes the order
                                                   in which the enabled calls of a state are tried
  bin/check C15 --selftest                         in-memory mutants of mystic.penalty + one corrupted TLC value
  bin/check C15 --replay out/C15/replay_x.json     re-run the call script of a violation artefact
"""
import sys, os, json, math, time, random, collections, warnings
from harness.core import Check, tier_seed, assert_repo, main_guard
from harness.tlc import run_tlc, TLCError
from harness import c15_spell as spell
from harness.c15_spell import Sp, build, apply_op, INF, ZD, NONE, PINF, INEXACT_TYPES

REL = 1e-12
MAXSTEPS = 400          # calls per behaviour (then fresh closures are built)
MAXVIOL_PER_CHAIN = 12
SMALL_GRAPH = 40        # chains with at most this many spec states are walked ROUNDS times, each time in other spellings
ROUNDS = 12

# per tier: the families of catalogues (name, cfg, number of TLC processes, MaxN of the cfg)
TIERS = {
    "quick":    [dict(fam="main", cfg="MC_Penalty_quick.cfg",         nparts=16, maxn=2),
                 dict(fam="bnd",  cfg="MC_Penalty_bnd_quick.cfg",     nparts=3,  maxn=2),
                 dict(fam="long", cfg="MC_Penalty_long_quick.cfg",    nparts=1,  maxn=12)],
    "thorough": [dict(fam="main", cfg="MC_Penalty_thorough.cfg",      nparts=64, maxn=3),
                 dict(fam="bnd",  cfg="MC_Penalty_bnd_thorough.cfg",  nparts=12, maxn=3),
                 dict(fam="long", cfg="MC_Penalty_long_thorough.cfg", nparts=3,  maxn=13)],
}


# ------------------------------------------------------------------------------------------------
# TLC side: one part of the catalogue -> graphs per chain
def family(tier, fam):
    return [t for t in TIERS[tier] if t["fam"] == fam][0]


def tlc_part(tier, part, nparts=None, fam="main"):
    t = family(tier, fam)
    nparts = nparts or t["nparts"]
    r = run_tlc("pen/MC_Penalty", cfg=t["cfg"], workers=1, timeout=3000, heap="3g",
                env={"C15_NPARTS": nparts, "C15_PART": part, "_JAVA_OPTIONS": "-XX:CICompilerCount=2"})
    head = r.printed[0] if r.printed else None
    if not isinstance(head, dict) or "catalogue" not in head:
        raise TLCError("no catalogue emitted by MC_Penalty (%s) part %d:\n%s" % (t["cfg"], part, r.out[-2000:]))
    head["fam"], head["maxn"] = fam, t["maxn"]
    if (head["inf"], head["zd"], head["none"]) != (INF, ZD, NONE) or head["nparts"] != nparts or head["part"] != part:
        raise TLCError("sentinels / partition of the spec and the harness disagree: %r" % {k: head[k] for k in ("inf", "zd", "none", "nparts", "part")})
    graphs = {}
    for st in r.printed[1:]:
        if not isinstance(st, dict):
            raise TLCError("unparsable state line from TLC: %r" % (st,))
        g = graphs.setdefault(st["c"], {})
        g[skey(st["n"], st["ys"])] = (st["obs"], st["succ"])
    mc = {"distinct": r.distinct, "generated": r.generated, "depth": r.depth, "wall_s": r.wall_s,
          "violated": r.violated, "out": r.out[-4000:] if r.violated else ""}
    return head, graphs, mc


def skey(n, ys):
    return (tuple(n), tuple(tuple(y) for y in ys))


# ------------------------------------------------------------------------------------------------
# implementation side: the real closures of a chain are built by harness/c15_spell.build
def val_float(vt):
    """a spec value <<tcode, n, d, lg, e>> as (kind, float)"""
    t, n, d, lg, e = vt
    if t == 1:
        return 1, PINF
    if t == 2:
        return 2, -PINF
    if t == 3:
        return 3, float("nan")
    if t != 0:
        raise TLCError("the specification emitted a value that is not representable (sum of terms with different binary exponents): %r" % (vt,))
    v = n / d
    for a, p, q in lg:
        v -= math.log(a) * p / q
    return 0, math.ldexp(v, e)


def err_float(vt):
    """sqrt of a spec value error(x)^2"""
    t, n, d, lg, e = vt
    if t == 1:
        return PINF
    if t != 0 or lg or e % 2:
        raise TLCError("unexpected error^2 value from the specification: %r" % (vt,))
    return math.ldexp(math.sqrt(n / d), e // 2)


def numstr(num, den, e):
    if num == INF:
        return "inf"
    s = str(num) if den == 1 else "%d/%d" % (num, den)
    return s + ("*2^%d" % e if e else "")


def describe(head, chain):
    se, ke = chain["se"], chain["ke"]
    return {"levels (outermost first)": [
        {"ptype": head["types"][L["ty"] - 1], "k": numstr(L["k"], L["kd"], ke), "h": numstr(L["h"], L["hd"], 0),
         "condition values at probes 1..4": ["ZeroDivisionError" if v == ZD else numstr(v, head["den"][L["c"] - 1], se if v else 0)
                                             for v in head["cond"][L["c"] - 1]]}
        for L in chain["lv"]], "base function values": head["base"][chain["b"] - 1]}


def opstr(e):
    o, j, x, i = e[0], e[1], e[2], e[3]
    if o == "I":
        return "F[%d].iter(%s)" % (j, "" if i == NONE else i)
    if o == "C":
        return "F[%d].clear()" % j
    return "F[%d].store(x%d%s)" % (j, x, "" if i == NONE else ", %d" % i)


class Expect(object):
    """what the spec says is observable in one state, turned into floats once"""
    __slots__ = ("levels",)

    def __init__(self, obs, chain, head, floor=0.0):
        D = len(obs)
        se, ke = chain["se"], chain["ke"]
        scaled = bool(se or ke)
        skip_err = abs(2 * se) > 1000            # the squares inside error() leave the float range
        lv = []
        for l in range(D):
            o = obs[l]
            den = head["den"][chain["lv"][l]["c"] - 1]
            ev = [val_float(v) for v in o["ev"]]
            st = [PINF if y == INF else spell.cond_value(y, den, se) for y in o["st"]]
            lv.append([o["it"], st, None, ev,
                       None if skip_err else [err_float(e) for e in o["er"]], None])
        # comparison mode / scale of F[l](x): exact unless an inexact type (or a condition in thirds) sits at or below level l
        for l in range(D):
            inexact = any(L["ty"] in INEXACT_TYPES or not spell.is_pow2(head["den"][L["c"] - 1]) for L in chain["lv"][l:])
            tol = []
            for x in range(len(lv[l][3])):
                if not inexact:
                    tol.append(0.0)
                else:
                    sc = floor if scaled else 1.0
                    for m in range(l, D):
                        k, v = lv[m][3][x]
                        if k == 0 and abs(v) > sc:
                            sc = abs(v)
                    tol.append(REL * sc)
            lv[l][5] = tol
            if lv[l][4] is not None:
                lv[l][2] = [0.0 if e == PINF else REL * (e if scaled else max(1.0, e)) for e in lv[l][4]]
        self.levels = lv


def feas_class(head, chain, l, x):
    L = chain["lv"][l]
    c = head["cond"][L["c"] - 1][x]
    if c == ZD:
        return "zerodivision"
    eq = L["ty"] in (1, 2, 3, 9)
    return "feasible" if (c == 0 if eq else c <= 0) else "violated"


def compare(b, exp, head, chain, lastop, q0):
    """all observables of all levels against the spec; -> list of (key, info) mismatches.  q0 = number of calls made
    so far: the spelling of every observation is a function of (q0, level, probe)"""
    bad = []
    types = head["types"]
    for l, (it, st, etol, ev, er, tol) in enumerate(exp.levels):
        f = b.F[l]
        pt = types[chain["lv"][l]["ty"] - 1]
        nested = "" if lastop is None or lastop[1] - 1 == l else ("-nested" if lastop[1] - 1 < l else "-outer")
        after = "New" if lastop is None else {"I": "Iter", "C": "Clear", "S": "Store"}[lastop[0]]
        q = q0 * 5 + l * 3
        try:
            g = f.iteration()
        except Exception as ex:
            g = "raised %r" % (ex,)
        if g != it or isinstance(g, bool):
            bad.append(("iteration:%s:after-%s%s" % (pt, after, nested), {"level": l + 1, "observable": "F[%d].iteration()" % (l + 1), "obs": ["iteration", 0], "q": q, "expected": it, "got": g}))
        try:
            g = list(spell.get_stored(b, l, q))
        except Exception as ex:
            g = "raised %r" % (ex,)
        if g != st:
            bad.append(("stored:%s:after-%s%s" % (pt, after, nested), {"level": l + 1, "observable": "F[%d].stored()" % (l + 1), "obs": ["stored", 0], "q": q, "expected": st, "got": g}))
        ns = len(st)
        for i, e in enumerate(st):     # in-range indices only (what stored(i) does past the end is not C15's business)
            try:
                g = spell.get_stored_i(b, l, i, ns, q + i)
            except Exception as ex:
                g = "raised %r" % (ex,)
            if g != e:
                bad.append(("stored(i):%s:after-%s%s" % (pt, after, nested), {"level": l + 1, "observable": "F[%d].stored(%d)" % (l + 1, i), "obs": ["stored_i", i], "q": q + i, "expected": e, "got": g}))
        for x, (kind, v) in enumerate(ev):
            qx = q + x * 7
            try:
                g = spell.get_eval(b, l, x, qx)
                if kind == 0:
                    ok = (g == v) if tol[x] == 0.0 else (abs(g - v) <= tol[x])
                elif kind == 3:
                    ok = g != g
                else:
                    ok = g == v
            except Exception as ex:
                g, ok = "raised %r" % (ex,), False
            if not ok:
                bad.append(("eval:%s:%s" % (pt, feas_class(head, chain, l, x)),
                            {"level": l + 1, "observable": "F[%d](x%d)" % (l + 1, x + 1), "obs": ["eval", x], "q": qx, "expected": v, "got": g,
                             "tolerance": tol[x]}))
            if er is None:
                continue
            e = er[x]
            try:
                g = spell.get_error(b, l, x, qx)
                ok = (g == e) if e == PINF else (abs(g - e) <= etol[x])
            except Exception as ex:
                g, ok = "raised %r" % (ex,), False
            if not ok:
                bad.append(("error:%s:%s" % (pt, feas_class(head, chain, l, x)),
                            {"level": l + 1, "observable": "F[%d].error(x%d)" % (l + 1, x + 1), "obs": ["error", x], "q": qx, "expected": e, "got": g,
                             "tolerance": etol[x]}))
    return bad


def observe(b, level, obs, q, nstored=0):
    l = level - 1
    kind, arg = obs
    if kind == "iteration":
        return b.F[l].iteration()
    if kind == "stored":
        return list(spell.get_stored(b, l, q))
    if kind == "stored_i":
        return spell.get_stored_i(b, l, arg, nstored, q)
    if kind == "eval":
        return spell.get_eval(b, l, arg, q)
    if kind == "error":
        return spell.get_error(b, l, arg, q)
    raise ValueError(kind)


def agrees(got, exp, tol):
    if isinstance(exp, float) and exp != exp:
        return got != got
    if isinstance(exp, (int, float)) and isinstance(got, (int, float)) and abs(exp) != PINF and tol:
        return abs(got - exp) <= tol
    try:
        return bool(got == exp)
    except Exception:
        return False


def nontrivial_state(key):
    return any(key[0]) or any(key[1])


def spelling_seed(head, cid, seed, trace):
    """the integer that fixes the spelling of one behaviour: consecutive behaviours of a chain, neighbouring chains
    and other seeds all land on different spellings"""
    return {"main": 0, "bnd": 4, "long": 9}[head["fam"]] + cid * 13 + seed * 7919 + trace


def replay_chain(mp, mcons, head, cid, graph, stop_first=False, corrupt=False, want_sample=False, seed=0, legacy=False):
    """walk every edge of the chain's state graph on the real closures; small graphs several times (one walk of a
    three-state graph is a single behaviour = a single spelling)"""
    rounds = 1 if (legacy or corrupt or len(graph) > SMALL_GRAPH) else ROUNDS
    ch = head["catalogue"][cid - 1]
    tab = head["cond"][ch["lv"][-1]["c"] - 1]
    if rounds > 1 and not any(head["base"][ch["b"] - 1]) and ZD not in tab and min(tab) >= 0:
        rounds *= 5                     # the few chains that can be built by constraints.as_penalty: all its call forms
    if rounds > 1 and any(L["k"] == INF for L in ch["lv"]):
        rounds *= 4                     # the few chains with k = inf: inf as float / np.float64 / np.float32 / left out
    res = None
    for rd in range(rounds):
        r = replay_chain_once(mp, mcons, head, cid, graph, stop_first, corrupt, want_sample, seed, legacy, rd * 1013)
        if res is None:
            res = r
        else:
            for k in ("steps", "traces", "nviol"):
                res[k] += r[k]
            res["violations"] += r["violations"]
            res["spellings"].update(r["spellings"])
            res["complete"] = res["complete"] and r["complete"]
            res["states_visited"] = max(res["states_visited"], r["states_visited"])
        if res["nviol"] and (stop_first or res["nviol"] >= MAXVIOL_PER_CHAIN):
            break
    return res


def replay_chain_once(mp, mcons, head, cid, graph, stop_first, corrupt, want_sample, seed, legacy, sp_off):
    chain = head["catalogue"][cid - 1]
    D = len(chain["lv"])
    init = ((0,) * D, ((),) * D)
    if init not in graph:
        raise RuntimeError("initial state of chain %d not emitted" % cid)
    lean = len(graph) > SMALL_GRAPH
    res = {"cid": cid, "fam": head["fam"], "steps": 0, "edges": 0, "nontrivial_edges": 0, "traces": 0, "violations": [],
           "states": len(graph), "states_visited": 0, "sample": None, "how": None, "nviol": 0,
           "spellings": collections.Counter()}
    # successor lists and BFS tree from the initial state
    succ = {}
    for k, (obs, ss) in graph.items():
        lst = []
        for e in ss:
            pk = skey(e[4], e[5])
            if pk not in graph:
                raise RuntimeError("chain %d: successor state %r of %r not emitted" % (cid, pk, k))
            lst.append((e, pk))
        succ[k] = lst
    parent = {init: None}
    dq = collections.deque([init])
    while dq:
        k = dq.popleft()
        for e, pk in succ[k]:
            if pk not in parent:
                parent[pk] = (k, e)
                dq.append(pk)
    if len(parent) != len(graph):
        raise RuntimeError("chain %d: %d emitted states but %d reachable through emitted edges" % (cid, len(graph), len(parent)))
    clear1 = {}
    for k, lst in succ.items():
        for e, pk in lst:
            if e[0] == "C" and e[1] == 1:
                clear1[k] = (e, pk)
        if k not in clear1 or clear1[k][1] != init:
            raise RuntimeError("chain %d: Clear(1) from %r does not lead to the initial state in the spec" % (cid, k))
    rng = random.Random(seed * 100003 + cid)
    todo = {}
    for k, lst in succ.items():
        idx = list(range(len(lst)))
        rng.shuffle(idx)
        idx.sort(key=lambda i: lst[i][1] == k)          # calls that do not change the state are tried first (pop from the end)
        todo[k] = idx
    pending = collections.OrderedDict((k, None) for k in parent if todo[k])    # BFS order
    remaining = sum(len(v) for v in todo.values())
    expcache = {}
    visited = set()

    # chains scaled by a power of two that contain an inexact type: the rounding residue of a clipped multiplier
    # (beta + 2k*(-beta/2k), exactly 0 in the spec) is relative to the multiplier, not to the value observed; the
    # tolerance floor is 1e-12 of the largest finite value the spec predicts anywhere in this chain's graph
    floor = [None]

    def chain_floor():
        if floor[0] is None:
            m = 0.0
            if (chain["se"] or chain["ke"]) and any(L["ty"] in INEXACT_TYPES for L in chain["lv"]):
                for obs, _ in graph.values():
                    for o in obs:
                        for v in o["ev"]:
                            if v[0] == 0:
                                a = abs(val_float(v)[1])
                                if a > m:
                                    m = a
            floor[0] = m
        return floor[0]

    def expect(k):
        e = expcache.get(k)
        if e is None:
            e = expcache[k] = Expect(graph[k][0], chain, head, chain_floor())
        return e

    if corrupt:
        # self-test of the binding itself: falsify one expected value that came from TLC
        for k in parent:
            obs = graph[k][0]
            hit = [x for x, v in enumerate(obs[0]["ev"]) if v[0] == 0]
            if hit and any(k[0]):
                v = obs[0]["ev"][hit[0]]
                obs[0]["ev"][hit[0]] = [0, v[1] + v[2], v[2], v[3], v[4]]
                break

    def path_to(k):
        p = []
        while parent[k] is not None:
            pk, e = parent[k]
            p.append((e, k))
            k = pk
        p.reverse()
        return p

    def report(bad, script, cur, lastop, spv, pre=None):
        for key, info in bad:
            res["nviol"] += 1
            if len(res["violations"]) < MAXVIOL_PER_CHAIN:
                info = dict(info)
                # a short call sequence that shows it too: shortest path to the spec state, or to the pre-state + the last call
                cands = [[e for e, _ in path_to(cur)]]
                if pre is not None and lastop is not None:
                    cands.append([e for e, _ in path_to(pre)] + [lastop])
                shortp, repro = cands[0], None
                if "obs" in info:
                    repro = False
                    for cand in cands:
                        try:
                            b2 = build(mp, mcons, head, chain, Sp(spv, legacy, lean), head["maxn"])
                            for qq, e in enumerate(cand):
                                apply_op(b2, e, qq)
                            hit = not agrees(observe(b2, info["level"], info["obs"], info["q"], len(cur[1][info["level"] - 1])),
                                             info["expected"], info.get("tolerance", 0.0))
                        except Exception:
                            hit = True
                        if hit:
                            shortp, repro = cand, True
                            break
                spx = Sp(spv, legacy, lean)
                build(mp, mcons, head, chain, spx, head["maxn"])
                info.update({"chain": describe(head, chain), "built_by": res["how"], "after_call": None if lastop is None else opstr(lastop),
                             "spelling": spx.names, "spelling_of_observation": spell.obs_spelling(bcur[0], info["obs"][0], info["q"]) if "obs" in info else None,
                             "spec_state": {"n": list(cur[0]), "ys": [list(y) for y in cur[1]]},
                             "script": [list(e[:4]) for e in script], "script_text": [opstr(e) for e in script],
                             "short_script": [opstr(e) for e in shortp], "short_script_reproduces": repro, "cid": cid, "family": head["fam"],
                             "replay": {"chain": chain, "sp_v": spv, "legacy": legacy, "lean": lean, "nstored": len(cur[1][info["level"] - 1]),
                                        "head": {q: head[q] for q in ("types", "cond", "den", "base", "maxn", "fam")}}})
                after = (" ; ".join(opstr(e) for e in shortp) or "construction") if repro or not script else \
                    "the %d-call script of the artefact (last call %s)" % (len(script), opstr(script[-1]))
                what = "%s built %s: after %s the spec says %s = %r, mystic gives %r%s" % (
                    " > ".join(head["types"][L["ty"] - 1] + "(k=%s,h=%s)" % (numstr(L["k"], L["kd"], chain["ke"]), numstr(L["h"], L["hd"], 0)) for L in chain["lv"]),
                    " / ".join(res["how"]), after, info["observable"], info["expected"], info["got"],
                    "" if legacy or "obs" not in info or not info["spelling_of_observation"] else " (written as %s)" % info["spelling_of_observation"])
                res["violations"].append((key, info, what))

    bcur = [None]
    while remaining > 0 and res["nviol"] < MAXVIOL_PER_CHAIN and not (stop_first and res["nviol"]):
        spv = spelling_seed(head, cid, seed, res["traces"]) + sp_off
        sp = Sp(spv, legacy, lean)
        b = build(mp, mcons, head, chain, sp, head["maxn"])
        bcur[0] = b
        how = b.how
        res["how"] = how
        res["traces"] += 1
        res["spellings"].update(sp.names)
        cur = init
        script = []
        sample = [] if (want_sample and res["sample"] is None) else None
        bad = compare(b, expect(cur), head, chain, None, 0)
        visited.add(cur)
        if bad:
            report(bad, script, cur, None, spv)
            if any(k.startswith(("iteration", "stored")) for k, _ in bad) or res["traces"] >= 12:
                break                  # wrong right after construction in every spelling tried: every further step repeats it
            continue                   # another behaviour = another spelling
        steps = 0
        desync = False
        route = collections.deque()
        while steps < MAXSTEPS and remaining > 0 and not desync:
            first = False
            if route:
                e, nk = route.popleft()
            elif todo[cur]:
                idx = todo[cur].pop()
                e, nk = succ[cur][idx]
                first = True
            else:
                pending.pop(cur, None)
                hop = None
                for e2, k2 in succ[cur]:              # one-step look-ahead
                    if todo[k2]:
                        hop = (e2, k2)
                        break
                if hop is not None:
                    e, nk = hop
                else:
                    while pending:
                        tgt = next(iter(pending))
                        if todo[tgt]:
                            break
                        pending.pop(tgt)
                    if not pending:
                        remaining = 0
                        break
                    route.extend(path_to(tgt))
                    if cur != init:
                        e, nk = clear1[cur]
                    else:
                        e, nk = route.popleft()
            try:
                ret = apply_op(b, e, steps)
            except Exception as ex:
                ret = ex
            script.append(e)
            steps += 1
            res["steps"] += 1
            if first:
                remaining -= 1
                res["edges"] += 1
                if nontrivial_state(cur) or nontrivial_state(nk):
                    res["nontrivial_edges"] += 1
            pre, cur = cur, nk
            visited.add(cur)
            bad = compare(b, expect(cur), head, chain, e, steps)
            if isinstance(ret, BaseException):
                bad.insert(0, ("call:%s:raises" % {"I": "iter", "C": "clear", "S": "store"}[e[0]],
                               {"level": e[1], "observable": opstr(e), "expected": "returns",
                                "got": "raised %r (written as %s)" % (ret, spell.op_spelling(b, e, steps - 1))}))
            if sample is not None and len(sample) < 6 and pre != cur:
                o = graph[cur][0]
                sample.append({"call": opstr(e), "written as": spell.op_spelling(b, e, steps - 1),
                               "spec_n": list(cur[0]), "spec_ys (numerators)": [["inf" if y == INF else y for y in ys] for ys in cur[1]],
                               "spec F[1](x1..x4)": [val_float(v)[1] for v in o[0]["ev"]],
                               "spec F[1].error(x1..x4)^2 <<t,n,d,lg,e>>": o[0]["er"]})
            if bad:
                report(bad, script, cur, e, spv, pre)
                if any(x[0].startswith(("iteration", "stored", "call")) for x in bad):
                    desync = True      # the real object left the spec's state: start a fresh behaviour
                if stop_first:
                    break
        mut = spell.mutated_inputs(b)
        if mut:
            kind, pno, x0, x1 = mut[0]
            res["nviol"] += 1
            res["violations"].append(("input:x-mutated", {"x spelling": kind, "probe": pno, "before": x0, "after": x1, "cid": cid, "family": head["fam"],
                                                          "chain": describe(head, chain), "built_by": how, "script_text": [opstr(e) for e in script]},
                                      "a call changed the caller's x (%s, probe x%d): %r -> %r" % (kind, pno, x0, x1)))
        if sample:
            res["sample"] = {"family": head["fam"], "chain": describe(head, chain), "built_by": how, "spelling": sp.names, "behaviour": sample}
    res["states_visited"] = len(visited)
    res["complete"] = remaining == 0
    return res


# ------------------------------------------------------------------------------------------------
_CTX = {}


def work_part(job):
    """one catalogue part of one family: TLC (model check + emission) then replay of all its chains"""
    fam, part = job
    tier = _CTX["tier"]
    mp, mcons = _CTX["mp"], _CTX["mcons"]
    t0 = time.time()
    head, graphs, mc = tlc_part(tier, part, fam=fam)
    t1 = time.time()
    out = []
    for cid in sorted(graphs):
        lv = head["catalogue"][cid - 1]["lv"]
        out.append(replay_chain(mp, mcons, head, cid, graphs[cid], seed=_CTX["seed"],
                                want_sample=(len(lv) >= 2 or fam != "main") and any(L["ty"] in (8, 9) for L in lv)))
    return {"fam": fam, "part": part, "mc": mc, "chains": out, "ncat": len(head["catalogue"]), "t_tlc": t1 - t0, "t_replay": time.time() - t1,
            "cat_digest": json.dumps(head["catalogue"], sort_keys=True)}


def quiet():
    warnings.simplefilter("ignore")
    import numpy
    numpy.seterr(all="ignore")


def new_check(a):
    return Check("C15", "model_checking", a.tier, a.seed,
                 rule="TLC enumerates, for every chain of three families of catalogues (main: nine penalty types x k,h x condition "
                      "tables x nesting depth 1..3; bnd: boundary values of every argument -- conditions in halves/thirds, k=0, h=0, "
                      "k,h<1, default k, scales 2^-1074..2^996, store(x,0); long: iteration counters up to 12/13), every reachable "
                      "state (iteration counters, stored multiplier lists) of pen/Penalty.tla and "
                      "every enabled iter/clear/store call; the harness executes every such transition on the real mystic.penalty "
                      "closures and after each call compares iteration(), stored(), stored(i), F[j](x), F[j].error(x) for every "
                      "level j and probe x with the spec; every behaviour (fresh closures) and every call is written in another of "
                      "the legal concrete spellings (harness/c15_spell.py). a case = one executed call followed by the full comparison; "
                      "distinct non-trivial = distinct (chain, pre-state, call) transitions whose pre- or post-state has a "
                      "non-zero iteration counter or a stored multiplier")


def explore(ck, a):
    import multiprocessing
    tier = a.tier
    fams = TIERS[tier]
    # the heavy parts first: the long family's Lagrange chains, then the main family, the boundary family fills the gaps
    jobs = [(t["fam"], i) for t in sorted(fams, key=lambda t: {"long": 0, "main": 1, "bnd": 2}[t["fam"]]) for i in range(t["nparts"])]
    procs = max(1, min(a.jobs, os.cpu_count() or 1, 10, len(jobs)))
    ctx = multiprocessing.get_context("fork")
    results = []
    with ctx.Pool(procs) as pool:
        for r in pool.imap_unordered(work_part, jobs, chunksize=1):
            results.append(r)
    results.sort(key=lambda r: (r["fam"], r["part"]))
    complete = True
    samples = []
    nedges = 0
    states_visited = 0
    nchains = {}
    spellings = collections.Counter()
    perfam = {}
    for t in fams:
        fam = t["fam"]
        rs = [r for r in results if r["fam"] == fam]
        digests = set(r["cat_digest"] for r in rs)
        if len(digests) != 1:
            raise RuntimeError("the TLC runs disagree on the order of the chain catalogue (%s)" % fam)
        ncat = rs[0]["ncat"]
        seen = collections.Counter(c["cid"] for r in rs for c in r["chains"])
        if sorted(seen) != list(range(1, ncat + 1)) or set(seen.values()) != {1}:
            raise RuntimeError("catalogue %s not covered exactly once by the parts: %d chains, %d seen" % (fam, ncat, len(seen)))
        nchains[fam] = ncat
        tot = {"distinct": 0, "generated": 0, "depth": 0, "wall_s": 0.0}
        for r in rs:
            mc = r["mc"]
            if mc["violated"]:
                ck.violation("spec:" + mc["violated"], {"tlc": mc["out"], "family": fam, "part": r["part"]},
                             "TLC: design invariant/property %s violated in pen/Penalty.tla (%s)" % (mc["violated"], t["cfg"]))
            tot["distinct"] += mc["distinct"] or 0
            tot["generated"] += mc["generated"] or 0
            tot["depth"] = max(tot["depth"], mc["depth"] or 0)
            tot["wall_s"] += mc["wall_s"] or 0
        ck.mc(tot, "pen/MC_Penalty (%s, %d parts)" % (t["cfg"], t["nparts"]))
        pf = perfam[fam] = {"chains": ncat, "spec_states": tot["distinct"], "calls_executed": 0, "behaviours": 0}
        for r in rs:
            for c in r["chains"]:
                ck.case(nontrivial=True, n=c["nontrivial_edges"])
                ck.case(nontrivial=False, n=c["steps"] - c["nontrivial_edges"])
                ck.trace(c["traces"])
                pf["calls_executed"] += c["steps"]
                pf["behaviours"] += c["traces"]
                states_visited += c["states_visited"]
                nedges += c["edges"]
                spellings.update(c["spellings"])
                if c["sample"] is not None:
                    samples.append(c["sample"])
                for key, info, what in c["violations"]:
                    ck.violation(key, info, what)
                if c["nviol"] > len(c["violations"]):
                    ck.violations += c["nviol"] - len(c["violations"])
                if not c["complete"]:
                    complete = False
                elif c["states_visited"] != c["states"]:
                    raise RuntimeError("chain %s/%d: all edges walked but only %d of %d states visited" % (fam, c["cid"], c["states_visited"], c["states"]))
    samples.sort(key=lambda s: (s["family"] != "main", -len(s["built_by"]), json.dumps(s, sort_keys=True)))
    fs = [s for s in samples if s["family"] == "main"]
    for s in fs[:1] + fs[-1:] + [s for s in samples if s["family"] == "bnd"][:2] + [s for s in samples if s["family"] == "long"][:1]:
        ck.sample(s, limit=5)
    ck.exhaustive = complete
    ck.extra["chains"] = sum(nchains.values())
    ck.extra["families"] = perfam
    ck.extra["distinct_transitions_executed_on_impl"] = nedges
    ck.extra["spec_states_reached_on_impl"] = states_visited
    ck.extra["behaviours_per_spelling"] = dict(sorted(spellings.items()))
    ck.extra["spellings_per_call"] = {"x": list(spell.X_KINDS), "iter": list(spell.ITER_NONE + spell.ITER_I),
                                      "store": list(spell.STORE_NONE + spell.STORE_I), "stored": list(spell.STORED_ALL + spell.STORED_I),
                                      "evaluation": list(spell.EVALS), "error": ["error(x)", "error(x=x)"],
                                      "rotation": "by the call counter: every form every 3..24 calls"}
    ck.extra["job_seconds (family, part, tlc, replay)"] = [[r["fam"], r["part"], round(r["t_tlc"], 1), round(r["t_replay"], 1)] for r in results]
    ck.extra["t_tlc_cpu_s"] = round(sum(r["t_tlc"] for r in results), 1)
    ck.extra["t_replay_cpu_s"] = round(sum(r["t_replay"] for r in results), 1)
    ck.assumptions = [
        "condition values are integers, halves (binary fractions) or thirds, optionally scaled by a power of two; k,h integers or "
        "binary fractions (k=inf for the uniform defaults), k optionally scaled by a power of two: float arithmetic of the "
        "quadratic/linear/uniform/lagrange_equality types is exact on them and compared with ==",
        "chains containing lagrange_inequality (division by 2k), barrier_inequality (log) or a condition in thirds at or below the "
        "observed level are compared at 1e-12 relative to the largest stacked magnitude; error(x) at 1e-12 relative to sqrt(spec error^2)",
        "barrier_inequality: the documented log barrier (-log(-f)/(2k h^n) inside, +inf on the boundary and outside) is the "
        "oracle, not 'zero on the feasible set'; Lagrange types with accumulated multipliers follow the documented accumulation",
        "k = 0 and h = 0 only for the types that do not divide by k*h^n (barrier and lagrange_inequality raise ZeroDivisionError "
        "there: outside the domain); 'strictly positive where violated' is premised on k*h^n > 0",
        "conditions scaled to 2^-1074 / 2^996 only for the types of degree <= 1 in the condition, and error(x) is not compared "
        "there (its square leaves the float range); scaled chains decorate the zero function or are of degree 0",
        "spellings: only those Python accepts for the value at hand (int / np.int64 for integral values, float32 where every "
        "intermediate stays exact in 24 bits, np.int64 counters unless k is a python int beyond 2^63)",
        "bounded instance: iteration counters, stored-list lengths, k,h, condition tables and nesting depth as in the MC_Penalty "
        "catalogues; store() at a point where the condition divides by zero records an infinite multiplier (IEEE arithmetic follows)",
        "trusted: TLC, the transcription of the docstring formulas into Penalty.tla, the float rendering (n/d - sum log(a)p/q)*2^e of spec values",
    ]


# ------------------------------------------------------------------------------------------------
# self-test: in-memory mutants of mystic.penalty / mystic.constraints
def mutate(mod, fname, subs):
    import inspect
    f = getattr(mod, fname)
    src = inspect.getsource(f)
    for old, new in subs:
        if old not in src:
            raise RuntimeError("mutant does not apply to %s: %r not found" % (fname, old))
        src = src.replace(old, new)
    ns = dict(mod.__dict__)
    exec(compile(src, "<mutant of %s>" % fname, "exec"), ns)
    setattr(mod, fname, ns[fname])


PROP_CLEAR = "        if hasattr(_f[0], 'clear'): _f[0].clear()\n"
PROP_ITER = "        if hasattr(_f[0], 'iter'): _f[0].iter(i)\n"

MUTANTS = [
    ("quadratic_inequality: factor 2 dropped", [("quadratic_inequality", [("float(2*_k)*max(0., pf)**2", "float(_k)*max(0., pf)**2")])]),
    ("linear_inequality: factor 2 dropped", [("linear_inequality", [("float(2*_k)*abs(", "float(_k)*abs(")])]),
    ("linear_equality: h**n -> h*n", [("linear_equality", [("k * pow(h,_n[0])", "k * (h*_n[0] if _n[0] else 1)")])]),
    ("quadratic_equality: h**n -> h**(n+1)", [("quadratic_equality", [("pow(h,_n[0])", "pow(h,_n[0]+1)")])]),
    ("uniform_equality: clear() not propagated to the nested penalty", [("uniform_equality", [(PROP_CLEAR, "")])]),
    ("lagrange_inequality: clear() keeps the stored multipliers", [("lagrange_inequality", [("        [_y.pop() for i in range(len(_y))]\n", "")])]),
    ("linear_inequality: max(0,pf) -> pf", [("linear_inequality", [("abs(max(0., pf))", "abs(pf)")])]),
    ("quadratic_inequality: max(0,pf) -> pf", [("quadratic_inequality", [("max(0., pf)**2 + f(", "pf**2 + f(")])]),
    ("barrier_inequality: iter() not propagated", [("barrier_inequality", [(PROP_ITER, "")])]),
    ("quadratic_equality: iter(i) propagated as iter()", [("quadratic_equality", [("_f[0].iter(i)", "_f[0].iter()")])]),
    ("uniform_inequality: error() loses max(0,.)", [("uniform_inequality", [("rms = max(0., condition(x, *args, **kwds))**2", "rms = condition(x, *args, **kwds)**2")])]),
    ("linear_equality: error() ignores the nested penalty", [("linear_equality", [("        if hasattr(_f[0], 'error'): rms += _f[0].error(x)**2\n", "")])]),
    ("lagrange_equality: multiplier not accumulated (last one only)", [("lagrange_equality", [("lam += 2.*_k*stored(i)", "lam = 2.*_k*stored(i)")])]),
    ("lagrange_inequality: multiplier may go negative (no max)", [("lagrange_inequality", [("beta += 2.*_k*max(-beta/(2.*_k), stored(i))", "beta += 2.*_k*stored(i)")])]),
    ("lagrange_equality: store(x) passes i=None on instead of the resolved index", [("lagrange_equality", [("_f[0].store(x,i)", "_f[0].store(x)")])]),
    ("uniform_inequality: boundary point penalised (pf > 0 -> pf >= 0)", [("uniform_inequality", [("if pf > 0 else 0.0", "if pf >= 0 else 0.0")])]),
    ("quadratic_inequality: ZeroDivisionError -> 0 instead of inf", [("quadratic_inequality", [("                return inf\n            _k = k", "                return 0.0\n            _k = k")])]),
    ("barrier_inequality: 1/(2k) -> 1/k", [("barrier_inequality", [("-.5/_k*log(-pf)", "-1./_k*log(-pf)")])]),
    ("lagrange_equality: store(x, 0) taken for store(x) (if not i)", [("lagrange_equality", [("        if i is None: i = iteration()\n", "        if not i: i = iteration()\n")])]),
    ("uniform_equality: clear() leaves the iteration counter", [("uniform_equality", [("    def clear():\n        _n[0] = 0\n", "    def clear():\n")])]),
]


KW = "    if kwds is None: kwds={}\n"
# mutants that only the boundary values / the rotating spellings can see (functions named "constraints.x" live in
# mystic.constraints).  Each is also run against the enumeration as it was before (main family, one spelling).
NEW_MUTANTS = [
    ("quadratic_equality: k=0 taken for a missing k (k = k or 100)", [("quadratic_equality", [(KW, KW + "    k = k or 100\n")])]),
    ("linear_inequality: h=0 taken for a missing h (h = h or 5)", [("linear_inequality", [(KW, KW + "    h = h or 5\n")])]),
    ("linear_inequality: violation truncated to an integer (int-typed working value)", [("linear_inequality", [("abs(max(0., pf))", "abs(max(0, int(pf)))")])]),
    ("lagrange_equality: stored multipliers truncated to integers", [("lagrange_equality", [("        l = len(_y)\n", "        if y != inf: y = int(y)\n        l = len(_y)\n")])]),
    ("barrier_inequality: k truncated to an integer", [("barrier_inequality", [("_k = k * pow(h,_n[0])", "_k = int(k) * pow(h,_n[0])")])]),
    ("uniform_inequality: violated only beyond a tolerance (pf > 1e-9)", [("uniform_inequality", [("if pf > 0 else 0.0", "if pf > 1e-9 else 0.0")])]),
    ("quadratic_inequality: tiny violations flushed to zero (max(0, pf) below 1e-100)", [("quadratic_inequality", [("max(0., pf)**2 + f(", "(max(0., pf) if pf > 1e-100 else 0.)**2 + f(")])]),
    ("quadratic_equality: extra arguments of F(x, ...) not passed on to the decorated function", [("quadratic_equality", [("pf**2 + f(x, *argz, **kwdz)", "pf**2 + f(x)")])]),
    ("linear_equality: condition evaluated without its args", [("linear_equality", [("pf = condition(x, *args, **kwds)", "pf = condition(x, **kwds)")])]),
    ("uniform_equality: error() evaluates the condition without its args", [("uniform_equality", [("rms = condition(x, *args, **kwds)**2", "rms = condition(x, **kwds)**2")])]),
    ("quadratic_inequality: growth capped at the 9th iteration", [("quadratic_inequality", [("_k = k * pow(h,_n[0])", "_k = k * pow(h,min(_n[0], 9))")])]),
    ("lagrange_inequality: default k 20 -> 10", [("lagrange_inequality", [("kwds=None, k=20, h=5):", "kwds=None, k=10, h=5):")])]),
    ("linear_equality: default h 5 -> 2", [("linear_equality", [("kwds=None, k=100, h=5):", "kwds=None, k=100, h=2):")])]),
    ("with_penalty: positional arguments dropped", [("constraints.with_penalty", [("@ptype(condition, *args, **kwds)", "@ptype(condition, **kwds)")])]),
    ("as_penalty: only the first coordinate enters the norm", [("constraints.as_penalty", [("for i in range(len(x)):", "for i in range(1):")])]),
    ("as_penalty: default ptype is linear_equality", [("constraints.as_penalty", [("from mystic.penalty import quadratic_equality\n        ptype = quadratic_equality", "from mystic.penalty import linear_equality\n        ptype = linear_equality")])]),
    ("quadratic_equality: stored(i) refuses negative indices", [("quadratic_equality", [("        try: return _y[i]\n", "        if isinstance(i, int) and i < 0: return 0.0\n        try: return _y[i]\n")]),
                                                               ("lagrange_equality", [("        try: return _y[i]\n", "        if isinstance(i, int) and i < 0: return 0.0\n        try: return _y[i]\n")])]),
    ("uniform_equality: a DivisionByZero that is not exactly ZeroDivisionError escapes", [("uniform_equality", [("            except ZeroDivisionError:\n                return inf\n", "            except ZeroDivisionError as _e:\n                if type(_e) is not ZeroDivisionError: raise\n                return inf\n")])]),
]
LEGACY_MAX_STATES = 700       # the legacy comparison walks the main-family chains up to this size


def selftest(a, mp, mcons):
    import concurrent.futures as cf
    tier = "quick"
    t0 = time.time()
    jobs = [("main", i, 8) for i in range(8)] + [("bnd", i, 4) for i in range(4)] + [("long", i, 2) for i in range(2)]
    with cf.ThreadPoolExecutor(8) as ex:
        parts = list(ex.map(lambda j: tlc_part(tier, j[1], j[2], fam=j[0]), jobs))
    for head, graphs, mc in parts:
        if mc["violated"]:
            print("SELFTEST aborted: spec violated %s" % mc["violated"])
            return 2
    heads = {}
    graphs = {}
    for head, g, _ in parts:
        heads.setdefault(head["fam"], head)
        for cid, gg in g.items():
            graphs[(head["fam"], cid)] = gg
    print("selftest: %d chains, %d spec states from TLC in %.1fs" % (len(graphs), sum(len(g) for g in graphs.values()), time.time() - t0))
    types = heads["main"]["types"]
    order = sorted(graphs, key=lambda c: (len(graphs[c]), c))

    def run(filter_types=None, corrupt=None, legacy=False):
        nv, keys = 0, collections.Counter()
        for fc in order:
            fam, cid = fc
            head = heads[fam]
            chain = head["catalogue"][cid - 1]
            if filter_types and not any(types[L["ty"] - 1] in filter_types for L in chain["lv"]):
                continue
            if corrupt is not None and fc != corrupt:
                continue
            if legacy and (fam != "main" or len(graphs[fc]) > LEGACY_MAX_STATES):
                continue
            g = graphs[fc]
            if corrupt is not None:
                g = json.loads(json.dumps({"g": [[list(k[0]), [list(y) for y in k[1]], v[0], v[1]] for k, v in g.items()]}))["g"]
                g = {skey(n, ys): (obs, ss) for n, ys, obs, ss in g}
            r = replay_chain(mp, mcons, head, cid, g, stop_first=True, corrupt=corrupt is not None, legacy=legacy)
            for key, info, what in r["violations"]:
                keys[key] += 1
            nv += r["nviol"]
            if nv:
                break
        return nv, keys

    missed = 0
    orig = {f: getattr(mp, f) for f in types}
    orig_c = {f: getattr(mcons, f) for f in ("with_penalty", "as_penalty")}

    def apply(edits):
        filt = set()
        for fname, subs in edits:
            if fname.startswith("constraints."):
                mutate(mcons, fname.split(".", 1)[1], subs)
            else:
                mutate(mp, fname, subs)
                filt.add(fname)
        return filt or None

    def restore():
        for f, v in orig.items():
            setattr(mp, f, v)
        for f, v in orig_c.items():
            setattr(mcons, f, v)

    def judge(edits, legacy=False):
        filt = apply(edits)
        try:
            nv, keys = run(filter_types=filt, legacy=legacy)
        except Exception as ex:
            nv, keys = 1, {"raised:%r" % (ex,): 1}
        finally:
            restore()
        return nv, keys

    for name, edits in MUTANTS:
        t1 = time.time()
        nv, keys = judge(edits)
        print("SELFTEST %s: %s (%s) %.1fs" % (name, "caught" if nv else "MISSED", ", ".join(sorted(keys)) or "-", time.time() - t1))
        sys.stdout.flush()
        missed += 0 if nv else 1
    for name, edits in NEW_MUTANTS:
        t1 = time.time()
        nv, keys = judge(edits)
        nl, _ = judge(edits, legacy=True)
        print("SELFTEST %s: %s (%s) [enumeration before the spelling rotation / boundary catalogues: %s] %.1fs" % (
            name, "caught" if nv else "MISSED", ", ".join(sorted(keys)[:4]) or "-", "caught too" if nl else "missed", time.time() - t1))
        sys.stdout.flush()
        missed += 0 if nv else 1
    lag = [c for c in order if c[0] == "main" and any(L["ty"] == 9 for L in heads["main"]["catalogue"][c[1] - 1]["lv"])][0]
    nv, keys = run(corrupt=lag)
    print("SELFTEST corrupted expected value from TLC (chain %s/%d): %s (%s)" % (lag[0], lag[1], "caught" if nv else "MISSED", ", ".join(sorted(keys)) or "-"))
    missed += 0 if nv else 1
    # a value of the boundary family (scaled by a power of two): corrupt its binary exponent
    sc = [c for c in order if c[0] == "bnd" and heads["bnd"]["catalogue"][c[1] - 1]["se"] == -40 and heads["bnd"]["catalogue"][c[1] - 1]["lv"][0]["ty"] == 1][0]
    g = json.loads(json.dumps({"g": [[list(k[0]), [list(y) for y in k[1]], v[0], v[1]] for k, v in graphs[sc].items()]}))["g"]
    g = {skey(n, ys): (obs, ss) for n, ys, obs, ss in g}
    done = False
    for k, (obs, ss) in g.items():
        for v in obs[0]["ev"]:
            if v[0] == 0 and v[1] != 0 and not done:
                v[4] += 1
                done = True
    r = replay_chain(mp, mcons, heads["bnd"], sc[1], g, stop_first=True)
    print("SELFTEST corrupted binary exponent of a TLC value (chain %s/%d): %s (%s)" % (sc[0], sc[1], "caught" if r["nviol"] else "MISSED",
                                                                                      ", ".join(sorted(k for k, _, _ in r["violations"])) or "-"))
    missed += 0 if r["nviol"] else 1
    return 1 if missed else 0


# ------------------------------------------------------------------------------------------------
def replay_artefact(path, mp, mcons):
    """re-run the script of a violation artefact on the current tree (same spelling)"""
    d = json.load(open(path))["detail"]
    if "obs" not in d or "replay" not in d:
        print("artefact %s carries no replayable observation (spec-level violation?)" % path)
        return 2
    rp = d["replay"]
    head = dict(rp["head"])
    chain = rp["chain"]
    b = build(mp, mcons, head, chain, Sp(rp["sp_v"], rp.get("legacy", False), rp.get("lean", False)), head["maxn"])
    for qq, e in enumerate(d["script"]):
        apply_op(b, e, qq)
    exp = d["expected"]
    conv = lambda v: float(v) if isinstance(v, str) else v
    exp = [conv(v) for v in exp] if isinstance(exp, list) else conv(exp)
    try:
        got = observe(b, d["level"], d["obs"], d["q"], rp.get("nstored", 0))
    except Exception as ex:
        got = "raised %r" % (ex,)
    ok = agrees(got, exp, d.get("tolerance") or 0.0)
    print("replay %s: %s after %s\n  built %s\n  spec expected %r, mystic now gives %r -> %s" % (
        path, d["observable"], " ; ".join(d["script_text"]) or "construction", " / ".join(b.how), exp, got, "agrees" if ok else "STILL DISAGREES"))
    if not ok:
        print("VIOLATION property=C15 replay=%s" % path)
    return 0 if ok else 1


def main():
    a = tier_seed()
    assert_repo()
    quiet()
    import mystic.penalty as mp
    import mystic.constraints as mcons
    if a.replay:
        return replay_artefact(a.replay, mp, mcons)
    if a.selftest:
        return selftest(a, mp, mcons)
    _CTX.update(tier=a.tier, mp=mp, mcons=mcons, seed=a.seed)
    ck = new_check(a)
    explore(ck, a)
    return ck.finish()


if __name__ == "__main__":
    main_guard(main)
