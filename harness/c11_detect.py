"""C11, spec -> code for the collapse DETECTORS.

(Every parameter history is replayed twice: as it is, and embedded at rotating real positions such as [1, 8, 3]
of a 12-dimensional monitor -- see harness/c11_embed.py.)

TLC (specs/term/CollapseCases.tla) emits every history of a bounded class together with the report the
specification gives for every configuration of a catalogue (tolerance x window x target/offset x mask in
every accepted format).  `replay_state` rebuilds the history as a real mystic Monitor and compares

  * collapse_at / collapse_as / collapse_weight / collapse_position (direct call)        == r
  * the termination condition Collapse*(..)(solver, info=True) -> collapse.collapsed(..) == c
    (stub solver holding exactly that step monitor; also below Or(never, .) and through a real solver's
    Collapsed(info=True))
  * mask.update_mask(condition, {doc: report}) -> the condition's mask                  == a
  * the detector fed its own output as (additional) mask                                == {}

Everything expected comes out of TLC; nothing here evaluates a tolerance test.
"""
import warnings

NONE = -1


def _tol(t):
    return t[0] / t[1]


def _gen(g):
    return None if g == NONE else g


def _target(tgt, emb=None):
    if tgt["mode"] == "none":
        return None
    if tgt["mode"] == "scalar":
        return float(tgt["v"][0])
    if emb is not None:
        return emb.target_list(tgt["v"])      # one target per real position (fillers: far away)
    return [float(v) for v in tgt["v"]]


def tup(x):
    """nested lists (JSON) / numpy ints -> nested tuples of python ints"""
    if isinstance(x, (list, tuple)):
        return tuple(tup(i) for i in x)
    return int(x)


def srt(s):
    return sorted(s, key=str)


def elems(x):
    return set(tup(i) for i in x)


# ---- masks in every accepted format ------------------------------------------------------------------
def py_mask(c, emb=None):
    """the python mask object of a catalogue configuration (at the real positions of an embedding)"""
    mk = c["mk"]
    if mk["none"]:
        return None
    k = c["k"]
    if emb is not None and k in ("at", "as"):
        return emb.idx(mk["idx"]) | (emb.pairs(mk["prs"]) if k == "as" else set())
    if k == "at":
        return set(int(i) for i in mk["idx"])
    if k == "as":
        return set(int(i) for i in mk["idx"]) | set(tup(p) for p in mk["prs"])
    ms = srt(tup(e) for e in mk["ms"])
    fmt = mk["fmt"]
    if fmt == "set":
        return set(ms)
    if fmt == "dict":
        d = {}
        for m, e in ms:
            d.setdefault(m, set()).add(e)
        return d
    if fmt == "where":
        if not ms and k == "ps":
            return ()       # collapse_position rejects ((), ()) as "not a valid mask"; the empty 'where' mask it accepts is ()
        return (tuple(m for m, e in ms), tuple(e for m, e in ms))
    raise ValueError(fmt)


def mask_elems(mask):
    """the set of elements a python mask / report of any format denotes"""
    if mask is None:
        return set()
    if isinstance(mask, dict):
        return set((int(m), tup(e)) for m, s in mask.items() for e in s)
    if isinstance(mask, set):
        return set(tup(e) for e in mask)
    if isinstance(mask, (tuple, list)):
        if not len(mask):
            return set()
        a, b = mask
        return set((int(m), tup(e)) for m, e in zip(a, b))
    raise TypeError("unknown mask/report format %r" % (mask,))


def fmt_of(obj):
    if isinstance(obj, dict):
        return "dict"
    if isinstance(obj, set):
        return "set"
    return "where"


# ---- the objects under test ------------------------------------------------------------------------
class Stub(object):
    """exactly what a Collapse* termination condition reads from a solver"""
    def __init__(self, mon):
        self._stepmon = mon
        self.energy_history = list(mon._y)


def monitor(h, npts=None):
    from mystic.monitors import Monitor
    mon = Monitor(npts=npts) if npts else Monitor()
    for k, p in enumerate(h):
        mon([float(v) for v in p], float(len(h) - k))
    return mon


def detector(ct, c, emb=None):
    k = c["k"]
    if k == "at":
        return lambda mon, mask: ct.collapse_at(mon, target=_target(c["tgt"], emb), tolerance=_tol(c["tol"]),
                                                generations=_gen(c["g"]), mask=mask)
    if k == "as":
        return lambda mon, mask: ct.collapse_as(mon, offset=bool(c["off"]), tolerance=_tol(c["tol"]),
                                                generations=_gen(c["g"]), mask=mask)
    if k == "wt":
        return lambda mon, mask: ct.collapse_weight(mon, tolerance=_tol(c["tol"]), generations=_gen(c["g"]), mask=mask)
    return lambda mon, mask: ct.collapse_position(mon, tolerance=_tol(c["tol"]), generations=_gen(c["g"]), mask=mask)


def condition(mt, c, mask, emb=None):
    k = c["k"]
    if k == "at":
        return mt.CollapseAt(target=_target(c["tgt"], emb), tolerance=_tol(c["tol"]), generations=c["g"], mask=mask)
    if k == "as":
        return mt.CollapseAs(offset=bool(c["off"]), tolerance=_tol(c["tol"]), generations=c["g"], mask=mask)
    if k == "wt":
        return mt.CollapseWeight(tolerance=_tol(c["tol"]), generations=c["g"], mask=mask)
    return mt.CollapsePosition(tolerance=_tol(c["tol"]), generations=c["g"], mask=mask)


def report_elems(c, rep):
    """a detector's return value as the set of elements of the specification"""
    if c["k"] in ("at", "as"):
        if not isinstance(rep, set):
            raise TypeError("collapse_%s returned %r, not a set" % (c["k"], rep))
        return set(tup(e) for e in rep)
    return mask_elems(rep)


def describe(c):
    d = {"detector": {"at": "collapse_at", "as": "collapse_as", "wt": "collapse_weight", "ps": "collapse_position"}[c["k"]],
         "tolerance": _tol(c["tol"]), "generations": _gen(c["g"])}
    if c["k"] == "at":
        d["target"] = _target(c["tgt"])
    if c["k"] == "as":
        d["offset"] = bool(c["off"])
    d["mask"] = repr(py_mask(c))
    return d


KIND = {"at": "collapse_at", "as": "collapse_as", "wt": "collapse_weight", "ps": "collapse_position"}


def replay_state(mods, header, st, solver_every=7, emb=None):
    """replay one emitted history; returns (ncases, number of non-trivial cases, violations[(key, detail, what)]).
    emb (param mode only): an embedding of the parameters into a larger real dimension (harness/c11_embed.py)"""
    ct, mt, ma, Solver = mods
    warnings.simplefilter("ignore")
    import copy
    h = st["h"]
    npts = (header["p"],) * header["m"] if header["mode"] != "param" else None
    if emb is not None and (emb.identity or header["mode"] != "param"):
        emb = None
    mon = monitor(h, npts) if emb is None else monitor(emb.history(h))
    viol, keys, n = [], 0, 0

    counts = {}

    def proj(c, got, what="report"):
        """a real report / mask as elements of the specification; fillers projected away (they may only be reported by
        the spread tests, which report everything on a window of one record)"""
        if emb is None:
            return got
        if c["k"] == "at":
            mine, fil = emb.back_idx(got)
        else:
            ints = set(e for e in got if not isinstance(e, tuple))
            mine, f1 = emb.back_idx(ints)
            prs, f2 = emb.back_pairs(got - ints)
            mine, fil = mine | prs, f1 | f2
        if fil and not (what.startswith("mask") and spread(c)):
            bad(c, "%s names filler parameters %s (real positions; embedded parameters at %s)" % (what, srt(fil), emb.pm),
                "filler-collapsed", got=srt(got))
        return mine

    def spread(c):
        """the tests on the spread over the window (target=None / offset=True) report EVERYTHING on a window of one
        record, fillers included: under an embedding the fillers are named in the mask of these configurations"""
        return (c["k"] == "at" and c["tgt"]["mode"] == "none") or (c["k"] == "as" and c["off"])

    def emask(c, mask):
        if emb is None or not spread(c):
            return mask
        return set(mask or ()) | set(emb.fillers)

    def norm(c, exp):
        """specification elements in the form proj() gives: pairs without orientation under an embedding"""
        if emb is None or c["k"] != "as":
            return exp
        return set(tuple(sorted(e)) if isinstance(e, tuple) else e for e in exp)

    def bad(c, what, key, **detail):
        k = "%s:%s" % (KIND[c["k"]], key)
        counts[k] = counts.get(k, 0) + 1
        if counts[k] > 2:                 # further occurrences in this history are only counted
            return
        d = {"history": h, "npts": npts}
        if emb is not None:
            d["embedding"] = repr(emb)
        d.update(describe(c))
        d.update(detail)
        viol.append(("%s:%s" % (KIND[c["k"]], key), d, "%s(%s) on history %s: %s" % (
            KIND[c["k"]], ", ".join("%s=%s" % kv for kv in describe(c).items() if kv[0] != "detector"), h,
            what + ("" if emb is None else " [parameters embedded at %r]" % (emb,)))))

    # ---- definition catalogue (mask=None): the documented tolerance test over the look-back window
    for i, c in enumerate(header["defcat"]):
        exp = elems(st["d"][i])
        n += 1
        if exp:
            keys += 1
        try:
            got = proj(c, report_elems(c, detector(ct, c, emb)(mon, emask(c, None))))
        except Exception as ex:
            bad(c, "raised %r (specification: %s)" % (ex, srt(exp)), "raises", expected=srt(exp), error=repr(ex))
            continue
        if got != exp:
            kind = "detect" + ("-target" if c["k"] == "at" and c["tgt"]["mode"] != "none" else "") + ("-offset" if c["off"] else "")
            bad(c, "specification reports %s, mystic %s" % (srt(exp), srt(got)), kind, expected=srt(exp), got=srt(got))

    # ---- mask catalogue: Report = Detect \ mask in every format, update_mask, fixed point, conditions
    for i, c in enumerate(header["maskcat"] if st["m"] else ()):
        e = st["m"][i]
        exp_r, exp_a, exp_c = elems(e["r"]), elems(e["a"]), elems(e["c"])
        if c["k"] == "as":          # the python mask of collapse_as is the union of its single indices and its pairs
            exp_a |= set(int(j) for j in c["mk"]["idx"])
        exp_a = norm(c, exp_a)
        mask = py_mask(c, emb)
        fmt = "none" if mask is None else c["mk"]["fmt"]
        mask = emask(c, mask)
        n += 1
        if e["x"] > 0 or exp_r:
            keys += 1
        det = detector(ct, c, emb)
        try:
            raw = det(mon, copy.deepcopy(mask))
            got = proj(c, report_elems(c, raw))
        except Exception as ex:
            bad(c, "raised %r (specification: %s)" % (ex, srt(exp_r)), "raises:mask-" + fmt, expected=srt(exp_r), error=repr(ex))
            continue
        if got != exp_r:
            bad(c, "specification reports Detect \\ mask = %s, mystic %s" % (srt(exp_r), srt(got)),
                "report-minus-mask:" + fmt, expected=srt(exp_r), got=srt(got))
            continue
        if c["k"] in ("wt", "ps") and got and fmt_of(raw) != ("dict" if mask is None else fmt):
            bad(c, "report format %s for a mask of format %s" % (fmt_of(raw), fmt), "report-format:" + fmt, got=repr(raw))
        # the termination condition built with this mask: reports nothing until the history is longer than the window
        try:
            cond = condition(mt, c, copy.deepcopy(mask), emb)
            stub = Stub(mon)
            msg = cond(stub, True)
            truth = bool(cond(stub))
            col = ct.collapsed(msg) if msg else None
            got_c = proj(c, report_elems(c, col[cond.__doc__])) if col else set()
            if emb is not None:       # only fillers reported (a window of one record): the embedded parameters report nothing
                truth = bool(got_c)
            msg2 = mt.Or(mt.VTR(-1.0, -1.0), cond)(stub, True)
            col2 = ct.collapsed(msg2) if msg2 else None
            got_c2 = proj(c, report_elems(c, col2[cond.__doc__])) if col2 else set()
            if (i + len(h)) % solver_every == 0 and header["mode"] == "param":
                s = Solver(len(h[0]) if emb is None else emb.dim)
                s._stepmon = mon
                s.SetTermination(cond)
                col3 = s.Collapsed(info=True)
                got_c3 = proj(c, report_elems(c, col3[cond.__doc__])) if col3 else set()
                if emb is None and bool(s.Collapsed()) != bool(exp_c):
                    got_c3 = {"Collapsed() is %s" % s.Collapsed()}
            else:
                got_c3 = exp_c
        except Exception as ex:
            bad(c, "termination condition raised %r" % (ex,), "condition-raises:" + fmt, error=repr(ex))
            continue
        if got_c != exp_c or bool(truth) != bool(exp_c) or got_c2 != exp_c or got_c3 != exp_c:
            bad(c, "condition on a solver with this step monitor: specification %s, mystic info %s / bool %s / under Or %s / "
                   "solver.Collapsed %s" % (srt(exp_c), srt(got_c), truth, srt(got_c2), srt(got_c3)),
                "condition-report:" + fmt, expected=srt(exp_c), got=srt(got_c), message=msg)
            continue
        # update_mask: the mask grows by exactly what was reported (format kept)
        try:
            cond = condition(mt, c, copy.deepcopy(mask), emb)
            new = ma.update_mask(cond, {cond.__doc__: raw}) if raw else cond
            newmask = ma.get_mask(new)
            got_a = proj(c, mask_elems(newmask), "mask after update_mask")
        except Exception as ex:
            bad(c, "update_mask raised %r" % (ex,), "update-mask-raises:" + fmt, error=repr(ex))
            continue
        if got_a != exp_a:
            bad(c, "mask after update_mask: specification %s, mystic %s" % (srt(exp_a), srt(got_a)),
                "update-mask:" + fmt, expected=srt(exp_a), got=srt(got_a), reported=srt(got))
            continue
        # fed its own output as mask: nothing new (FixedPoint is a TLC-checked invariant of the specification)
        try:
            again = proj(c, report_elems(c, det(mon, copy.deepcopy(newmask))))
            own = proj(c, report_elems(c, det(mon, copy.deepcopy(raw)))) if (mask is None and raw) else set()
        except Exception as ex:
            bad(c, "detector raised %r on the updated mask %r" % (ex, newmask), "refeed-raises:" + fmt, error=repr(ex))
            continue
        if again or own:
            bad(c, "detector fed the updated mask %r reports %s again" % (newmask, srt(again or own)),
                "fixed-point:" + fmt, got=srt(again or own))
    return n, keys, viol, counts


def replay_chunk(args):
    """process-pool entry: replay a list of emitted histories.
    returns (cases, non-trivial cases, written-out violations (<= 3 per class), {class: total count})"""
    header, states = args[0], args[1]
    embed = int(args[2]) if len(args) > 2 else 0      # k > 0: also replay every k-th history under one (rotating) embedding
    import mystic.collapse as ct, mystic.termination as mt, mystic.mask as ma
    from mystic.solvers import NelderMeadSimplexSolver
    from harness.c11_embed import maps_for
    n = k = 0
    viol, kept, perkey = [], {}, {}
    embs = maps_for(header["n"])[1:] if (embed and header["mode"] == "param") else []
    for j, st in enumerate(states):
        todo = [None] + ([embs[(j // embed + len(st["h"])) % len(embs)]] if (embs and j % embed == 0) else [])
        for emb in todo:
            a, b, v, cnt = replay_state((ct, mt, ma, NelderMeadSimplexSolver), header, st, emb=emb)
            n += a
            k += b
            for x in v:
                if kept.get(x[0], 0) < 3:
                    kept[x[0]] = kept.get(x[0], 0) + 1
                    viol.append(x)
            for key, c in cnt.items():
                perkey[key] = perkey.get(key, 0) + c
    return n, k, viol, perkey
