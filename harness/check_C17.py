"""C17 -- combinators claim success only at a fixed point; couplers compose as documented.

Specifications: specs/cons/Combinators.tla (and_/or_/not_ as loops, members = arbitrary functions on a
finite domain, randomisation = nondeterministic action, success rule as-is / demanded),
specs/cons/Couplers.tla (inner/outer/additive(+proxies) and the penalty combinators as table algebra).

design   TLC model-checks the claims `onexit => all / some / no member fixes ret`, one exit path,
         termination within the cap -- for the rule the property demands (must hold) and for the
         rule the code uses (TLC emits every run in which the as-is and_ claims success wrongly).
spec->code  * every emitted wrong-success run of the as-is design is re-run on the REAL and_ with a
              scripted random; a reproduced one is a violation of C17 by mystic;
            * every coupler / penalty-combinator case table emitted by TLC is replayed on the real
              mystic.coupler functions and compared value by value.
code->spec  the REAL and_/or_/not_ run with table-driven members, a scripted `random` module and
            sentinel onexit/onfail; every member call, draw and exit is logged; TLC validates all
            traces against Trace_Combinators (the run must be a run of the transcribed loop) and
            evaluates the claim on the returned vector with pristine member tables.
"""
import sys, os, json, itertools, random as pyrandom, contextlib, shutil, math
from concurrent.futures import ThreadPoolExecutor
from harness.core import Check, tier_seed, assert_repo, main_guard
from harness.tlc import run_tlc, counterexample, scratch_dir

K_NONIDEM = "and_:success-after-n-iterates-nonidempotent-member"
K_RANDWIN = "and_:success-window-contains-randomised-iterate"
OFF = -1            # draw target "off the lattice"


# =========================================================================================
# recording the real combinators
# =========================================================================================
class Tagged(list):
    """what a sentinel returns: lets the harness see that the combinator returned it unchanged"""
    path = None


class Lattice(object):
    """the finite domain: vals^dim as float vectors; members are tables over its points"""
    def __init__(self, vals, dim):
        self.vals = [float(v) for v in vals]
        self.dim = dim
        self.points = [tuple(p) for p in itertools.product(self.vals, repeat=dim)]
        self.index = {p: i for i, p in enumerate(self.points)}

    def snap(self, vec):
        out = []
        for v in vec:
            v = float(v)
            best = min(self.vals, key=lambda w: (abs(w - v), w)) if v == v else self.vals[0]
            out.append(best)
        return self.index[tuple(out)]


class Run(object):
    """one recorded execution: interning of vectors to ids, the events, the scripted random"""
    def __init__(self, lat, kind, tables, targets, ret_array=False, inplace=False):
        self.inplace = inplace              # members write the result into their argument and return it
        self.lat, self.kind, self.tables = lat, kind, tables
        self.ids = {p: i + 1 for i, p in enumerate(lat.points)}     # lattice points first
        self.vecs = list(lat.points)
        self.ev = []
        self.targets = list(targets)        # one entry per randomisation, cycled
        self.ndraw_events = 0
        self.pending = []                   # raw rnd calls of the current randomisation
        self.cur = None                     # the vector the next randomisation will act on
        self.exits = []
        self.problems = []
        self.ret_array = ret_array
        self.rawdraws = []

    # -- ids
    def vid(self, vec):
        t = tuple(float(v) + 0.0 for v in vec)      # -0.0 == 0.0 for list equality as well
        if t not in self.ids:
            self.ids[t] = len(self.vecs) + 1
            self.vecs.append(t)
        return self.ids[t]

    # -- members
    def member(self, i):
        T = self.tables[i - 1]

        def c(x):
            xin = [float(v) for v in x]
            self.flush(xin)
            out = list(self.lat.points[T[self.lat.snap(xin)]])
            self.ev.append({"t": "call", "i": i, "a": self.vid(xin), "b": self.vid(out)})
            self.cur = xin if self.kind == "not" else out
            if self.inplace:                # a constraint that modifies its argument in place (as generated ones do)
                try:
                    x[:] = out
                    return x
                except TypeError:
                    pass
            if self.ret_array:
                import numpy
                return numpy.array(out)
            return out
        c.__doc__ = "member %d" % i
        return c

    # -- sentinels
    def sentinel(self, path):
        def s(x):
            xin = [float(v) for v in x]
            self.flush(xin)
            self.ev.append({"t": "exit", "i": 1 if path == "onexit" else 0, "a": self.vid(xin), "b": 0})
            t = Tagged(xin)
            t.path = path
            self.exits.append(t)
            return t
        return s

    # -- scripted random (and_/not_: dim x (randint(-1,1), random()); or_: randint(1,n))
    def flush(self, nextvec):
        """a randomisation of and_/not_ becomes visible as the vector the loop goes on with"""
        if self.pending:
            names = [p[0] for p in self.pending]
            if names != ["randint", "random"] * self.lat.dim:
                self.problems.append("randomisation drew %s" % names)
            self.ev.append({"t": "draw", "i": 0, "a": self.vid(nextvec), "b": 0})
            self.pending = []
            self.ndraw_events += 1

    def _target(self):
        t = self.targets[self.ndraw_events % len(self.targets)] if self.targets else OFF
        return t

    def randint(self, a, b):
        if self.kind == "or":
            t = self._target()
            k = a + (t % (b - a + 1)) if t != OFF else b
            self.ev.append({"t": "draw", "i": 0, "a": k, "b": 0})
            self.ndraw_events += 1
            self.rawdraws.append(("randint", a, b, k))
            return k
        if (a, b) != (-1, 1):
            self.problems.append("randint%r" % ((a, b),))
        coord = len(self.pending) // 2
        o = self.cur[coord] if self.cur is not None and coord < len(self.cur) else 0.0
        t = self._target()
        want = OFF if t == OFF else self.lat.points[t % len(self.lat.points)][coord]
        r, u = plan_draw(o, want, salt=self.ndraw_events + coord)
        self.pending.append(("randint", r))
        self._u = u
        self.rawdraws.append(("randint", a, b, r))
        return r

    def random(self):
        u = getattr(self, "_u", 0.3125)
        self.pending.append(("random", u))
        self.rawdraws.append(("random", u))
        return u

    # -- the trace in the shape Trace_Combinators reads
    def trace(self, maxiter, x0):
        K = len(self.vecs)
        tab = [[self.ids[self.lat.points[T[self.lat.snap(self.vecs[j])]]] for j in range(K)] for T in self.tables]
        return {"kind": self.kind, "maxiter": maxiter, "x0": self.ids[tuple(x0)], "tab": tab, "ev": self.ev}


def plan_draw(o, want, salt=0):
    """(r, u) with r in {-1,0,1}, 0 <= u < 1 such that (o + r) * u == want exactly, if a realistic draw
    exists; otherwise an off-lattice value"""
    if want != OFF:
        if want == 0.0:
            return (1, 0.0)
        for r in (1, 0, -1):
            s = o + r
            if s != 0:
                u = want / s
                if 0.0 <= u < 1.0 and s * u == want:
                    return (r, u)
    r = (1, 0, -1)[salt % 3] if o + (1, 0, -1)[salt % 3] != 0 else 1
    return (r, (0.3125, 0.8125, 0.5625)[salt % 3])


@contextlib.contextmanager
def scripted_random(mc, fake):
    """`import random as rnd` inside and_/or_/not_ (or a module-level name) resolves to `fake`"""
    real = sys.modules["random"]
    sys.modules["random"] = fake
    patched = []
    for name in ("rnd", "random"):
        if getattr(mc, name, None) is real:
            setattr(mc, name, fake)
            patched.append(name)
    try:
        yield
    finally:
        sys.modules["random"] = real
        for name in patched:
            setattr(mc, name, real)


def execute(mc, lat, kind, tables, maxiter, x0, targets, sentinels=True, as_array=False, ret_array=False, inplace=False,
            warm=None):
    """run the real combinator once; returns the Run and the returned object.  `warm`: a start point on which the SAME
    combinator object is called first (its events are discarded): a combinator must not carry state from call to call"""
    run = Run(lat, kind, tables, targets, ret_array=ret_array, inplace=inplace)
    kw = {}
    if maxiter is not None:
        kw["maxiter"] = maxiter
    if sentinels:
        kw["onexit"] = run.sentinel("onexit")
        kw["onfail"] = run.sentinel("onfail")
    members = [run.member(i + 1) for i in range(len(tables))]
    x = [float(v) for v in x0]
    if as_array:
        import numpy
        x = numpy.array(x)
    with scripted_random(mc, run):
        if kind == "and":
            f = mc.and_(*members, **kw)
        elif kind == "or":
            f = mc.or_(*members, **kw)
        else:
            f = mc.not_(members[0], **kw)
        if warm is not None:
            try:
                f([float(v) for v in warm])
            except Exception:
                pass
            # forget what the warm-up call logged: the recorded call starts from a clean recorder
            run.ev, run.exits, run.pending, run.problems, run.rawdraws = [], [], [], [], []
            run.ndraw_events, run.cur = 0, None
            if hasattr(run, "_u"):
                del run._u
        try:
            res = f(x)
        except Exception as ex:
            res = ex
    return run, res


# =========================================================================================
# scenarios for the code -> spec direction
# =========================================================================================
def scenarios(a):
    """(lattice, kind, tables, maxiter, x0 point index, targets, flags) -- deterministic in the seed"""
    rng = pyrandom.Random(a.seed * 7919 + 17)
    thorough = a.tier == "thorough"
    L1 = Lattice((0, 1, 2), 1)
    F3 = list(itertools.product(range(3), repeat=3))          # all 27 tables on 3 points
    pol_val = [[0], [1], [2], [OFF], [OFF, 0, 1, 2], [1, 0, OFF, 2]]
    pol_or = [[0], [1], [0, 1], [1, 1, 0]]
    out = []

    def add(lat, kind, tabs, mi, s, tg, **fl):
        out.append((lat, kind, [list(t) for t in tabs], mi, s, list(tg), fl))

    # --- exhaustive small classes (quick: seeded sample of them) -------------------------
    big = []
    for t1 in F3:                                                     # one member
        for s in range(3):
            for mi in (0, 1, 2, 3):
                big.append((L1, "and", (t1,), mi, s, pol_val[(s + mi) % 4]))
                big.append((L1, "or", (t1,), mi, s, [0]))
                for p in (0, 1, 3, 4):
                    big.append((L1, "not", (t1,), mi, s, pol_val[p]))
    for t1 in F3:                                                     # pairs
        for t2 in F3:
            for s in range(3):
                for mi in (1, 2, 3):
                    for p in range(len(pol_val)):
                        big.append((L1, "and", (t1, t2), mi, s, pol_val[p]))
                    for p in range(len(pol_or)):
                        big.append((L1, "or", (t1, t2), mi, s, pol_or[p]))
    if not thorough:
        rng.shuffle(big)
        # keep every kind represented
        keep, cnt = [], {"and": 0, "or": 0, "not": 0}
        lim = {"and": 2600, "or": 1300, "not": 500}
        for b in big:
            if cnt[b[1]] < lim[b[1]]:
                keep.append(b)
                cnt[b[1]] += 1
        big = keep
    for b in big:
        add(*b)
    # --- triples, longer caps, the default cap ------------------------------------------
    ntr = 6000 if thorough else 500
    for _ in range(ntr):
        kind = rng.choice(["and", "and", "or"])
        nn = rng.choice([3, 3, 4])
        tabs = [rng.choice(F3) for _ in range(nn)]
        if rng.random() < 0.5:       # bias towards members that agree somewhere (success paths)
            fp = rng.randrange(3)
            tabs = [tuple(fp if j == fp else t[j] for j in range(3)) for t in tabs]
        add(L1, kind, tabs, rng.choice([1, 2, 3, 5]), rng.randrange(3),
            rng.choice(pol_val) if kind == "and" else [rng.randrange(nn) for _ in range(3)])
    for _ in range(60 if thorough else 12):                          # default maxiter = 100
        kind = rng.choice(["and", "or", "not"])
        nn = 1 if kind == "not" else rng.choice([1, 2, 3])
        add(L1, kind, [rng.choice(F3) for _ in range(nn)], None, rng.randrange(3), [OFF, 0, 1, OFF, 2])
    # --- two-dimensional vectors ({0,1,2}^2, 9 points) ----------------------------------
    L2 = Lattice((0, 1, 2), 2)
    n2 = 8000 if thorough else 700
    for _ in range(n2):
        kind = rng.choice(["and", "and", "or", "not"])
        nn = 1 if kind == "not" else rng.choice([1, 2, 2, 3])
        style = rng.random()
        tabs = []
        for _m in range(nn):
            if style < 0.4:            # coordinate-wise product of two 1-d tables
                a1, a2 = rng.choice(F3), rng.choice(F3)
                tabs.append([3 * a1[p // 3] + a2[p % 3] for p in range(9)])
            elif style < 0.7:          # sparse change: identity except at a few points
                t = list(range(9))
                for _k in range(rng.choice([1, 2, 3])):
                    t[rng.randrange(9)] = rng.randrange(9)
                tabs.append(t)
            else:
                tabs.append([rng.randrange(9) for _ in range(9)])
        tg = [rng.choice([OFF] + list(range(9))) for _ in range(3)] if kind != "or" else [rng.randrange(nn) for _ in range(3)]
        add(L2, kind, tabs, rng.choice([1, 2, 3, 4]), rng.randrange(9), tg,
            as_array=(kind != "not" and rng.random() < 0.2), ret_array=(kind != "not" and rng.random() < 0.2))
    return out


def record_all(mc, a, ck, scen):
    """run every scenario on the real code; returns the traces (with meta) that go to TLC"""
    traces = []
    for nscen, (lat, kind, tabs, mi, s, tg, fl) in enumerate(scen):
        x0 = lat.points[s]
        fl = dict(fl, inplace=(nscen % 3 == 1 and not fl.get("ret_array", False)))   # every third run: in-place members
        # every fourth run: the combinator object has already been used once, on another start point
        warm = lat.points[(s * 5 + 3) % len(lat.points)] if nscen % 4 == 2 else None
        fl["warm"] = list(warm) if warm is not None else None
        run, res = execute(mc, lat, kind, tabs, mi, x0, tg, True, fl.get("as_array", False), fl.get("ret_array", False),
                           fl["inplace"], warm)
        meta = {"kind": kind, "tables": tabs, "maxiter": mi, "x0": list(x0), "targets": tg, "dim": lat.dim,
                "flags": fl, "vectors": [list(v) for v in run.vecs], "rawdraws": run.rawdraws[:40]}
        desc = "%s_(%s) maxiter=%s x0=%s" % (kind, ", ".join(str(t) for t in tabs), mi, list(x0))
        if isinstance(res, Exception):
            ck.violation("%s_:raises" % kind, dict(meta, error=repr(res)), "%s raised %r" % (desc, res))
            continue
        # "otherwise the failure path is taken": exactly one sentinel fired, and its value is what is returned
        if len(run.exits) != 1 or res is not run.exits[0]:
            ck.violation("%s_:return-not-through-exactly-one-exit-path" % kind,
                         dict(meta, exits=[e.path for e in run.exits], returned=repr(res), events=run.ev),
                         "%s: sentinels fired %s, returned %r" % (desc, [e.path for e in run.exits], res))
            continue
        for p in run.problems:
            ck.violation("%s_:unexpected-use-of-random" % kind, dict(meta, problem=p), "%s: %s" % (desc, p))
        # the same run without sentinels returns the same vector (default onexit/onfail = None)
        run2, res2 = execute(mc, lat, kind, tabs, mi, x0, tg, False, fl.get("as_array", False), fl.get("ret_array", False),
                             fl["inplace"], warm)
        try:
            same = [float(v) + 0.0 for v in res2] == [float(v) + 0.0 for v in res]
        except Exception:
            same = False
        if not same:
            ck.violation("%s_:result-differs-without-sentinels" % kind, dict(meta, with_sentinels=list(res), without=repr(res2)),
                         "%s: returns %r with onexit/onfail set but %r without" % (desc, list(res), res2))
        tr = run.trace(100 if mi is None else mi, x0)
        calls = sum(1 for e in run.ev if e["t"] == "call")
        tr_meta = dict(meta, path=run.exits[0].path, ret=list(res), ndraws=run.ndraw_events, calls=calls)
        traces.append((tr, tr_meta))
    return traces


def validate(ck, traces, a, label="traces"):
    """TLC validates the recorded traces against Trace_Combinators; claims on the returned vectors"""
    if not traces:
        return {"accepted": 0}
    per = 2500
    chunks = [traces[i:i + per] for i in range(0, len(traces), per)]
    d = scratch_dir()
    stats = {"asis_only": 0, "fixed_only": 0, "both": 0, "rejected": 0, "claim_bad": 0}
    try:
        def one(ix):
            path = os.path.join(d, "tr_%d.json" % ix)
            with open(path, "w") as f:
                json.dump([t for t, _ in chunks[ix]], f)
            return run_tlc("cons/Trace_Combinators", workers=1, env={"TRACES": path}, timeout=3000, heap="3g")
        with ThreadPoolExecutor(max_workers=max(1, min(a.jobs, len(chunks), 16))) as ex:
            results = list(ex.map(one, range(len(chunks))))
        for ix, r in enumerate(results):
            if r.violated and r.violated != "POSTCONDITION":
                ck.violation("spec:trace-" + r.violated, {"tlc": counterexample(r.out)},
                             "TLC: %s violated in a recorded state of %s" % (r.violated, label))
            ck.mc(r, "Trace_Combinators[%s %d]" % (label, ix))
            if not r.printed:
                raise RuntimeError("Trace_Combinators printed no verdict:\n" + r.out[-2000:])
            v = r.printed[-1]
            asis, fixed = set(v["asis"]), set(v["fixed"])
            bad, badrnd, badother = set(v["bad"]), set(v["badrnd"]), set(v["badother"])
            claimfalse = set(v["claimfalse"])
            for k, (tr, meta) in enumerate(chunks[ix], 1):
                desc = "%s_ members=%s maxiter=%s x0=%s" % (meta["kind"], meta["tables"], meta["maxiter"], meta["x0"])
                nontriv = meta["ndraws"] > 0 or meta["path"] == "onfail" or meta["calls"] > len(meta["tables"])
                ck.case(nontrivial=nontriv, key=("tr", meta["kind"], str(meta["tables"]), meta["maxiter"], str(meta["x0"]), str(meta["targets"])))
                if k in asis or k in fixed:
                    ck.trace()
                    stats["both" if (k in asis and k in fixed) else "asis_only" if k in asis else "fixed_only"] += 1
                else:
                    stats["rejected"] += 1
                    diag = diagnose(tr) if stats["rejected"] <= 3 else {"matched": -1, "event": "(not diagnosed)", "state": None}
                    ck.violation("%s_:run-is-not-a-run-of-the-specified-loop" % meta["kind"],
                                 dict(meta, trace=tr, diagnosis=diag),
                                 "%s: recorded events are not a run of Combinators.tla; matched %d of %d events, "
                                 "first unexplained event %s in spec state %s" % (desc, diag["matched"], len(tr["ev"]), diag["event"], diag["state"]))
                    if k in claimfalse:
                        stats["claim_bad"] += 1
                        ck.violation("%s_:success-claim-false" % meta["kind"], dict(meta, trace=tr),
                                     "%s returned %s through onexit, but %s" % (desc, meta["ret"], claim_text(meta)))
                    continue
                if (k in claimfalse) != (k in bad or k in badrnd or k in badother):
                    raise RuntimeError("claim registers of Trace_Combinators disagree on trace %d" % k)
                if k in bad or k in badrnd or k in badother:
                    stats["claim_bad"] += 1
                    key = K_RANDWIN if k in badrnd else K_NONIDEM if k in bad else "%s_:success-claim-false" % meta["kind"]
                    ck.violation(key, dict(meta, trace=tr),
                                 "%s returned %s through onexit, but %s" % (desc, meta["ret"], claim_text(meta)))
        return stats
    finally:
        shutil.rmtree(d, ignore_errors=True)


def claim_text(meta):
    return {"and": "a member changes that vector", "or": "every member changes that vector",
            "not": "the member leaves that vector unchanged"}[meta["kind"]]


def diagnose(tr):
    """re-run TLC on one rejected trace: longest matched prefix and the first unmatched event"""
    d = scratch_dir()
    try:
        path = os.path.join(d, "one.json")
        with open(path, "w") as f:
            json.dump([tr], f)
        r = run_tlc("cons/Trace_Combinators", cfg="Trace_Combinators_debug.cfg", workers=1, env={"TRACES": path})
        states = [p for p in r.printed if isinstance(p, dict) and "l" in p]
        best = max(states, key=lambda p: p["l"]) if states else {"l": 1}
        m = best["l"] - 1
        return {"matched": m, "event": tr["ev"][m] if m < len(tr["ev"]) else "(end of trace: the loop has not returned)",
                "state": {k: best.get(k) for k in ("pc", "calls", "x", "rule")}}
    finally:
        shutil.rmtree(d, ignore_errors=True)


# =========================================================================================
# design level: TLC on Combinators, and replay of the wrong-success runs of the as-is design
# =========================================================================================
def design(ck, a, light=False):
    thorough = a.tier == "thorough"
    bad = []
    info = {}

    def run(cfg, name, workers=1, expect=None, heap="2g"):
        r = run_tlc("cons/MC_Combinators", cfg=cfg, workers=workers, deadlock=True, timeout=3000, heap=heap)
        ck.mc(r, name)
        if expect is None and r.violated:
            ck.violation("spec:" + r.violated, {"cfg": cfg, "tlc": counterexample(r.out)},
                         "TLC: %s violated in Combinators.tla (%s)" % (r.violated, cfg))
        if expect is not None:
            if r.violated != expect:
                ck.violation("spec:expected-counterexample-missing", {"cfg": cfg, "got": r.violated},
                             "TLC was expected to refute %s in %s (got %r)" % (expect, cfg, r.violated))
            info[name] = {"violated": r.violated, "counterexample": counterexample(r.out)[:5000]}
        return r

    # the rule the property demands: all three claims, one exit path, bounded, progress, no deadlock
    run("MC_Comb_fixed_quick.cfg", "Combinators fixed rule, n<=2, |D|=3, all members")
    # the rule the code uses: or_/not_ claims must hold; and_'s wrong successes are emitted
    r = run("MC_Comb_asis_quick.cfg", "Combinators as-is rule, n<=2, |D|=3, all members")
    bad += [p for p in r.printed if isinstance(p, dict) and p.get("kind") == "and"]
    if not light:
        run("MC_Comb_cex_asis.cfg", "as-is and_ counter-example", expect="ClaimAnd")
        run("MC_Comb_cex_n1.cfg", "n+1-equal-iterates and_ counter-example", expect="ClaimAnd")
        run("MC_Comb_cex_idem.cfg", "as-is and_ counter-example with idempotent members", expect="ClaimAnd")
        run("MC_Comb_idem.cfg", "as-is and_, idempotent members, n<=3: wrong only via randomised iterate")
        run("MC_Comb_live.cfg", "liveness <>Done, |D|=2")
        run("MC_Comb_fixed_n3_quick.cfg", "Combinators fixed rule, n=3, |D|=2")
    if thorough:
        w = max(1, min(a.jobs, 16))
        run("MC_Comb_fixed_thorough.cfg", "Combinators fixed rule, n=3, |D|=3, all 27^3 triples", workers=w, heap="12g")
        r = run("MC_Comb_asis_thorough.cfg", "Combinators as-is rule, n=3, |D|=3, all 27^3 triples", workers=w, heap="12g")
        run("MC_Comb_fixed_d4.cfg", "Combinators fixed rule, n<=2, |D|=4, all 256^2 pairs", workers=w, heap="12g")
        run("MC_Comb_vac_exit.cfg", "vacuity: onexit reachable", expect="NeverOnExit")
        run("MC_Comb_vac_fail.cfg", "vacuity: onfail reachable", expect="NeverOnFail")
        run("MC_Comb_vac_draw.cfg", "vacuity: randomisation reachable", expect="NeverDraw")
    return bad, info


def replay_bad(ck, mc, bad, a):
    """spec -> code: the runs in which the as-is design claims success wrongly, on the real and_"""
    L1 = Lattice((0, 1, 2), 1)
    st = {"emitted": len(bad), "reproduced": 0, "not_reproduced": 0, "draw_not_realistic": 0}
    for b in bad:
        tabs = [list(t) for t in b["tabs"]]
        x0 = L1.points[b["x0"]]
        run, res = execute(mc, L1, "and", tabs, b["maxiter"], x0, b["draws"] or [OFF])
        got_draws = [L1.index.get(run.vecs[e["a"] - 1], None) for e in run.ev if e["t"] == "draw"]
        if got_draws[:len(b["draws"])] != b["draws"][:len(got_draws)]:
            st["draw_not_realistic"] += 1          # no randint in {-1,0,1}, random in [0,1) gives that value
            continue
        ok = isinstance(res, Tagged) and res.path == "onexit"
        ret = L1.index.get(tuple(res), None) if ok else None
        changed = [i + 1 for i, t in enumerate(tabs) if ret is not None and t[ret] != ret]
        nontriv = True
        ck.case(nontrivial=nontriv, key=("bad", str(tabs), b["maxiter"], b["x0"], str(b["draws"])))
        ck.trace()
        if ok and changed:
            st["reproduced"] += 1
            key = K_RANDWIN if b["rnd"] else K_NONIDEM
            ck.violation(key, {"members": tabs, "maxiter": b["maxiter"], "x0": list(x0), "draws": b["draws"],
                               "spec": b, "returned": list(res), "path": res.path, "changed_by_members": changed,
                               "events": run.ev, "rawdraws": run.rawdraws},
                         "and_ with member tables %s (on {0,1,2}) maxiter=%s x=%s returned %s through onexit, "
                         "but member(s) %s change that vector (TLC counter-example of the as-is success rule, "
                         "reproduced on mystic)" % (tabs, b["maxiter"], list(x0), list(res), changed))
        else:
            st["not_reproduced"] += 1
    return st


# =========================================================================================
# couplers and penalty combinators: TLC case tables replayed on mystic.coupler
# =========================================================================================
def coupler_tables(a):
    t = "thorough" if a.tier == "thorough" else "quick"
    res = {}
    for fam in ("couple", "nest", "pen", "notpen"):
        r = run_tlc("cons/MC_Couplers", cfg="MC_Coup_%s_%s.cfg" % (fam, t), workers=1, timeout=3000, heap="4g")
        res[fam] = r
    res["vacuity"] = run_tlc("cons/MC_Couplers", cfg="MC_Coup_vacuity.cfg", workers=1)
    return res


def table_fn(T, M, log=None):
    """a callable reading table T at (x + a) % M  (a = the optional extra argument)"""
    def f(x, a=0):
        return T[(int(x) + int(a)) % M]
    return f


def replay_couplers(ck, cp, mp, tl, corrupt=False):
    for fam in ("couple", "nest", "pen", "notpen"):
        r = tl[fam]
        ck.mc(r, "Couplers[%s]" % fam)
        if r.violated:
            ck.violation("spec:" + r.violated, {"tlc": counterexample(r.out)}, "TLC: law %s violated in Couplers.tla (%s)" % (r.violated, fam))
    if tl["vacuity"].violated != "OrderIrrelevant":
        ck.violation("spec:vacuity", {}, "TLC did not find tables for which inner and outer differ")

    def cmp(key, detail, exp, got, what):
        ok = True
        try:
            ok = [float(v) for v in got] == [float(v) for v in exp]
        except Exception:
            ok = False
        if not ok:
            ck.violation(key, dict(detail, expected=exp, got=[repr(g) for g in got] if not isinstance(got, str) else got),
                         "%s: specification says %s, mystic gives %s" % (what, exp, got))

    def tryall(fn, xs):
        out = []
        for x in xs:
            try:
                out.append(fn(x))
            except Exception as ex:
                return "raised %r" % ex
        return out

    # ---- inner / outer / additive and their proxies, incl. routing of args
    cases = tl["couple"].printed
    if corrupt and cases:
        cases = [dict(cases[0], inner=[[[v + 1 for v in row] for row in blk] for blk in cases[0]["inner"]])] + cases[1:]
    for cs in cases:
        M = len(cs["cf"])
        X = list(range(M))
        c, f = table_fn(cs["cf"], M), table_fn(cs["ff"], M)
        nontriv = cs["inner"][0][0] != cs["outer"][0][0]
        ck.case(nontrivial=nontriv, key=("couple", str(cs["cf"]), str(cs["ff"])))
        for name in ("inner", "outer", "additive", "inner_proxy", "outer_proxy", "additive_proxy"):
            dec = getattr(cp, name)
            for d in (0, 1):
                for e in (0, 1):
                    exp = cs[name][d][e]
                    if d == 0 and e == 0:
                        g = dec(c)(f)
                        got = tryall(lambda x: g(x), X)
                        cmp("coupler:%s" % name, {"c": cs["cf"], "f": cs["ff"]}, exp, got,
                            "%s(c)(f) with c=%s f=%s on x=0..%d" % (name, cs["cf"], cs["ff"], M - 1))
                    g = dec(c, args=(d,))(f)
                    got = tryall(lambda x: g(x, e), X)
                    cmp("coupler:%s-args" % name, {"c": cs["cf"], "f": cs["ff"], "args": d, "call_arg": e}, exp, got,
                        "%s(c,args=(%d,))(f)(x,%d) with c=%s f=%s" % (name, d, e, cs["cf"], cs["ff"]))
    if cases:
        ck.sample({"c": cases[len(cases) // 2]["cf"], "f": cases[len(cases) // 2]["ff"],
                   "inner(c)(f)": cases[len(cases) // 2]["inner"][0][0], "outer(c)(f)": cases[len(cases) // 2]["outer"][0][0]})
    # ---- nesting
    for cs in tl["nest"].printed:
        M = len(cs["ff"])
        X = list(range(M))
        c1, c2, f = table_fn(cs["c1"], M), table_fn(cs["c2"], M), table_fn(cs["ff"], M)
        ck.case(nontrivial=cs["io"] != cs["oi"], key=("nest", str(cs["c1"]), str(cs["c2"]), str(cs["ff"])))
        for name, o1, o2 in (("ii", "inner", "inner"), ("oo", "outer", "outer"), ("io", "inner", "outer"),
                             ("oi", "outer", "inner"), ("aa", "additive", "additive")):
            g = getattr(cp, o1)(c1)(getattr(cp, o2)(c2)(f))
            cmp("coupler:nest-%s-%s" % (o1, o2), {"c1": cs["c1"], "c2": cs["c2"], "f": cs["ff"]}, cs[name], tryall(lambda x: g(x), X),
                "%s(c1)(%s(c2)(f)) with c1=%s c2=%s f=%s" % (o1, o2, cs["c1"], cs["c2"], cs["ff"]))
    # ---- penalty and_ / or_
    ptypes = ["linear_equality", "quadratic_equality", "uniform_equality",
              "linear_inequality", "quadratic_inequality", "uniform_inequality"]
    for cs in tl["pen"].printed:
        ps = cs["ps"]
        M = len(ps[0])
        X = list(range(M))
        members = [table_fn(p, M) for p in ps]
        zero_all = [all(p[x] == 0 for p in ps) for x in X]
        zero_any = [any(p[x] == 0 for p in ps) for x in X]
        ck.case(nontrivial=len(ps) > 1 and any(zero_any) and not all(zero_all), key=("pen", str(ps)))
        for name, comb in (("and", cp.and_), ("or", cp.or_)):
            g = comb(*members)                                 # defaults: documented plain sum / minimum
            cmp("penalty-%s_:default" % name, {"members": ps}, cs[name][0][0], tryall(lambda x: g(x), X),
                "coupler.%s_ of member penalties %s (defaults)" % (name, ps))
            for j, pt in enumerate(ptypes):
                for ki, exp in enumerate(cs[name][j]):
                    g = comb(*members, ptype=getattr(mp, pt), k=ki + 1)
                    cmp("penalty-%s_:%s" % (name, pt), {"members": ps, "ptype": pt, "k": ki + 1}, exp, tryall(lambda x: g(x), X),
                        "coupler.%s_(ptype=%s,k=%d) of member penalties %s" % (name, pt, ki + 1, ps))
    if tl["pen"].printed:
        s = tl["pen"].printed[len(tl["pen"].printed) // 2]
        ck.sample({"penalties": s["ps"], "and_(default)": s["and"][0][0], "or_(default)": s["or"][0][0]})
    # ---- penalty not_
    for cs in tl["notpen"].printed:
        g = cs["g"]
        M = len(g)
        X = list(range(M))
        cond = table_fn(g, M)
        if cs["t"] == "raw":
            member = cond
        else:
            member = getattr(mp, cs["t"])(cond, k=cs["mk"])(lambda x: 0.)
            cmp("penalty:%s" % cs["t"], {"g": g, "k": cs["mk"]}, cs["member"], tryall(lambda x: member(x), X),
                "penalty %s(k=%d) over condition %s" % (cs["t"], cs["mk"], g))
        ck.case(nontrivial=0 < len(cs["interior"]) < M, key=("notpen", str(g), cs["t"], cs["mk"]))
        for ki, exp in enumerate(cs["nt"]):
            n_ = cp.not_(member, k=ki + 1)
            got = tryall(lambda x: n_(x), X)
            cmp("penalty-not_:%s" % cs["t"], {"g": g, "type": cs["t"], "k": ki + 1, "interior": cs["interior"]}, exp, got,
                "coupler.not_(k=%d) of a %s penalty over condition %s (interior of the accepted region: %s)" % (ki + 1, cs["t"], g, cs["interior"]))
            if ki == 0:
                n0 = cp.not_(member)
                cmp("penalty-not_:%s-default" % cs["t"], {"g": g, "type": cs["t"]}, exp, tryall(lambda x: n0(x), X),
                    "coupler.not_ (defaults) of a %s penalty over condition %s" % (cs["t"], g))


# =========================================================================================
def new_check(a):
    return Check("C17", "model_checking", a.tier, a.seed,
                 rule="a case = one recorded run of the real constraints.and_/or_/not_ (TLC-validated trace), one "
                      "TLC-emitted wrong-success run of the as-is and_ design re-run on mystic, or one TLC-emitted "
                      "coupler / penalty-combinator table case; non-trivial = the run got past the first sweep "
                      "(a randomisation, a failure exit or more than n member calls), resp. the tables distinguish "
                      "the operators (inner != outer, zero sets of and_/or_ differ, not_ region non-empty and proper)")


def observations(mc):
    """DESIGN 7/F5: exceptions raised by members -- outside what C17 states; recorded, not judged"""
    obs = {}

    def boom(x):
        raise TypeError("a perfectly ordinary bug in a member")
    try:
        r = mc.and_(boom, lambda x: x, onexit=lambda x: ("onexit", x), onfail=lambda x: ("onfail", x), maxiter=2)([1.0])
        obs["and_ with a member raising TypeError('a perfectly ordinary bug...')"] = "swallowed, returned %r" % (r,)
    except Exception as ex:
        obs["and_ with a member raising TypeError('a perfectly ordinary bug...')"] = "propagated %r" % ex
    return obs


def explore(ck, mc, cp, mp, a, tl=None, light=False, parts=("design", "traces", "couplers"), only_kind=None):
    ck.exhaustive = False
    out = {}
    if "design" in parts:
        bad, info = design(ck, a, light=light)
        out["design"] = info
        st = replay_bad(ck, mc, bad, a)
        out["as_is_wrong_success_runs"] = st
        if bad:
            ck.sample({"as-is and_ wrong success (TLC)": {k: bad[0][k] for k in ("tabs", "x0", "maxiter", "draws", "ret", "changedby")}})
    if "traces" in parts:
        scen = [sc for sc in scenarios(a) if only_kind in (None, sc[1])]
        traces = record_all(mc, a, ck, scen)
        st = validate(ck, traces, a)
        out["traces"] = dict(st, recorded=len(traces),
                             with_randomisation=sum(1 for _, m in traces if m["ndraws"] > 0),
                             onexit=sum(1 for _, m in traces if m["path"] == "onexit"),
                             onfail=sum(1 for _, m in traces if m["path"] == "onfail"))
        for tr, m in traces:
            if m["ndraws"] > 0 and m["path"] == "onexit" and m["kind"] == "and":
                ck.sample({"trace": tr, "members": m["tables"], "vectors": m["vectors"]})
                break
    if "couplers" in parts:
        if tl is None:
            tl = coupler_tables(a)
        replay_couplers(ck, cp, mp, tl)
    ck.extra["c17"] = out
    ck.assumptions = [
        "members are deterministic total functions (no exceptions; DESIGN 7/F5 behaviour is only recorded under coverage.c17.observations)",
        "vectors are compared as python lists of floats; -0.0 and 0.0 are the same value",
        "the randomisation may yield any value: the model lets it produce every value of the domain, the recorded "
        "runs use scripted draws with randint in {-1,0,1} and random() in [0,1) only",
        "penalty members are non-negative (and_/or_ zero-set claims) and penalties are at iteration 0 (pk = k)",
        "not_ of an equality-type penalty: 'interior of the accepted region' is read as the accepted region {g = 0} itself",
        "trace validation accepts a run explained by the as-is OR the demanded success rule (so a repaired and_ is not "
        "rejected); the claims are evaluated on the returned vector in either case"]
    return out


# =========================================================================================
# self-test: in-memory mutants of mystic that the check must catch
# =========================================================================================
def _loop_and(win):
    """mystic.constraints.and_ re-typed with a parameterised success test (mutants + the proposed repair)"""
    def and_(*constraints, **settings):
        import itertools as it
        import random as rnd
        n = len(constraints)
        maxiter = settings.pop('maxiter', 100) * n
        onexit = settings.pop('onexit', None)
        onfail = settings.pop('onfail', None)

        def _constraint(x):
            x = [x.tolist() if hasattr(x, 'tolist') else x[:]]
            same = 0
            for c in constraints:
                ci = c(x[-1][:])
                x.append(ci.tolist() if hasattr(ci, 'tolist') else ci)
                same = same + 1 if x[-1] == x[-2] else 0
            if win(x, n, same, True):
                return x[-1] if onexit is None else onexit(x[-1][:])
            _constraints = it.cycle(constraints)
            for j in range(n, maxiter):
                ci = next(_constraints)(x[-1][:])
                x.append(ci.tolist() if hasattr(ci, 'tolist') else ci)
                same = same + 1 if x[-1] == x[-2] else 0
                if win(x, n, same, False):
                    return x[-1] if onexit is None else onexit(x[-1][:])
                if x[-1] == x[-(n + 1)] and win is not _win_norandom:
                    x[-1] = [(i + rnd.randint(-1, 1)) * rnd.random() for i in x[-1]]
                    same = 0
                if not j % (2 * n):
                    del x[:n]
            if win is _win_failexit:
                return onexit(x[-1][:]) if onexit is not None else x[-1]
            return x[-1] if onfail is None else onfail(x[-1][:])
        return lambda x: _constraint(x)
    return and_


def _win_asis(x, n, same, first):
    return all(xi == x[-1] for xi in (x[1:] if first else x[-n:]))


def _win_nminus1(x, n, same, first):
    m = max(n - 1, 1)
    return all(xi == x[-1] for xi in (x[-m:]))


def _win_fixed(x, n, same, first):
    return same >= n


def _win_norandom(x, n, same, first):
    return _win_asis(x, n, same, first)


def _win_failexit(x, n, same, first):
    return _win_asis(x, n, same, first)


def _mut_or(failexit):
    def or_(*constraints, **settings):
        import itertools as it
        import random as rnd
        n = len(constraints)
        maxiter = settings.pop('maxiter', 100) * n
        onexit = settings.pop('onexit', None)
        onfail = settings.pop('onfail', None)

        def _constraint(x):
            x = [x.tolist() if hasattr(x, 'tolist') else x[:]]
            for c in constraints:
                ci = c(x[0][:])
                x.append(ci.tolist() if hasattr(ci, 'tolist') else ci)
                if x[-1] == x[0]:
                    return x[-1] if onexit is None else onexit(x[-1][:])
            _constraints = it.cycle(constraints)
            for j in range(n, maxiter):
                ci = next(_constraints)(x[-n][:])
                x.append(ci.tolist() if hasattr(ci, 'tolist') else ci)
                if x[-1] == x[-(n + 1)]:
                    return x[-1] if onexit is None else onexit(x[-1][:])
                else:
                    x[-1] = x[-rnd.randint(1, n)]
                if not j % (2 * n):
                    del x[:n]
            if failexit:
                return x[-1] if onexit is None else onexit(x[-1][:])
            return x[-1] if onfail is None else onfail(x[-1][:])
        return lambda x: _constraint(x)
    return or_


def _mut_not(constraint, **settings):
    import random as rnd
    maxiter = settings.pop('maxiter', 100)
    onexit = settings.pop('onexit', None)
    onfail = settings.pop('onfail', None)

    def _constraint(x):
        for j in range(0, maxiter):
            if constraint(x[:]) == x:                 # inverted
                return x[:] if onexit is None else onexit(x[:])
            x = [(i + rnd.randint(-1, 1)) * rnd.random() for i in x]
        return x[:] if onfail is None else onfail(x[:])
    return lambda x: _constraint(x)


def selftest(a, mc, cp, mp):
    import io
    a.tier = "quick"
    tl = coupler_tables(a)
    orig = {"mc": {k: getattr(mc, k) for k in ("and_", "or_", "not_")},
            "cp": {k: getattr(cp, k) for k in ("additive", "inner", "and_", "or_", "not_")}}

    def restore():
        for k, v in orig["mc"].items():
            setattr(mc, k, v)
        for k, v in orig["cp"].items():
            setattr(cp, k, v)

    def additive_sub(penalty=lambda x: 0.0, args=None, kwds=None):
        args = () if args is None else args
        kwds = {} if kwds is None else kwds
        def dec(f):
            def func(x, *argz, **kwdz):
                return f(x, *argz, **kwdz) - penalty(x, *args, **kwds)
            return func
        return dec

    def inner_swapped(inner=lambda x: x, args=None, kwds=None):
        args = () if args is None else args
        kwds = {} if kwds is None else kwds
        def dec(f):
            def func(x, *argz, **kwdz):
                return inner(f(x, *argz, **kwdz), *args, **kwds)
            return func
        return dec

    def pen_and_min(*penalties, **settings):
        k = settings.setdefault('k', 1)
        ptype = settings.pop('ptype', None) or mp.linear_equality
        penalty = lambda x: min(p(x) for p in penalties)
        return ptype(penalty, **settings)(lambda x: 0.)

    def pen_not_noflip(penalty, **settings):
        k = settings.setdefault('k', 1)
        ptype = settings.pop('ptype', None) or getattr(mp, getattr(penalty, 'ptype', 'linear_equality'))
        condition = getattr(penalty, 'func', penalty)
        if ptype.__name__.endswith('_inequality'):
            _penalty = lambda x: condition(x)            # sign not flipped
        else:
            _penalty = lambda x: not condition(x)
        return ptype(_penalty, **settings)(lambda x: 0.)

    mutants = [
        ("and_ success test on n-1 iterates", "traces:and", lambda: setattr(mc, "and_", _loop_and(_win_nminus1))),
        ("and_ reports onexit when the cap is exhausted", "traces:and", lambda: setattr(mc, "and_", _loop_and(_win_failexit))),
        ("and_ never randomises on a detected cycle", "traces:and", lambda: setattr(mc, "and_", _loop_and(_win_norandom))),
        ("or_ returns via onexit on the failure path", "traces:or", lambda: setattr(mc, "or_", _mut_or(True))),
        ("not_ comparison inverted", "traces:not", lambda: setattr(mc, "not_", _mut_not)),
        ("additive subtracts", "couplers", lambda: setattr(cp, "additive", additive_sub)),
        ("inner applies f before c", "couplers", lambda: setattr(cp, "inner", inner_swapped)),
        ("penalty and_ uses min instead of the sum", "couplers", lambda: setattr(cp, "and_", pen_and_min)),
        ("penalty not_ does not flip an inequality", "couplers", lambda: setattr(cp, "not_", pen_not_noflip)),
    ]
    missed = 0
    scratch = scratch_dir()

    def fresh():
        ck = new_check(a)
        ck.outdir = scratch                      # self-test artefacts are not replay artefacts
        ck._known = []                           # known findings do not mask mutants
        return ck

    def baseline_keys():
        ck = fresh()
        with contextlib.redirect_stdout(io.StringIO()):
            explore(ck, mc, cp, mp, a, tl=tl, light=True, parts=("traces", "couplers"))
        return set(ck.viol_keys)
    try:
        base = baseline_keys()                   # what the unchanged tree reports (genuine findings)
        for name, part, apply_ in mutants:
            apply_()
            ck = fresh()
            buf = io.StringIO()
            try:
                with contextlib.redirect_stdout(buf):
                    explore(ck, mc, cp, mp, a, tl=tl, light=True, parts=(part.split(":")[0],),
                            only_kind=part.split(":")[1] if ":" in part else None)
            except Exception as ex:
                ck.viol_keys["mutant raised %r" % ex] = 1
            finally:
                restore()
            new = sorted(set(ck.viol_keys) - base)
            print("SELFTEST %s: %s (%s)" % (name, "caught" if new else "MISSED", ", ".join(new[:3]) or "no new violation class"))
            missed += 0 if new else 1
        # a corrupted expected value from TLC
        ck = fresh()
        with contextlib.redirect_stdout(io.StringIO()):
            replay_couplers(ck, cp, mp, tl, corrupt=True)
        new = sorted(set(ck.viol_keys) - base)
        print("SELFTEST corrupted TLC expected table (inner): %s (%s)" % ("caught" if new else "MISSED", ", ".join(new[:3])))
        missed += 0 if new else 1
        # a corrupted field of an otherwise valid recorded trace
        ck = fresh()
        with contextlib.redirect_stdout(io.StringIO()):
            scen = scenarios(a)[:400]
            traces = record_all(mc, a, ck, scen)
            victim = next(i for i, (t, m) in enumerate(traces) if len(t["ev"]) >= 4 and t["ev"][1]["t"] == "call")
            t, m = traces[victim]
            t = json.loads(json.dumps(t))
            t["ev"][1]["a"] = t["ev"][1]["a"] % len(t["tab"][0]) + 1
            traces[victim] = (t, m)
            before = set(ck.viol_keys)
            validate(ck, traces, a)
        new = sorted(k for k in set(ck.viol_keys) - before if "not-a-run" in k)
        print("SELFTEST corrupted input field of one recorded member call: %s (%s)" % ("caught" if new else "MISSED", ", ".join(new[:3])))
        missed += 0 if new else 1
        # positive control: the proposed repair of and_ (n consecutive no-change applications) is clean
        mc.and_ = _loop_and(_win_fixed)
        ck = fresh()
        try:
            with contextlib.redirect_stdout(io.StringIO()):
                explore(ck, mc, cp, mp, a, tl=tl, light=True, parts=("design", "traces"))
        finally:
            restore()
        st = ck.extra["c17"]
        print("SELFTEST control, proposed repair of and_ applied in memory: %s (violation classes %s; traces explained only by the "
              "demanded rule: %d; as-is wrong-success runs reproduced: %d)" % (
                  "clean" if not ck.viol_keys else "NOT CLEAN", sorted(ck.viol_keys), st["traces"]["fixed_only"],
                  st["as_is_wrong_success_runs"]["reproduced"]))
        missed += 0 if not ck.viol_keys else 1
    finally:
        restore()
        shutil.rmtree(scratch, ignore_errors=True)
    return 1 if missed else 0


def replay_artefact(a, mc):
    """bin/check C17 --replay out/C17/replay_x.json : re-run the recorded combinator case on the current tree"""
    art = json.load(open(a.replay))
    d = art["detail"]
    print("key:", art["key"]); print(art.get("what", ""))
    if "members" in d:            # a TLC counter-example of the as-is design
        kind, tabs, mi, x0, tg, dim = "and", d["members"], d["maxiter"], d["x0"], d["draws"] or [OFF], 1
    elif "tables" in d:
        kind, tabs, mi, x0, tg, dim = d["kind"], d["tables"], d["maxiter"], d["x0"], d["targets"], d["dim"]
    else:
        print("table case, expected %s got %s" % (d.get("expected"), d.get("got")))
        return 0
    lat = Lattice((0, 1, 2), dim)
    run, res = execute(mc, lat, kind, tabs, mi, tuple(float(v) for v in x0), tg)
    for e in run.ev:
        print("  ", e["t"], e["i"], run.vecs[e["a"] - 1] if e["t"] != "draw" or kind != "or" else e["a"],
              run.vecs[e["b"] - 1] if e["t"] == "call" else "")
    path = getattr(res, "path", None)
    print("returned %r through %s" % (list(res) if isinstance(res, list) else res, path))
    if path == "onexit":
        p = lat.snap(res) if tuple(res) in lat.index else None
        ch = [i + 1 for i, t in enumerate(tabs) if p is None or t[p] != p]
        ok = {"and": not ch, "or": len(ch) < len(tabs), "not": bool(ch)}[kind]
        print("claim of %s_ on the returned vector: %s (members changing it: %s)" % (kind, "holds" if ok else "VIOLATED", ch))
        return 0 if ok else 1
    return 0


def main():
    a = tier_seed()
    assert_repo()
    import mystic.constraints as mc
    import mystic.coupler as cp
    import mystic.penalty as mp
    if a.selftest:
        from harness.c17_bridges import selftest_bridges
        rc = selftest(a, mc, cp, mp)
        return selftest_bridges(a) or rc
    if a.replay:
        return replay_artefact(a, mc)
    ck = new_check(a)
    out = explore(ck, mc, cp, mp, a)
    out["observations"] = observations(mc)
    from harness.c17_bridges import bridges_part      # with_penalty .. has_unique: specs/cons/Bridges.tla
    bridges_part(ck, a)
    return ck.finish()


if __name__ == "__main__":
    main_guard(main)
