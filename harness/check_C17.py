"""C17 -- combinators claim success only at a fixed point; couplers compose as documented.

H17 (spellings and boundary values): the specification's values are abstract (opaque vector ids, small integers); the replay
writes every abstract case in one of several concrete spellings chosen by a deterministic rotation (see LATVALS / *_ROT and
class Spell), and the specification's catalogues were extended by the boundary cases: no member / no penalty, 5..12 members,
maxiter 0 / 10 / 12, omitted coupler functions, negative / zero / positive table values in tiny, denormal and huge units,
k=None, iteration n with multiplier k*h^n.  ck.extra lists how often every spelling was used.

Specifications: specs/cons/Combinators.tla (and_/or_/not_ as loops, members = arbitrary functions on a
finite domain, randomisation = nondeterministic action, success rule as-is / demanded),
specs/cons/Couplers.tla (inner/outer/additive(+proxies) and the penalty combinators as table algebra).

design   TLC model-checks the claims `onexit => all / some / no member fixes ret`, one exit path,
         termination within the cap -- for the rule the property demands (must hold) and for the
         rule the code uses (TLC emits every run in which the as-is and_ claims success wrongly).
spec->code  * every emitted wrong-success run of the as-is design is re-run on the REAL and_ with a
              scripted random; a reproduced one is a violation of C17 by mystic;
            * every coupler / penalty-combinator case table emitted by TLC is replayed on the real
              mystic.coupler functions and compared value by value.
code->spec  the REAL and_/or_/not_ run with table-driven members, a scripted `random` module and
            sentinel onexit/onfail; every member call, draw and exit is logged; TLC validates all
            traces against Trace_Combinators (the run must be a run of the transcribed loop) and
            evaluates the claim on the returned vector with pristine member tables.
"""
import sys, os, json, itertools, random as pyrandom, contextlib, shutil, math
from concurrent.futures import ThreadPoolExecutor
from harness.core import Check, tier_seed, assert_repo, main_guard
from harness.tlc import run_tlc, counterexample, scratch_dir

K_NONIDEM = "and_:success-after-n-iterates-nonidempotent-member"
K_RANDWIN = "and_:success-window-contains-randomised-iterate"
OFF = -1            # draw target "off the lattice"


# =========================================================================================
# recording the real combinators
# =========================================================================================
class Tagged(list):
    """what a sentinel returns: lets the harness see that the combinator returned it unchanged"""
    path = None


class Lattice(object):
    """the finite domain: vals^dim as float vectors; members are tables over its points"""
    def __init__(self, vals, dim):
        self.vals = [float(v) for v in vals]
        self.dim = dim
        self.points = [tuple(p) for p in itertools.product(self.vals, repeat=dim)]
        self.index = {p: i for i, p in enumerate(self.points)}

    def snap(self, vec):
        out = []
        for v in vec:
            v = float(v)
            best = min(self.vals, key=lambda w: (abs(w - v), w)) if v == v else self.vals[0]
            out.append(best)
        return self.index[tuple(out)]


# =========================================================================================
# spellings (H17): the specification sees the vectors as opaque ids, so one abstract run can be concretised in many ways.
# The same scenario is replayed with a value set, a container / number type for the input vector, for what the members
# return and for maxiter chosen by a deterministic rotation over the scenario number.
# =========================================================================================
LATVALS = {                                   # the three abstract domain values as concrete numbers
    "012": (0, 1, 2),                         # (the original enumeration)
    "neg": (-1, 0, 1),                        # negative values; 0 in the middle (spelled 0, 0.0, -0.0)
    "half": (0, 0.5, 1),                      # integral start points whose images are not integral (int-dtype truncation)
    "tiny": (0, 5e-324, 1e-9),                # tiny but not zero: an equality test with a tolerance conflates them
    "huge": (1e10, 1e10 + 1e-5, 1e300),       # huge, and two huge values that differ far below 1e-8 relative
    "dec": (0.123456789, 0.1234567891, 0.12345678912345678),    # differences beyond the 8th decimal
}
LAT_ROT = ("012", "neg", "half", "012", "tiny", "huge", "012", "dec")
XIN_ROT = ("list_float", "np_f64", "list_int", "list_float", "np_i64", "list_np", "np_f32")      # and_/or_
XIN_ROT_NOT = ("list_float", "list_int", "list_np", "list_float", "negzero")                     # not_ compares `c(x) != x`: lists only
RET_ROT = ("list_float", "negzero", "list_int", "np_f64", "list_float", "list_np", "np_i64", "np_f32", "list_float")
MI_ROT = ("int", "np_i64", "int", "np_i32", "int")
SENT_ROT = ("none", "explicit_none", "onexit_only", "onfail_only")
_F32OK = {}


def spell_vec(vals, how, salt=0):
    """the float vector `vals` written as `how`; returns (object, the spelling really used)"""
    import numpy
    vals = [float(v) for v in vals]
    integral = all(v == int(v) and abs(v) < 2.0 ** 53 for v in vals)
    if how in ("np_i64", "list_npi") and not integral:
        how = "np_f64" if how == "np_i64" else "list_np"
    if how == "np_f32":
        with numpy.errstate(all="ignore"):
            if not all(float(numpy.float32(v)) == v for v in vals):
                how = "np_f64"
    if how == "list_float":
        return vals, how
    if how == "negzero":                       # every (salt-selected) zero written -0.0
        return [(-0.0 if v == 0.0 and (k + salt) % 2 == 0 else v) for k, v in enumerate(vals)], how
    if how == "list_int":                      # python ints where the value is integral (a mixed list otherwise)
        return [int(v) if v == int(v) and abs(v) < 2.0 ** 53 else v for v in vals], how
    if how == "np_f64":
        return numpy.array(vals, dtype=numpy.float64), how
    if how == "np_i64":
        return numpy.array([int(v) for v in vals], dtype=numpy.int64), how
    if how == "np_f32":
        return numpy.array(vals, dtype=numpy.float32), how
    if how == "list_np":                       # a list of numpy scalars
        return [numpy.float64(v) for v in vals], how
    if how == "list_npi":
        return [numpy.int64(int(v)) for v in vals], how
    if how == "tuple":
        return tuple(vals), how
    raise ValueError(how)


def spell_maxiter(mi, how):
    import numpy
    if mi is None or how == "int":
        return mi
    return {"np_i64": numpy.int64, "np_i32": numpy.int32}[how](mi)


def spelling_of(nscen, kind, fl):
    """the deterministic rotation: scenario number -> spelling (the flags of older scenarios keep their meaning)"""
    xr = XIN_ROT_NOT if kind == "not" else XIN_ROT
    sp = {"lat": LAT_ROT[nscen % len(LAT_ROT)],
          "xin": xr[(nscen // 2) % len(xr)],
          "ret": [RET_ROT[(nscen // 3 + 4 * i) % len(RET_ROT)] for i in range(12)],
          "mi": MI_ROT[(nscen // 5) % len(MI_ROT)],
          "sent2": SENT_ROT[(nscen // 7) % len(SENT_ROT)]}
    if fl.get("as_array"):
        sp["xin"] = "np_f64"
    if fl.get("ret_array"):
        sp["ret"] = ["np_f64"] * 12
    if kind == "not":                         # not_ compares the member's result with x itself: `list != array` is elementwise
        sp["ret"] = [r if r.startswith("list") or r == "negzero" else "list_float" for r in sp["ret"]]
    return sp


class Run(object):
    """one recorded execution: interning of vectors to ids, the events, the scripted random"""
    def __init__(self, lat, kind, tables, targets, ret_array=False, inplace=False, ret=None):
        self.ret = ret                      # per member: how it writes what it returns (None: a list of floats)
        self.used = set()                   # the spellings really used
        self.inplace = inplace              # members write the result into their argument and return it
        self.lat, self.kind, self.tables = lat, kind, tables
        self.ids = {p: i + 1 for i, p in enumerate(lat.points)}     # lattice points first
        self.vecs = list(lat.points)
        self.ev = []
        self.targets = list(targets)        # one entry per randomisation, cycled
        self.ndraw_events = 0
        self.pending = []                   # raw rnd calls of the current randomisation
        self.cur = None                     # the vector the next randomisation will act on
        self.exits = []
        self.problems = []
        self.ret_array = ret_array
        self.rawdraws = []

    # -- ids
    def vid(self, vec):
        t = tuple(float(v) + 0.0 for v in vec)      # -0.0 == 0.0 for list equality as well
        if t not in self.ids:
            self.ids[t] = len(self.vecs) + 1
            self.vecs.append(t)
        return self.ids[t]

    # -- members
    def member(self, i):
        T = self.tables[i - 1]

        def c(x):
            xin = [float(v) for v in x]
            self.flush(xin)
            out = list(self.lat.points[T[self.lat.snap(xin)]])
            self.ev.append({"t": "call", "i": i, "a": self.vid(xin), "b": self.vid(out)})
            self.cur = xin if self.kind == "not" else out
            if self.ret is not None:        # the same values in the spelling this member uses
                out, how = spell_vec(out, self.ret[(i - 1) % len(self.ret)], salt=i)
                self.used.add("ret:" + how)
                if not self.inplace or not isinstance(x, list):
                    return out
                if hasattr(out, "tolist"):  # written into the argument: python numbers (a list of float32 scalars would make
                    out = out.tolist()      # `==` a float32 comparison under numpy's weak-scalar promotion)
            if self.inplace:                # a constraint that modifies its argument in place (as generated ones do)
                try:
                    x[:] = out
                    return x
                except TypeError:
                    pass
            if self.ret_array:
                import numpy
                return numpy.array(out)
            return out
        c.__doc__ = "member %d" % i
        return c

    # -- sentinels
    def sentinel(self, path):
        def s(x):
            xin = [float(v) for v in x]
            self.flush(xin)
            self.ev.append({"t": "exit", "i": 1 if path == "onexit" else 0, "a": self.vid(xin), "b": 0})
            t = Tagged(xin)
            t.path = path
            self.exits.append(t)
            return t
        return s

    # -- scripted random (and_/not_: dim x (randint(-1,1), random()); or_: randint(1,n))
    def flush(self, nextvec):
        """a randomisation of and_/not_ becomes visible as the vector the loop goes on with"""
        if self.pending:
            names = [p[0] for p in self.pending]
            if names != ["randint", "random"] * self.lat.dim:
                self.problems.append("randomisation drew %s" % names)
            self.ev.append({"t": "draw", "i": 0, "a": self.vid(nextvec), "b": 0})
            self.pending = []
            self.ndraw_events += 1

    def _target(self):
        t = self.targets[self.ndraw_events % len(self.targets)] if self.targets else OFF
        return t

    def randint(self, a, b):
        if self.kind == "or":
            t = self._target()
            k = a + (t % (b - a + 1)) if t != OFF else b
            self.ev.append({"t": "draw", "i": 0, "a": k, "b": 0})
            self.ndraw_events += 1
            self.rawdraws.append(("randint", a, b, k))
            return k
        if (a, b) != (-1, 1):
            self.problems.append("randint%r" % ((a, b),))
        coord = len(self.pending) // 2
        o = self.cur[coord] if self.cur is not None and coord < len(self.cur) else 0.0
        t = self._target()
        want = OFF if t == OFF else self.lat.points[t % len(self.lat.points)][coord]
        r, u = plan_draw(o, want, salt=self.ndraw_events + coord)
        self.pending.append(("randint", r))
        self._u = u
        self.rawdraws.append(("randint", a, b, r))
        return r

    def random(self):
        u = getattr(self, "_u", 0.3125)
        self.pending.append(("random", u))
        self.rawdraws.append(("random", u))
        return u

    # -- the trace in the shape Trace_Combinators reads
    def trace(self, maxiter, x0):
        K = len(self.vecs)
        tab = [[self.ids[self.lat.points[T[self.lat.snap(self.vecs[j])]]] for j in range(K)] for T in self.tables]
        return {"kind": self.kind, "maxiter": maxiter, "x0": self.ids[tuple(x0)], "tab": tab, "ev": self.ev}


def plan_draw(o, want, salt=0):
    """(r, u) with r in {-1,0,1}, 0 <= u < 1 such that (o + r) * u == want exactly, if a realistic draw
    exists; otherwise an off-lattice value"""
    if want != OFF:
        if want == 0.0:
            return (1, 0.0)
        for r in (1, 0, -1):
            s = o + r
            if s != 0:
                u = want / s
                if 0.0 <= u < 1.0 and s * u == want:
                    return (r, u)
    r = (1, 0, -1)[salt % 3] if o + (1, 0, -1)[salt % 3] != 0 else 1
    return (r, (0.3125, 0.8125, 0.5625)[salt % 3])


@contextlib.contextmanager
def scripted_random(mc, fake):
    """`import random as rnd` inside and_/or_/not_ (or a module-level name) resolves to `fake`"""
    real = sys.modules["random"]
    sys.modules["random"] = fake
    patched = []
    for name in ("rnd", "random"):
        if getattr(mc, name, None) is real:
            setattr(mc, name, fake)
            patched.append(name)
    try:
        yield
    finally:
        sys.modules["random"] = real
        for name in patched:
            setattr(mc, name, real)


def execute(mc, lat, kind, tables, maxiter, x0, targets, sentinels=True, as_array=False, ret_array=False, inplace=False,
            warm=None, sp=None):
    """run the real combinator once; returns the Run and the returned object.  `warm`: a start point on which the SAME
    combinator object is called first (its events are discarded): a combinator must not carry state from call to call.
    `sentinels`: True / "both", False / "none" (omitted), "explicit_none" (onexit=None, onfail=None), "onexit_only",
    "onfail_only".  `sp`: the spelling (see spelling_of) of the input vector, the members' results and maxiter"""
    run = Run(lat, kind, tables, targets, ret_array=ret_array, inplace=inplace, ret=sp["ret"] if sp else None)
    kw = {}
    if maxiter is not None:
        kw["maxiter"] = spell_maxiter(maxiter, sp["mi"]) if sp else maxiter
        run.used.add("maxiter:" + (sp["mi"] if sp else "int"))
    else:
        run.used.add("maxiter:omitted")
    mode = {True: "both", False: "none"}.get(sentinels, sentinels)
    if mode in ("both", "onexit_only"):
        kw["onexit"] = run.sentinel("onexit")
    if mode in ("both", "onfail_only"):
        kw["onfail"] = run.sentinel("onfail")
    if mode == "explicit_none":
        kw["onexit"] = kw["onfail"] = None
    members = [run.member(i + 1) for i in range(len(tables))]
    x = [float(v) for v in x0]
    if sp:
        x, how = spell_vec(x, sp["xin"])
        run.used.add("x:" + how)
    elif as_array:
        import numpy
        x = numpy.array(x)
    with scripted_random(mc, run):
        if kind == "and":
            f = mc.and_(*members, **kw)
        elif kind == "or":
            f = mc.or_(*members, **kw)
        else:
            f = mc.not_(members[0], **kw)
        if warm is not None:
            try:
                f([float(v) for v in warm])
            except Exception:
                pass
            # forget what the warm-up call logged: the recorded call starts from a clean recorder
            run.ev, run.exits, run.pending, run.problems, run.rawdraws = [], [], [], [], []
            run.ndraw_events, run.cur = 0, None
            if hasattr(run, "_u"):
                del run._u
        try:
            res = f(x)
        except Exception as ex:
            res = ex
    return run, res


# =========================================================================================
# scenarios for the code -> spec direction
# =========================================================================================
def scenarios(a, legacy=False):
    """(lattice, kind, tables, maxiter, x0 point index, targets, flags) -- deterministic in the seed.
    legacy: without the H17 blocks (boundary values of maxiter and of the member count)"""
    rng = pyrandom.Random(a.seed * 7919 + 17)
    thorough = a.tier == "thorough"
    L1 = Lattice((0, 1, 2), 1)
    F3 = list(itertools.product(range(3), repeat=3))          # all 27 tables on 3 points
    pol_val = [[0], [1], [2], [OFF], [OFF, 0, 1, 2], [1, 0, OFF, 2]]
    pol_or = [[0], [1], [0, 1], [1, 1, 0]]
    out = []

    def add(lat, kind, tabs, mi, s, tg, **fl):
        out.append((lat, kind, [list(t) for t in tabs], mi, s, list(tg), fl))

    # --- exhaustive small classes (quick: seeded sample of them) -------------------------
    big = []
    for t1 in F3:                                                     # one member
        for s in range(3):
            for mi in (0, 1, 2, 3):
                big.append((L1, "and", (t1,), mi, s, pol_val[(s + mi) % 4]))
                big.append((L1, "or", (t1,), mi, s, [0]))
                for p in (0, 1, 3, 4):
                    big.append((L1, "not", (t1,), mi, s, pol_val[p]))
    for t1 in F3:                                                     # pairs
        for t2 in F3:
            for s in range(3):
                for mi in (1, 2, 3):
                    for p in range(len(pol_val)):
                        big.append((L1, "and", (t1, t2), mi, s, pol_val[p]))
                    for p in range(len(pol_or)):
                        big.append((L1, "or", (t1, t2), mi, s, pol_or[p]))
    if not thorough:
        rng.shuffle(big)
        # keep every kind represented
        keep, cnt = [], {"and": 0, "or": 0, "not": 0}
        lim = {"and": 2600, "or": 1300, "not": 500}
        for b in big:
            if cnt[b[1]] < lim[b[1]]:
                keep.append(b)
                cnt[b[1]] += 1
        big = keep
    for b in big:
        add(*b)
    # --- triples, longer caps, the default cap ------------------------------------------
    ntr = 6000 if thorough else 500
    for _ in range(ntr):
        kind = rng.choice(["and", "and", "or"])
        nn = rng.choice([3, 3, 4])
        tabs = [rng.choice(F3) for _ in range(nn)]
        if rng.random() < 0.5:       # bias towards members that agree somewhere (success paths)
            fp = rng.randrange(3)
            tabs = [tuple(fp if j == fp else t[j] for j in range(3)) for t in tabs]
        add(L1, kind, tabs, rng.choice([1, 2, 3, 5]), rng.randrange(3),
            rng.choice(pol_val) if kind == "and" else [rng.randrange(nn) for _ in range(3)])
    for _ in range(60 if thorough else 12):                          # default maxiter = 100
        kind = rng.choice(["and", "or", "not"])
        nn = 1 if kind == "not" else rng.choice([1, 2, 3])
        add(L1, kind, [rng.choice(F3) for _ in range(nn)], None, rng.randrange(3), [OFF, 0, 1, OFF, 2])
    # --- two-dimensional vectors ({0,1,2}^2, 9 points) ----------------------------------
    L2 = Lattice((0, 1, 2), 2)
    n2 = 8000 if thorough else 700
    for _ in range(n2):
        kind = rng.choice(["and", "and", "or", "not"])
        nn = 1 if kind == "not" else rng.choice([1, 2, 2, 3])
        style = rng.random()
        tabs = []
        for _m in range(nn):
            if style < 0.4:            # coordinate-wise product of two 1-d tables
                a1, a2 = rng.choice(F3), rng.choice(F3)
                tabs.append([3 * a1[p // 3] + a2[p % 3] for p in range(9)])
            elif style < 0.7:          # sparse change: identity except at a few points
                t = list(range(9))
                for _k in range(rng.choice([1, 2, 3])):
                    t[rng.randrange(9)] = rng.randrange(9)
                tabs.append(t)
            else:
                tabs.append([rng.randrange(9) for _ in range(9)])
        tg = [rng.choice([OFF] + list(range(9))) for _ in range(3)] if kind != "or" else [rng.randrange(nn) for _ in range(3)]
        add(L2, kind, tabs, rng.choice([1, 2, 3, 4]), rng.randrange(9), tg,
            as_array=(kind != "not" and rng.random() < 0.2), ret_array=(kind != "not" and rng.random() < 0.2))
    if legacy:
        return out
    # --- H17: boundary values of the settings and of the member count (own generator: the scenarios above stay what they were)
    rng2 = pyrandom.Random(a.seed * 104729 + 17)
    # no member at all: and_() succeeds at once, or_() fails at once (Combinators.tla, InitWith with n = 0)
    for kind in ("and", "or"):
        for mi in (None, 0, 1, 3, 12):
            for s in range(3):
                add(L1, kind, [], mi, s, [OFF])
            add(L2, kind, [], mi, (3 * (mi or 0) + 1) % 9, [OFF])
    # maxiter = 0 with two members (the first sweep is unconditional; `maxiter or default` would run on)
    pairs0 = [(t1, t2, s) for t1 in F3 for t2 in F3 for s in range(3)]
    rng2.shuffle(pairs0)
    for t1, t2, s in pairs0[:(len(pairs0) if thorough else 160)]:
        add(L1, "and", (t1, t2), 0, s, [OFF])
        add(L1, "or", (t1, t2), 0, s, [0])
    # two-digit caps: maxiter 10 and 12 (up to 36 member calls, several sweeps of the `del x[:n]` housekeeping)
    for _ in range(1500 if thorough else 220):
        kind = rng2.choice(["and", "and", "or", "not"])
        nn = 1 if kind == "not" else rng2.choice([1, 2, 2, 3])
        tabs = [rng2.choice(F3) for _ in range(nn)]
        add(L1, kind, tabs, rng2.choice([10, 12]), rng2.randrange(3),
            rng2.choice(pol_val) if kind != "or" else [rng2.randrange(nn) for _ in range(4)])
    # many members: 5 and 7 (primes), 10 and 12 (two digits, composite): window x[-(n+1)], `j % (2*n)`, randint(1, n)
    for _ in range(900 if thorough else 140):
        kind = rng2.choice(["and", "and", "or"])
        nn = rng2.choice([5, 7, 10, 12])
        fp = rng2.randrange(3)
        style = rng2.random()
        tabs = []
        for _m in range(nn):
            t = rng2.choice(F3)
            if style < 0.75:                   # a common fixed point (success after several sweeps) ...
                t = tuple(fp if j == fp else t[j] for j in range(3))
            if style < 0.4 and _m != nn - 1:   # ... that only the last member leads to
                t = tuple(j for j in range(3))
            tabs.append(t)
        add(L1, kind, tabs, rng2.choice([1, 2, 3]), rng2.randrange(3),
            rng2.choice(pol_val) if kind == "and" else [rng2.randrange(nn) for _ in range(3)])
    return out


_LATS = {}


def lattice_for(name, dim):
    if (name, dim) not in _LATS:
        _LATS[(name, dim)] = Lattice(LATVALS[name], dim)
    return _LATS[(name, dim)]


def record_all(mc, a, ck, scen, spell=True, counts=None):
    """run every scenario on the real code; returns the traces (with meta) that go to TLC.  `spell`: apply the spelling
    rotation (False: every scenario in the original spelling -- lattice {0,1,2}, lists of floats, python int maxiter)"""
    traces = []
    counts = {} if counts is None else counts
    for nscen, (lat, kind, tabs, mi, s, tg, fl) in enumerate(scen):
        sp = None
        if spell:
            sp = spelling_of(nscen, kind, fl)
            if "lat" in fl:                      # a scenario may pin its value set
                sp["lat"] = fl["lat"]
            lat = lattice_for(sp["lat"], lat.dim)
        x0 = lat.points[s]
        fl = dict(fl, inplace=(nscen % 3 == 1 and not fl.get("ret_array", False)))   # every third run: in-place members
        # every fourth run: the combinator object has already been used once, on another start point
        warm = lat.points[(s * 5 + 3) % len(lat.points)] if nscen % 4 == 2 else None
        fl["warm"] = list(warm) if warm is not None else None
        fl["spelling"] = dict(sp, ret=sp["ret"][:max(1, len(tabs))]) if sp else None
        run, res = execute(mc, lat, kind, tabs, mi, x0, tg, True, fl.get("as_array", False), fl.get("ret_array", False),
                           fl["inplace"], warm, sp=sp)
        for u in run.used | ({"lattice:" + sp["lat"]} if sp else set()):
            counts[u] = counts.get(u, 0) + 1
        meta = {"kind": kind, "tables": tabs, "maxiter": mi, "x0": list(x0), "targets": tg, "dim": lat.dim,
                "latvals": list(lat.vals),
                "flags": fl, "vectors": [list(v) for v in run.vecs], "rawdraws": run.rawdraws[:40]}
        desc = "%s_(%s) maxiter=%s x0=%s" % (kind, ", ".join(str(t) for t in tabs), mi, list(x0))
        if sp:
            desc += " [values %s; x as %s, members return %s, maxiter as %s]" % (
                list(lat.vals), sp["xin"], "/".join(sp["ret"][:max(1, len(tabs))]), sp["mi"])
        if isinstance(res, Exception):
            ck.violation("%s_:raises" % kind, dict(meta, error=repr(res)), "%s raised %r" % (desc, res))
            continue
        # "otherwise the failure path is taken": exactly one sentinel fired, and its value is what is returned
        if len(run.exits) != 1 or res is not run.exits[0]:
            ck.violation("%s_:return-not-through-exactly-one-exit-path" % kind,
                         dict(meta, exits=[e.path for e in run.exits], returned=repr(res), events=run.ev),
                         "%s: sentinels fired %s, returned %r" % (desc, [e.path for e in run.exits], res))
            continue
        for p in run.problems:
            ck.violation("%s_:unexpected-use-of-random" % kind, dict(meta, problem=p), "%s: %s" % (desc, p))
        # the same run with onexit / onfail omitted, None, or only one of them given returns the same vector (default = None);
        # a sentinel that is given and whose path is taken still delivers the result
        mode2 = sp["sent2"] if sp else "none"
        counts["sentinels:" + mode2] = counts.get("sentinels:" + mode2, 0) + 1
        run2, res2 = execute(mc, lat, kind, tabs, mi, x0, tg, mode2, fl.get("as_array", False), fl.get("ret_array", False),
                             fl["inplace"], warm, sp=sp)
        try:
            same = [float(v) + 0.0 for v in res2] == [float(v) + 0.0 for v in res]
        except Exception:
            same = False
        if not same:
            ck.violation("%s_:result-differs-without-sentinels" % kind, dict(meta, with_sentinels=list(res), without=repr(res2), mode=mode2),
                         "%s: returns %r with onexit/onfail set but %r with %s" % (desc, list(res), res2, mode2))
        elif mode2 in ("onexit_only", "onfail_only"):
            taken = run.exits[0].path
            through = [e.path for e in run2.exits]
            if through != ([taken] if mode2.startswith(taken) else []) or (through and res2 is not run2.exits[0]):
                ck.violation("%s_:return-not-through-exactly-one-exit-path" % kind,
                             dict(meta, mode=mode2, path_with_both=taken, exits=through, returned=repr(res2)),
                             "%s with %s: the run takes the %s path, sentinels fired %s, returned %r" % (desc, mode2, taken, through, res2))
        tr = run.trace(100 if mi is None else mi, x0)
        calls = sum(1 for e in run.ev if e["t"] == "call")
        tr_meta = dict(meta, path=run.exits[0].path, ret=list(res), ndraws=run.ndraw_events, calls=calls)
        traces.append((tr, tr_meta))
    return traces


def validate(ck, traces, a, label="traces"):
    """TLC validates the recorded traces against Trace_Combinators; claims on the returned vectors"""
    if not traces:
        return {"accepted": 0}
    per = 2500
    chunks = [traces[i:i + per] for i in range(0, len(traces), per)]
    d = scratch_dir()
    stats = {"asis_only": 0, "fixed_only": 0, "both": 0, "rejected": 0, "claim_bad": 0}
    try:
        def one(ix):
            path = os.path.join(d, "tr_%d.json" % ix)
            with open(path, "w") as f:
                json.dump([t for t, _ in chunks[ix]], f)
            return run_tlc("cons/Trace_Combinators", workers=1, env={"TRACES": path}, timeout=3000, heap="3g")
        with ThreadPoolExecutor(max_workers=max(1, min(a.jobs, len(chunks), 16))) as ex:
            results = list(ex.map(one, range(len(chunks))))
        for ix, r in enumerate(results):
            if r.violated and r.violated != "POSTCONDITION":
                ck.violation("spec:trace-" + r.violated, {"tlc": counterexample(r.out)},
                             "TLC: %s violated in a recorded state of %s" % (r.violated, label))
            ck.mc(r, "Trace_Combinators[%s %d]" % (label, ix))
            if not r.printed:
                raise RuntimeError("Trace_Combinators printed no verdict:\n" + r.out[-2000:])
            v = r.printed[-1]
            asis, fixed = set(v["asis"]), set(v["fixed"])
            bad, badrnd, badother = set(v["bad"]), set(v["badrnd"]), set(v["badother"])
            claimfalse = set(v["claimfalse"])
            for k, (tr, meta) in enumerate(chunks[ix], 1):
                desc = "%s_ members=%s maxiter=%s x0=%s" % (meta["kind"], meta["tables"], meta["maxiter"], meta["x0"])
                nontriv = meta["ndraws"] > 0 or meta["path"] == "onfail" or meta["calls"] > len(meta["tables"])
                ck.case(nontrivial=nontriv, key=("tr", meta["kind"], str(meta["tables"]), meta["maxiter"], str(meta["x0"]), str(meta["targets"]),
                                                 str(meta["flags"].get("spelling"))))
                if k in asis or k in fixed:
                    ck.trace()
                    stats["both" if (k in asis and k in fixed) else "asis_only" if k in asis else "fixed_only"] += 1
                else:
                    stats["rejected"] += 1
                    diag = diagnose(tr) if stats["rejected"] <= 3 else {"matched": -1, "event": "(not diagnosed)", "state": None}
                    ck.violation("%s_:run-is-not-a-run-of-the-specified-loop" % meta["kind"],
                                 dict(meta, trace=tr, diagnosis=diag),
                                 "%s: recorded events are not a run of Combinators.tla; matched %d of %d events, "
                                 "first unexplained event %s in spec state %s" % (desc, diag["matched"], len(tr["ev"]), diag["event"], diag["state"]))
                    if k in claimfalse:
                        stats["claim_bad"] += 1
                        ck.violation("%s_:success-claim-false" % meta["kind"], dict(meta, trace=tr),
                                     "%s returned %s through onexit, but %s" % (desc, meta["ret"], claim_text(meta)))
                    continue
                if (k in claimfalse) != (k in bad or k in badrnd or k in badother):
                    raise RuntimeError("claim registers of Trace_Combinators disagree on trace %d" % k)
                if k in bad or k in badrnd or k in badother:
                    stats["claim_bad"] += 1
                    key = K_RANDWIN if k in badrnd else K_NONIDEM if k in bad else "%s_:success-claim-false" % meta["kind"]
                    ck.violation(key, dict(meta, trace=tr),
                                 "%s returned %s through onexit, but %s" % (desc, meta["ret"], claim_text(meta)))
        return stats
    finally:
        shutil.rmtree(d, ignore_errors=True)


def claim_text(meta):
    return {"and": "a member changes that vector", "or": "every member changes that vector",
            "not": "the member leaves that vector unchanged"}[meta["kind"]]


def diagnose(tr):
    """re-run TLC on one rejected trace: longest matched prefix and the first unmatched event"""
    d = scratch_dir()
    try:
        path = os.path.join(d, "one.json")
        with open(path, "w") as f:
            json.dump([tr], f)
        r = run_tlc("cons/Trace_Combinators", cfg="Trace_Combinators_debug.cfg", workers=1, env={"TRACES": path})
        states = [p for p in r.printed if isinstance(p, dict) and "l" in p]
        best = max(states, key=lambda p: p["l"]) if states else {"l": 1}
        m = best["l"] - 1
        return {"matched": m, "event": tr["ev"][m] if m < len(tr["ev"]) else "(end of trace: the loop has not returned)",
                "state": {k: best.get(k) for k in ("pc", "calls", "x", "rule")}}
    finally:
        shutil.rmtree(d, ignore_errors=True)


# =========================================================================================
# design level: TLC on Combinators, and replay of the wrong-success runs of the as-is design
# =========================================================================================
def design(ck, a, light=False):
    thorough = a.tier == "thorough"
    bad = []
    info = {}

    def tlc(cfg, workers=1, heap="2g"):
        return run_tlc("cons/MC_Combinators", cfg=cfg, workers=workers, deadlock=True, timeout=3000, heap=heap)

    def register(r, cfg, name, expect=None):
        ck.mc(r, name)
        if expect is None and r.violated:
            ck.violation("spec:" + r.violated, {"cfg": cfg, "tlc": counterexample(r.out)},
                         "TLC: %s violated in Combinators.tla (%s)" % (r.violated, cfg))
        if expect is not None:
            if r.violated != expect:
                ck.violation("spec:expected-counterexample-missing", {"cfg": cfg, "got": r.violated},
                             "TLC was expected to refute %s in %s (got %r)" % (expect, cfg, r.violated))
            info[name] = {"violated": r.violated, "counterexample": counterexample(r.out)[:5000]}
        return r

    def run(cfg, name, workers=1, expect=None, heap="2g"):
        return register(tlc(cfg, workers, heap), cfg, name, expect)

    # (cfg, name, expected refutation) -- one TLC process each, run side by side, registered in this order
    batch = [
        # the rule the property demands: all three claims, one exit path, bounded, progress, no deadlock
        ("MC_Comb_fixed_quick.cfg", "Combinators fixed rule, n<=2 (incl. no member), |D|=3, all members", None),
        # the rule the code used to use: or_/not_ claims must hold; and_'s wrong successes are emitted
        ("MC_Comb_asis_quick.cfg", "Combinators as-is rule, n<=2 (incl. no member), |D|=3, all members", None)]
    if not light:
        batch += [
            ("MC_Comb_cex_asis.cfg", "as-is and_ counter-example", "ClaimAnd"),
            ("MC_Comb_cex_n1.cfg", "n+1-equal-iterates and_ counter-example", "ClaimAnd"),
            ("MC_Comb_cex_idem.cfg", "as-is and_ counter-example with idempotent members", "ClaimAnd"),
            ("MC_Comb_idem.cfg", "as-is and_, idempotent members, n<=3: wrong only via randomised iterate", None),
            ("MC_Comb_live.cfg", "liveness <>Done, n<=3 (incl. no member), |D|=2", None),
            ("MC_Comb_fixed_n3_quick.cfg", "Combinators fixed rule, n=3, |D|=2", None),
            # two-digit caps (maxiter 10 and 12: up to 36 member calls), both rules, |D|=2
            ("MC_Comb_long_thorough.cfg" if thorough else "MC_Comb_long.cfg",
             "Combinators maxiter 10 and 12, n<=%d, |D|=2, both rules" % (3 if thorough else 2), None)]
    with ThreadPoolExecutor(max_workers=max(1, min(a.jobs, len(batch), 9))) as ex:
        results = list(ex.map(lambda b: tlc(b[0]), batch))
    for (cfg, name, expect), r in zip(batch, results):
        register(r, cfg, name, expect)
    bad += [p for p in results[1].printed if isinstance(p, dict) and p.get("kind") == "and"]
    if thorough:
        w = max(1, min(a.jobs, 16))
        run("MC_Comb_fixed_thorough.cfg", "Combinators fixed rule, n=3, |D|=3, all 27^3 triples", workers=w, heap="12g")
        r = run("MC_Comb_asis_thorough.cfg", "Combinators as-is rule, n=3, |D|=3, all 27^3 triples", workers=w, heap="12g")
        run("MC_Comb_fixed_d4.cfg", "Combinators fixed rule, n<=2, |D|=4, all 256^2 pairs", workers=w, heap="12g")
        run("MC_Comb_vac_exit.cfg", "vacuity: onexit reachable", expect="NeverOnExit")
        run("MC_Comb_vac_fail.cfg", "vacuity: onfail reachable", expect="NeverOnFail")
        run("MC_Comb_vac_draw.cfg", "vacuity: randomisation reachable", expect="NeverDraw")
    return bad, info


def replay_bad(ck, mc, bad, a):
    """spec -> code: the runs in which the as-is design claims success wrongly, on the real and_"""
    L1 = Lattice((0, 1, 2), 1)
    st = {"emitted": len(bad), "reproduced": 0, "not_reproduced": 0, "draw_not_realistic": 0}
    for nb, b in enumerate(bad):
        tabs = [list(t) for t in b["tabs"]]
        x0 = L1.points[b["x0"]]
        sp = dict(spelling_of(nb, "and", {}), lat="012")      # the containers / number types rotate; the values stay {0,1,2}
        run, res = execute(mc, L1, "and", tabs, b["maxiter"], x0, b["draws"] or [OFF], sp=sp)      # (the draws must hit them)
        got_draws = [L1.index.get(run.vecs[e["a"] - 1], None) for e in run.ev if e["t"] == "draw"]
        if got_draws[:len(b["draws"])] != b["draws"][:len(got_draws)]:
            st["draw_not_realistic"] += 1          # no randint in {-1,0,1}, random in [0,1) gives that value
            continue
        ok = isinstance(res, Tagged) and res.path == "onexit"
        ret = L1.index.get(tuple(res), None) if ok else None
        changed = [i + 1 for i, t in enumerate(tabs) if ret is not None and t[ret] != ret]
        nontriv = True
        ck.case(nontrivial=nontriv, key=("bad", str(tabs), b["maxiter"], b["x0"], str(b["draws"])))
        ck.trace()
        if ok and changed:
            st["reproduced"] += 1
            key = K_RANDWIN if b["rnd"] else K_NONIDEM
            ck.violation(key, {"members": tabs, "maxiter": b["maxiter"], "x0": list(x0), "draws": b["draws"],
                               "spec": b, "returned": list(res), "path": res.path, "changed_by_members": changed,
                               "events": run.ev, "rawdraws": run.rawdraws},
                         "and_ with member tables %s (on {0,1,2}) maxiter=%s x=%s returned %s through onexit, "
                         "but member(s) %s change that vector (TLC counter-example of the as-is success rule, "
                         "reproduced on mystic)" % (tabs, b["maxiter"], list(x0), list(res), changed))
        else:
            st["not_reproduced"] += 1
    return st


# =========================================================================================
# couplers and penalty combinators: TLC case tables replayed on mystic.coupler
# =========================================================================================
COUPLER_FAMS = ("couple", "nest", "pen", "penlong", "notpen", "addv")


def coupler_tables(a):
    t = "thorough" if a.tier == "thorough" else "quick"
    jobs = [(fam, "MC_Coup_%s_%s.cfg" % (fam, t)) for fam in COUPLER_FAMS] + [("vacuity", "MC_Coup_vacuity.cfg")]
    with ThreadPoolExecutor(max_workers=max(1, min(getattr(a, "jobs", 4) or 1, len(jobs)))) as ex:
        rs = list(ex.map(lambda j: run_tlc("cons/MC_Couplers", cfg=j[1], workers=1, timeout=3000, heap="4g"), jobs))
    return {fam: r for (fam, _), r in zip(jobs, rs)}


# ---- spellings of the coupler cases (H17).  The specification computes with small integers v (table entries, indices,
# extra arguments); the replay writes the same v as a python int / float, a numpy scalar, a one-element list or array,
# in a unit 2^u where the specification says how the result scales (sums: degree 1; PT(t,k,.): Deg(t)).
VAL_ROT = ("int", "float", "np_i64", "np_f32", "list1", "arr1", "np_f64", "arr1_i64")
DEC_ROT = ("args_tuple", "kwds", "args_list", "args_tuple+kwds_empty")            # how a decorator argument d is given
DEC0_ROT = ("omitted", "args_tuple", "none", "kwds", "empty", "args_list")       # ... when d = 0 (the table ignores a = 0)
CALL_ROT = ("pos", "kw")                                                        # how a call argument e is given
CALL0_ROT = ("omitted", "pos", "kw")
FN_ROT = ("pos", "kw")                                                          # the coupler function: positional / by its name
FN_NAME = {"inner": "inner", "inner_proxy": "inner", "outer": "outer", "outer_proxy": "outer",
           "additive": "penalty", "additive_proxy": "penalty"}
PINF = float("inf")


def idx(x):
    """the integer an index / extra argument stands for, whatever its spelling"""
    if hasattr(x, "__len__"):
        x = x[0]
    return int(x)


def num(o):
    """the number a result stands for, whatever its spelling"""
    if hasattr(o, "__len__"):
        if len(o) != 1:
            raise ValueError("result %r is not one value" % (o,))
        o = o[0]
    return float(o)


class Spell(object):
    """writes the specification's integers in a given spelling; remembers the containers it owns (a function may hand out
    the same array on every call: the couplers must not write into it)"""
    def __init__(self):
        self.owned = set()
        self.arrays = {}
        self.used = {}
        self.max_i64_exp = 40

    def val(self, v, how, u=0, additive=False):
        import numpy
        if additive and how == "list1":
            how = "arr1"                              # list + list concatenates: not a number spelling for a sum
        if u < 0 and how in ("int", "np_i64", "arr1_i64"):
            how = {"int": "float", "np_i64": "np_f64", "arr1_i64": "arr1"}[how]
        if u > self.max_i64_exp and how in ("np_i64", "arr1_i64"):    # (int64 arithmetic wraps around silently: numpy, not mystic)
            how = {"np_i64": "int", "arr1_i64": "arr1"}[how]
        if abs(u) > 100 and how == "np_f32":
            how = "np_f64"
        self.used[how] = self.used.get(how, 0) + 1
        fv = math.ldexp(float(v), u)
        if how == "int":
            return int(v) * 2 ** u
        if how == "float":
            return fv
        if how == "np_f64":
            return numpy.float64(fv)
        if how == "np_f32":
            return numpy.float32(fv)
        if how == "np_i64":
            return numpy.int64(int(v) * 2 ** u)
        if how == "list1":
            return [fv]
        key = (v, how, u)
        if key not in self.arrays:               # one owned array per value: handed out again and again
            if how == "arr1":
                o = numpy.array([fv])
            elif how == "arr1_i64":
                o = numpy.array([int(v) * 2 ** u], dtype=numpy.int64)
            else:
                raise ValueError(how)
            self.arrays[key] = (o, o.copy())
        self.owned.add(key)
        return self.arrays[key][0]

    def dirty(self):
        """owned arrays handed out since the last call that were written into (they are restored)"""
        bad = []
        for key in self.owned:
            o, keep = self.arrays[key]
            if o.dtype != keep.dtype or o.shape != keep.shape or o[0] != keep[0]:
                bad.append((repr(keep), repr(o)))
                del self.arrays[key]
        self.owned = set()
        return bad


def table_fn(T, M, log=None, how="int", sp=None, u=0, additive=False):
    """a callable reading table T at (x + a) % M  (a = the optional extra argument); the value in spelling `how`.
    Container spellings hand out one owned object per table entry (the same object on every call)"""
    if sp is None or how == "int" and u == 0:
        def f(x, a=0):
            return T[(idx(x) + idx(a)) % M]
        return f
    cache = {}
    arrays = how in ("arr1", "arr1_i64")

    def f(x, a=0):
        v = T[(idx(x) + idx(a)) % M]
        if arrays or v not in cache:             # (arrays: Spell keeps one per value and notes that it was handed out)
            cache[v] = sp.val(v, how, u, additive)
        return cache[v]
    return f


def replay_couplers(ck, cp, mp, tl, corrupt=False, legacy=False, mc=None):
    """legacy: one spelling per input, as before H17 (python ints, args=(d,), positional call arguments, the families and
    fields of the original tables only)"""
    import numpy
    if mc is None:
        import mystic.constraints as mc
    for fam in COUPLER_FAMS:
        r = tl[fam]
        ck.mc(r, "Couplers[%s]" % fam)
        if r.violated:
            ck.violation("spec:" + r.violated, {"tlc": counterexample(r.out)}, "TLC: law %s violated in Couplers.tla (%s)" % (r.violated, fam))
    if tl["vacuity"].violated != "OrderIrrelevant":
        ck.violation("spec:vacuity", {}, "TLC did not find tables for which inner and outer differ")
    sp = Spell()
    rot = [0]                                            # the rotation counter of the spellings
    used = {}

    def use(kind, how):
        used[kind + ":" + how] = used.get(kind + ":" + how, 0) + 1
        return how

    turn = {}

    def pick(kind, seq, k=None):
        """the next spelling of the rotation `seq` (every rotation keeps its own turn, so each of its members comes up
        equally often whatever the nesting of the loops around it)"""
        st = turn.get((kind, seq))
        if st is None:
            st = turn[(kind, seq)] = [pyrandom.Random("%s/%d" % (kind, len(seq))), []]
        if not st[1]:                                      # a new block: every member once, in a shuffled (seeded) order, so
            st[1] = list(seq)                              # that rotations used together are not in lockstep
            st[0].shuffle(st[1])
        return use(kind, st[1].pop())
    VAL_ROT2 = VAL_ROT + ("float",)                       # 8, 9 and 11 spellings: every combination comes up
    VAL_ROT3 = VAL_ROT + ("int", "np_f64", "arr1")

    def cmp(key, detail, exp, got, what):
        ok = True
        try:
            ok = [num(v) for v in got] == [float(v) for v in exp]
        except Exception:
            ok = False
        dirty = sp.dirty()
        if not ok:
            ck.violation(key, dict(detail, expected=exp, got=[repr(g) for g in got] if not isinstance(got, str) else got),
                         "%s: specification says %s, mystic gives %s" % (what, exp, got))
        if dirty:
            ck.violation(key + ":writes-into-a-value-it-was-given", dict(detail, changed=dirty[:3]),
                         "%s: an array returned by one of the coupled functions was modified (%s -> %s)" % (what, dirty[0][0], dirty[0][1]))

    def tryall(fn, xs):
        out = []
        for x in xs:
            try:
                out.append(fn(x))
            except Exception as ex:
                return "raised %r" % ex
        return out

    def decorate(name, c, d, k):
        """cp.<name>(c, <d in the spelling number k>); returns (decorator, description)"""
        dec = getattr(cp, name)
        how = pick("decorator-arg", DEC0_ROT if d == 0 else DEC_ROT, k)
        kw = {"omitted": {}, "none": {"args": None, "kwds": None}, "empty": {"args": (), "kwds": {}},
              "args_tuple": {"args": (d,)}, "args_list": {"args": [d]}, "kwds": {"kwds": {"a": d}},
              "args_tuple+kwds_empty": {"args": (d,), "kwds": {}}}[how]
        if pick("coupler-function", FN_ROT, k // 2) == "kw":
            return dec(**dict(kw, **{FN_NAME[name]: c})), "%s(%s=c%s)" % (name, FN_NAME[name], "".join(", %s=%r" % kv for kv in kw.items()))
        return dec(c, **kw), "%s(c%s)" % (name, "".join(", %s=%r" % kv for kv in kw.items()))

    def caller(g, e, k):
        how = pick("call-arg", CALL0_ROT if e == 0 else CALL_ROT, k)
        if how == "omitted":
            return (lambda x: g(x)), "(x)"
        if how == "kw":
            return (lambda x: g(x, a=e)), "(x, a=%d)" % e
        return (lambda x: g(x, e)), "(x, %d)" % e

    def xs_of(M, k, u=0):
        how = pick("x", VAL_ROT3, k)
        return [sp.val(x, how) for x in range(M)], how

    # ---- inner / outer / additive and their proxies, incl. routing of args
    cases = tl["couple"].printed
    if corrupt is True and cases:
        cases = [dict(cases[0], inner=[[[v + 1 for v in row] for row in blk] for blk in cases[0]["inner"]])] + cases[1:]
    if corrupt == "dflt" and cases:
        cases = [dict(cases[0], dflt=[[v + 1 for v in row] for row in cases[0]["dflt"]])] + cases[1:]
    addv_cases = [] if legacy else tl["addv"].printed
    if corrupt == "addv" and addv_cases:
        bump = lambda blk: [[[v + 1 for v in row] for row in b] for b in blk]
        addv_cases = [dict(addv_cases[0], additive=bump(addv_cases[0]["additive"]), additive_proxy=bump(addv_cases[0]["additive_proxy"]))] + addv_cases[1:]
    for cs in cases:
        M = len(cs["cf"])
        X = list(range(M))
        nontriv = cs["inner"][0][0] != cs["outer"][0][0]
        ck.case(nontrivial=nontriv, key=("couple", str(cs["cf"]), str(cs["ff"])))
        for name in ("inner", "outer", "additive", "inner_proxy", "outer_proxy", "additive_proxy"):
            add = name.startswith("additive")
            if not legacy:                             # the value spellings: one choice per case and coupler
                k0 = rot[0] = rot[0] + 1
                hc, hf = pick("value", VAL_ROT, k0), pick("value", VAL_ROT2, k0 // 8 + 3)
                c, f = table_fn(cs["cf"], M, how=hc, sp=sp, additive=add), table_fn(cs["ff"], M, how=hf, sp=sp, additive=add)
                xs, hx = xs_of(M, k0 // 3)
            for d in (0, 1):
                for e in (0, 1):
                    exp = cs[name][d][e]
                    if legacy:
                        c, f = table_fn(cs["cf"], M), table_fn(cs["ff"], M)
                        dec = getattr(cp, name)
                        if d == 0 and e == 0:
                            g = dec(c)(f)
                            got = tryall(lambda x: g(x), X)
                            cmp("coupler:%s" % name, {"c": cs["cf"], "f": cs["ff"]}, exp, got,
                                "%s(c)(f) with c=%s f=%s on x=0..%d" % (name, cs["cf"], cs["ff"], M - 1))
                        g = dec(c, args=(d,))(f)
                        got = tryall(lambda x: g(x, e), X)
                        cmp("coupler:%s-args" % name, {"c": cs["cf"], "f": cs["ff"], "args": d, "call_arg": e}, exp, got,
                            "%s(c,args=(%d,))(f)(x,%d) with c=%s f=%s" % (name, d, e, cs["cf"], cs["ff"]))
                        continue
                    k = rot[0] = rot[0] + 1
                    dec, ddesc = decorate(name, c, d, k)
                    g = dec(f)
                    call, cdesc = caller(g, e, k // 5)
                    det = {"c": cs["cf"], "f": cs["ff"], "args": d, "call_arg": e,
                           "spelling": {"c returns": hc, "f returns": hf, "x": hx, "decorator": ddesc, "call": cdesc}}
                    cmp("coupler:%s%s" % (name, "-args" if d or e else ""), det, exp, tryall(call, xs),
                        "%s(f)%s with c=%s (returning %s) f=%s (returning %s), x written as %s" % (ddesc, cdesc, cs["cf"], hc, cs["ff"], hf, hx))
            if legacy:
                continue
            # the coupler function omitted: identity / zero
            k = rot[0] = rot[0] + 1
            dec = getattr(cp, name)
            for de in (0, 1):
                if name.endswith("_proxy"):           # the proxies hand their own args to f
                    g = dec(args=(de,))(f) if (k + de) % 2 else dec(kwds={"a": de})(f)
                    call, cdesc = (lambda x: g(x)), "(args: a=%d)(f)(x)" % de
                else:
                    g = dec()(f)
                    call, cdesc = caller(g, de, k // 5)
                    cdesc = "()(f)" + cdesc
                cmp("coupler:%s-default" % name, {"f": cs["ff"], "arg": de, "spelling": {"f returns": hf, "x": hx, "call": cdesc}},
                    cs["dflt"][de], tryall(call, xs), "%s%s with f=%s (returning %s): f itself%s" % (
                        name, cdesc, cs["ff"], hf, " + 0.0" if add else ""))
    if cases:
        ck.sample({"c": cases[len(cases) // 2]["cf"], "f": cases[len(cases) // 2]["ff"],
                   "inner(c)(f)": cases[len(cases) // 2]["inner"][0][0], "outer(c)(f)": cases[len(cases) // 2]["outer"][0][0]})
    # ---- nesting
    for cs in tl["nest"].printed:
        M = len(cs["ff"])
        X = list(range(M))
        ck.case(nontrivial=cs["io"] != cs["oi"], key=("nest", str(cs["c1"]), str(cs["c2"]), str(cs["ff"])))
        for name, o1, o2 in (("ii", "inner", "inner"), ("oo", "outer", "outer"), ("io", "inner", "outer"),
                             ("oi", "outer", "inner"), ("aa", "additive", "additive")):
            k = rot[0] = rot[0] + 1
            hs = ["int"] * 3 if legacy else [pick("value", (VAL_ROT, VAL_ROT2, VAL_ROT3)[i], k + 3 * i) for i in range(3)]
            c1, c2, f = [table_fn(cs[q], M, how=h, sp=None if legacy else sp, additive=(name == "aa"))
                         for q, h in zip(("c1", "c2", "ff"), hs)]
            xs, hx = (X, "int") if legacy else xs_of(M, k // 3)
            g = getattr(cp, o1)(c1)(getattr(cp, o2)(c2)(f))
            cmp("coupler:nest-%s-%s" % (o1, o2), {"c1": cs["c1"], "c2": cs["c2"], "f": cs["ff"], "spelling": {"values": hs, "x": hx}},
                cs[name], tryall(lambda x: g(x), xs),
                "%s(c1)(%s(c2)(f)) with c1=%s c2=%s f=%s (returning %s)" % (o1, o2, cs["c1"], cs["c2"], cs["ff"], "/".join(hs)))
    # ---- additive over negative / zero / positive values in tiny, denormal and huge units (sums stated in units of 2^u)
    for n, cs in enumerate(addv_cases):
        M, u = len(cs["ff"]), cs["u"]
        ck.case(nontrivial=any(v < 0 for v in cs["pf"] + cs["ff"]) or 0 in cs["additive"][0][0],
                key=("addv", str(cs["pf"]), str(cs["ff"]), u))
        for name in ("additive", "additive_proxy"):
            for d in (0, 1):
                for e in (0, 1):
                    if (d + 2 * e + n + (name == "additive")) % 4:       # one argument combination per coupler and case
                        continue
                    k = rot[0] = rot[0] + 1
                    hp, hf = pick("value", VAL_ROT, k), pick("value", VAL_ROT2, k // 8 + 3)
                    pf, f = table_fn(cs["pf"], M, how=hp, sp=sp, u=u, additive=True), table_fn(cs["ff"], M, how=hf, sp=sp, u=u, additive=True)
                    xs, hx = xs_of(M, k // 3)
                    dec, ddesc = decorate(name, pf, d, k)
                    call, cdesc = caller(dec(f), e, k // 5)
                    exp = [math.ldexp(float(v), u) for v in cs[name][d][e]]
                    cmp("coupler:%s-values" % name, {"p": cs["pf"], "f": cs["ff"], "unit": "2**%d" % u, "args": d, "call_arg": e,
                                                     "spelling": {"p returns": hp, "f returns": hf, "x": hx, "decorator": ddesc, "call": cdesc}},
                        exp, tryall(call, xs), "%s(f)%s with p=%s*2**%d (returning %s) f=%s*2**%d (returning %s)" % (
                            ddesc, cdesc, cs["pf"], u, hp, cs["ff"], u, hf))
    if not legacy and tl["addv"].printed:
        s = tl["addv"].printed[len(tl["addv"].printed) // 3]
        ck.sample({"additive: p": s["pf"], "f": s["ff"], "unit 2**u, u": s["u"], "f(x)+p(x) in units": s["additive"][0][0]})
    # ---- penalty and_ / or_
    ptypes = ["linear_equality", "quadratic_equality", "uniform_equality",
              "linear_inequality", "quadratic_inequality", "uniform_inequality"]
    PUNITS = (0, -30, 0, 33)
    PVAL_ROT = ("int", "float", "np_f64", "penalty", "np_f32", "np_i64")
    K_ROT = ("int", "float", "np_i64", "np_f64")

    def kval(kv, how):
        return {"int": int, "float": float, "np_i64": numpy.int64, "np_f64": numpy.float64}[how](kv)

    def scaled(tab, u, deg, inf):
        return [PINF if v == inf else math.ldexp(float(v), u * deg) for v in tab]

    def member_pen(p, M, u, how):
        if how == "penalty":                   # the member is itself a mystic penalty: linear_equality with k=1 over the table
            return mc.with_penalty(mp.linear_equality, k=1)(table_fn(p, M, how="float", sp=sp, u=u))
        return table_fn(p, M, how=how, sp=sp, u=u)

    sp.max_i64_exp = 20                                    # the quadratic types square the value
    for n, cs in enumerate(tl["pen"].printed + ([] if legacy else tl["penlong"].printed)):
        ps = cs["ps"]
        M = len(cs["and"][0][0])
        X = list(range(M))
        zero_all = [all(p[x] == 0 for p in ps) for x in X]
        zero_any = [any(p[x] == 0 for p in ps) for x in X]
        ck.case(nontrivial=len(ps) > 1 and any(zero_any) and not all(zero_all), key=("pen", str(ps)))
        if legacy and not ps:
            continue
        u = 0 if legacy else PUNITS[n % len(PUNITS)]
        hows = ["int" if legacy else pick("penalty-value", PVAL_ROT, n + i) for i in range(len(ps))]
        members = [table_fn(p, M) if legacy else member_pen(p, M, u, h) for p, h in zip(ps, hows)]
        inf = cs["inf"]
        det0 = {"members": ps, "unit": "2**%d" % u, "members return": hows}
        mdesc = "%s%s" % (ps, "" if legacy else " * 2**%d (returning %s)" % (u, "/".join(hows)))
        for name, comb in (("and", cp.and_), ("or", cp.or_)):
            if not ps and name == "or":
                continue                                       # min of nothing: not defined
            dflt = pick("default-ptype", ("omitted", "ptype=None", "k=1", "ptype=linear_equality"), 0 if legacy else n)
            g = comb(*members, **{"omitted": {}, "ptype=None": {"ptype": None}, "k=1": {"k": 1},
                                  "ptype=linear_equality": {"ptype": mp.linear_equality}}[dflt])   # documented plain sum / minimum
            cmp("penalty-%s_:default" % name, dict(det0, spelling=dflt), scaled(cs[name][0][0], u, 1, inf), tryall(lambda x: g(x), X),
                "coupler.%s_ of member penalties %s (defaults, %s)" % (name, mdesc, dflt))
            long = len(ps) >= 10                               # the long lists: one penalty type per case (rotating)
            for j, pt in enumerate(ptypes):
                deg = cs["deg"][j]
                if long and j != n % 6:
                    continue
                for ki, exp in enumerate(cs[name][j]):
                    hk = "int" if legacy else pick("k", K_ROT, n + j + ki)
                    g = comb(*members, ptype=getattr(mp, pt), k=kval(ki + 1, hk))
                    cmp("penalty-%s_:%s" % (name, pt), dict(det0, ptype=pt, k=ki + 1, k_written_as=hk), scaled(exp, u, deg, inf), tryall(lambda x: g(x), X),
                        "coupler.%s_(ptype=%s,k=%d as %s) of member penalties %s" % (name, pt, ki + 1, hk, mdesc))
                if legacy:
                    continue
                if (n + j) % 3 == 0:                           # k=None: the multiplier is the penalty type's own default
                    g = comb(*members, ptype=getattr(mp, pt), k=None)
                    cmp("penalty-%s_:k-none" % name, dict(det0, ptype=pt, k=None), scaled(cs[name + "dk"][j], u, deg, inf), tryall(lambda x: g(x), X),
                        "coupler.%s_(ptype=%s,k=None) of member penalties %s" % (name, pt, mdesc))
            if legacy:
                continue
            for qi, q in enumerate(cs["iter"]):                # iteration n of the combined penalty: pk = k*h**n
                for j in ((n + qi) % 6,):
                    pt, deg = ptypes[j], cs["deg"][j]
                    kw = {"k": kval(q["k"], pick("k", K_ROT, n + qi))}
                    if q["h"] != 5 or (n + qi) % 2:
                        kw["h"] = q["h"]                       # (h = 5 is the default: written or omitted)
                    g = comb(*members, ptype=getattr(mp, pt), **kw)
                    if (n + qi + j) % 2:
                        g.iter(q["n"])
                    else:
                        for _ in range(q["n"]):
                            g.iter()
                    cmp("penalty-%s_:iteration" % name, dict(det0, ptype=pt, k=q["k"], h=q["h"], iteration=q["n"]), scaled(q[name][j], u, deg, inf),
                        tryall(lambda x: g(x), X), "coupler.%s_(ptype=%s, k=%d, h=%d) at iteration %d of member penalties %s" % (
                            name, pt, q["k"], q["h"], q["n"], mdesc))
    if tl["pen"].printed:
        s = tl["pen"].printed[len(tl["pen"].printed) // 2]
        ck.sample({"penalties": s["ps"], "and_(default)": s["and"][0][0], "or_(default)": s["or"][0][0]})
    # ---- penalty not_
    GVAL_ROT = ("int", "float", "np_f64", "negzero", "np_i64", "np_f32")
    for n, cs in enumerate(tl["notpen"].printed):
        g = cs["g"]
        M = len(g)
        X = list(range(M))
        u = 0 if legacy else PUNITS[(n // 2) % len(PUNITS)]
        hg = "int" if legacy else pick("condition-value", GVAL_ROT, n)
        inf = cs.get("inf")
        if legacy:
            cond = table_fn(g, M)
        elif hg == "negzero":                  # the boundary value written -0.0
            cond = (lambda x, g=g, u=u: -0.0 if g[idx(x) % M] == 0 else math.ldexp(float(g[idx(x) % M]), u))
        else:
            cond = table_fn(g, M, how=hg, sp=sp, u=u)
        det0 = {"g": g, "type": cs["t"], "unit": "2**%d" % u, "g returns": hg}
        gdesc = "%s%s" % (g, "" if legacy else " * 2**%d (returning %s)" % (u, hg))
        if cs["t"] == "raw":
            member = cond
        else:
            if legacy or n % 2:
                member = getattr(mp, cs["t"])(cond, k=cs["mk"])(lambda x: 0.)
            else:
                member = mc.with_penalty(getattr(mp, cs["t"]), k=cs["mk"])(cond)
            cmp("penalty:%s" % cs["t"], dict(det0, k=cs["mk"]), scaled(cs["member"], u, cs.get("deg", 0), inf), tryall(lambda x: member(x), X),
                "penalty %s(k=%d) over condition %s" % (cs["t"], cs["mk"], gdesc))
        ck.case(nontrivial=0 < len(cs["interior"]) < M, key=("notpen", str(g), cs["t"], cs["mk"]))
        own = getattr(mp, "linear_equality" if cs["t"] == "raw" else cs["t"])
        for ki, exp in enumerate(cs["nt"]):
            how = "omitted" if legacy else pick("not_-ptype", ("omitted", "ptype=None", "ptype=<the member's own>"), n + ki)
            kw = {"omitted": {}, "ptype=None": {"ptype": None}, "ptype=<the member's own>": {"ptype": own}}[how]
            n_ = cp.not_(member, k=ki + 1 if legacy else kval(ki + 1, pick("k", K_ROT, n + ki)), **kw)
            got = tryall(lambda x: n_(x), X)
            cmp("penalty-not_:%s" % cs["t"], dict(det0, k=ki + 1, interior=cs["interior"], ptype_given=how), scaled(exp, u, cs.get("ntdeg", 0), inf), got,
                "coupler.not_(k=%d, ptype %s) of a %s penalty over condition %s (interior of the accepted region: %s)" % (
                    ki + 1, how, cs["t"], gdesc, cs["interior"]))
            if ki == 0:
                n0 = cp.not_(member, **kw)
                cmp("penalty-not_:%s-default" % cs["t"], det0, scaled(exp, u, cs.get("ntdeg", 0), inf), tryall(lambda x: n0(x), X),
                    "coupler.not_ (defaults) of a %s penalty over condition %s" % (cs["t"], gdesc))
        if not legacy and n % 3 == 0:
            nn = cp.not_(member, k=None)
            cmp("penalty-not_:k-none", det0, scaled(cs["ntdk"], u, cs["ntdeg"], inf), tryall(lambda x: nn(x), X),
                "coupler.not_(k=None) of a %s penalty over condition %s" % (cs["t"], gdesc))
    used.update({"value-container:" + k: v for k, v in sp.used.items()})
    return used


# =========================================================================================
def new_check(a):
    return Check("C17", "model_checking", a.tier, a.seed,
                 rule="a case = one recorded run of the real constraints.and_/or_/not_ (TLC-validated trace), one "
                      "TLC-emitted wrong-success run of the as-is and_ design re-run on mystic, or one TLC-emitted "
                      "coupler / penalty-combinator table case; non-trivial = the run got past the first sweep "
                      "(a randomisation, a failure exit or more than n member calls), resp. the tables distinguish "
                      "the operators (inner != outer, zero sets of and_/or_ differ, not_ region non-empty and proper)")


def observations(mc):
    """DESIGN 7/F5: exceptions raised by members -- outside what C17 states; recorded, not judged"""
    obs = {}

    def boom(x):
        raise TypeError("a perfectly ordinary bug in a member")
    try:
        r = mc.and_(boom, lambda x: x, onexit=lambda x: ("onexit", x), onfail=lambda x: ("onfail", x), maxiter=2)([1.0])
        obs["and_ with a member raising TypeError('a perfectly ordinary bug...')"] = "swallowed, returned %r" % (r,)
    except Exception as ex:
        obs["and_ with a member raising TypeError('a perfectly ordinary bug...')"] = "propagated %r" % ex
    return obs


MIN_PER_SPELLING = 24          # every spelling of the rotation must occur at least that often in a run (machinery check)


def explore(ck, mc, cp, mp, a, tl=None, light=False, parts=("design", "traces", "couplers"), only_kind=None, legacy=False):
    """legacy: the enumeration as it was before H17 (one spelling per input; used by the self-test to show what the
    spellings add)"""
    ck.exhaustive = False
    out = {}
    if "design" in parts:
        bad, info = design(ck, a, light=light)
        out["design"] = info
        st = replay_bad(ck, mc, bad, a)
        out["as_is_wrong_success_runs"] = st
        if bad:
            ck.sample({"as-is and_ wrong success (TLC)": {k: bad[0][k] for k in ("tabs", "x0", "maxiter", "draws", "ret", "changedby")}})
    if "traces" in parts:
        scen = [sc for sc in scenarios(a, legacy=legacy) if only_kind in (None, sc[1])]
        counts = {}
        traces = record_all(mc, a, ck, scen, spell=not legacy, counts=counts)
        if not legacy and only_kind is None:
            expected = (["lattice:" + k for k in LATVALS] + ["x:" + k for k in set(XIN_ROT + XIN_ROT_NOT)] +
                        ["ret:" + k for k in set(RET_ROT)] + ["maxiter:" + k for k in set(MI_ROT)] + ["sentinels:" + k for k in SENT_ROT])
            thin = {k: counts.get(k, 0) for k in expected if counts.get(k, 0) < MIN_PER_SPELLING}
            if thin:
                raise RuntimeError("spelling rotation of the recorded runs is too thin: %s" % thin)
        st = validate(ck, traces, a)
        out["traces"] = dict(st, recorded=len(traces), spellings=dict(sorted(counts.items())),
                             no_member=sum(1 for _, m in traces if not m["tables"]),
                             members_5_to_12=sum(1 for _, m in traces if len(m["tables"]) >= 5),
                             maxiter_10_12=sum(1 for _, m in traces if m["maxiter"] in (10, 12)),
                             with_randomisation=sum(1 for _, m in traces if m["ndraws"] > 0),
                             onexit=sum(1 for _, m in traces if m["path"] == "onexit"),
                             onfail=sum(1 for _, m in traces if m["path"] == "onfail"))
        for tr, m in traces:
            if m["ndraws"] > 0 and m["path"] == "onexit" and m["kind"] == "and":
                ck.sample({"trace": tr, "members": m["tables"], "vectors": m["vectors"]})
                break
    if "couplers" in parts:
        if tl is None:
            tl = coupler_tables(a)
        used = replay_couplers(ck, cp, mp, tl, legacy=legacy, mc=mc)
        out["couplers"] = {"spellings": dict(sorted(used.items())), "emitted": {f: len(tl[f].printed) for f in COUPLER_FAMS}}
        if not legacy:
            thin = {k: v for k, v in used.items() if v < MIN_PER_SPELLING}
            if thin:
                raise RuntimeError("spelling rotation of the coupler cases is too thin: %s" % thin)
    ck.extra["c17"] = out
    ck.assumptions = [
        "members are deterministic total functions (no exceptions; DESIGN 7/F5 behaviour is only recorded under coverage.c17.observations)",
        "vectors are compared as python lists of floats; -0.0 and 0.0 are the same value",
        "the randomisation may yield any value: the model lets it produce every value of the domain, the recorded "
        "runs use scripted draws with randint in {-1,0,1} and random() in [0,1) only",
        "penalty members are non-negative (and_/or_ zero-set claims) and penalties are at iteration 0 (pk = k)",
        "not_ of an equality-type penalty: 'interior of the accepted region' is read as the accepted region {g = 0} itself",
        "trace validation accepts a run explained by the as-is OR the demanded success rule (so a repaired and_ is not "
        "rejected); the claims are evaluated on the returned vector in either case",
        "spellings (H17): every recorded run is written in a rotating spelling -- value set of the three abstract domain values "
        "({0,1,2}, {-1,0,1}, {0,.5,1}, {0,5e-324,1e-9}, {1e10,1e10+1e-5,1e300}, {0.123456789..}), input vector as list of floats / "
        "ints / numpy scalars, float64 / int64 / float32 array (not_: lists only, `c(x) != x` is elementwise on arrays), member "
        "results as lists (floats, ints, -0.0 for 0, numpy scalars) or arrays, maxiter as int / numpy int / omitted, onexit/onfail "
        "both, omitted, None or only one of them.  Not in the domain: tuples as vectors (list == tuple is False in python; the "
        "code base passes lists and arrays), lists of float32 scalars (numpy compares them in single precision)",
        "couplers (H17): table entries, indices and extra arguments are written as python int / float, numpy scalars, one-element "
        "lists and arrays (arrays owned by the table function: the couplers must not write into them); decorator arguments as "
        "args=(d,) / args=[d] / kwds={'a': d} / omitted / None / empty; call arguments positional / keyword / omitted; the coupler "
        "function positional / by name / omitted (identity, 0.0).  Values in units 2^u (u = -1074, -30, 0, 33, 1000) are exact "
        "in binary floating point: sums scale with the unit, PT(t,k,.) with 2^(u*Deg(t)) (Deg from the specification; int64 "
        "member values only where their square fits).  or_() of no penalty (ValueError: min of nothing) is outside the domain"]
    return out


# =========================================================================================
# self-test: in-memory mutants of mystic that the check must catch
# =========================================================================================
def _loop_and(win):
    """mystic.constraints.and_ re-typed with a parameterised success test (mutants + the proposed repair)"""
    def and_(*constraints, **settings):
        import itertools as it
        import random as rnd
        n = len(constraints)
        maxiter = settings.pop('maxiter', 100) * n
        onexit = settings.pop('onexit', None)
        onfail = settings.pop('onfail', None)

        def _constraint(x):
            x = [x.tolist() if hasattr(x, 'tolist') else x[:]]
            same = 0
            for c in constraints:
                ci = c(x[-1][:])
                x.append(ci.tolist() if hasattr(ci, 'tolist') else ci)
                same = same + 1 if x[-1] == x[-2] else 0
            if win(x, n, same, True):
                return x[-1] if onexit is None else onexit(x[-1][:])
            _constraints = it.cycle(constraints)
            for j in range(n, maxiter):
                ci = next(_constraints)(x[-1][:])
                x.append(ci.tolist() if hasattr(ci, 'tolist') else ci)
                same = same + 1 if x[-1] == x[-2] else 0
                if win(x, n, same, False):
                    return x[-1] if onexit is None else onexit(x[-1][:])
                if x[-1] == x[-(n + 1)] and win is not _win_norandom:
                    x[-1] = [(i + rnd.randint(-1, 1)) * rnd.random() for i in x[-1]]
                    same = 0
                if not j % (2 * n):
                    del x[:n]
            if win is _win_failexit:
                return onexit(x[-1][:]) if onexit is not None else x[-1]
            return x[-1] if onfail is None else onfail(x[-1][:])
        return lambda x: _constraint(x)
    return and_


def _cur_and(mode):
    """mystic.constraints.and_ as it is now (n consecutive applications that change nothing), re-typed with one defect that
    only shows for particular spellings / boundary values of the input (H17)"""
    def and_(*constraints, **settings):
        import itertools as it
        import random as rnd
        import numpy
        n = len(constraints)
        maxiter = settings.pop('maxiter', 100) * n
        onexit = settings.pop('onexit', None)
        onfail = settings.pop('onfail', None)

        def eq(p, q):
            if mode == "tol":                           # "almost equal" instead of equal
                return len(p) == len(q) and all(abs(u - v) <= 1e-8 * max(1.0, abs(u)) for u, v in zip(p, q))
            if mode == "text":                          # compares what would be printed
                return str(p) == str(q)
            return p == q

        def _constraint(x):
            given = x
            x = [x.tolist() if hasattr(x, 'tolist') else x[:]]

            def conv(ci):
                ci = ci.tolist() if hasattr(ci, 'tolist') else ci
                if mode == "intdtype":                  # the working copy inherits the dtype of the vector as given
                    w = numpy.array(given)
                    w[:] = ci
                    return w.tolist()
                return ci
            same = 0
            for c in constraints:
                x.append(conv(c(x[-1][:])))
                same = same + 1 if eq(x[-1], x[-2]) else 0
            if same >= n and (n > 0 or mode != "nomember"):
                return x[-1] if onexit is None else onexit(x[-1][:])
            _constraints = it.cycle(constraints)
            for j in range(n, maxiter):
                x.append(conv(next(_constraints)(x[-1][:])))
                same = same + 1 if eq(x[-1], x[-2]) else 0
                if same >= n:
                    return x[-1] if onexit is None else onexit(x[-1][:])
                if x[-1] == x[-(n + 1)]:
                    x[-1] = [(i + rnd.randint(-1, 1)) * rnd.random() for i in x[-1]]
                    same = 0
                if not j % (2 * n):
                    del x[:n]
            return x[-1] if onfail is None else onfail(x[-1][:])
        return lambda x: _constraint(x)
    return and_


def _win_asis(x, n, same, first):
    return all(xi == x[-1] for xi in (x[1:] if first else x[-n:]))


def _win_nminus1(x, n, same, first):
    m = max(n - 1, 1)
    return all(xi == x[-1] for xi in (x[-m:]))


def _win_fixed(x, n, same, first):
    return same >= n


def _win_norandom(x, n, same, first):
    return _win_asis(x, n, same, first)


def _win_failexit(x, n, same, first):
    return _win_asis(x, n, same, first)


def _mut_or(failexit):
    def or_(*constraints, **settings):
        import itertools as it
        import random as rnd
        n = len(constraints)
        maxiter = settings.pop('maxiter', 100) * n
        onexit = settings.pop('onexit', None)
        onfail = settings.pop('onfail', None)

        def _constraint(x):
            x = [x.tolist() if hasattr(x, 'tolist') else x[:]]
            for c in constraints:
                ci = c(x[0][:])
                x.append(ci.tolist() if hasattr(ci, 'tolist') else ci)
                if x[-1] == x[0]:
                    return x[-1] if onexit is None else onexit(x[-1][:])
            _constraints = it.cycle(constraints)
            for j in range(n, maxiter):
                ci = next(_constraints)(x[-n][:])
                x.append(ci.tolist() if hasattr(ci, 'tolist') else ci)
                if x[-1] == x[-(n + 1)]:
                    return x[-1] if onexit is None else onexit(x[-1][:])
                else:
                    x[-1] = x[-rnd.randint(1, n)]
                if not j % (2 * n):
                    del x[:n]
            if failexit:
                return x[-1] if onexit is None else onexit(x[-1][:])
            return x[-1] if onfail is None else onfail(x[-1][:])
        return lambda x: _constraint(x)
    return or_


def _mut_not(constraint, **settings):
    import random as rnd
    maxiter = settings.pop('maxiter', 100)
    onexit = settings.pop('onexit', None)
    onfail = settings.pop('onfail', None)

    def _constraint(x):
        for j in range(0, maxiter):
            if constraint(x[:]) == x:                 # inverted
                return x[:] if onexit is None else onexit(x[:])
            x = [(i + rnd.randint(-1, 1)) * rnd.random() for i in x]
        return x[:] if onfail is None else onfail(x[:])
    return lambda x: _constraint(x)


def selftest(a, mc, cp, mp):
    import io
    a.tier = "quick"
    tl = coupler_tables(a)
    orig = {"mc": {k: getattr(mc, k) for k in ("and_", "or_", "not_")},
            "cp": {k: getattr(cp, k) for k in ("additive", "inner", "outer", "and_", "or_", "not_")}}

    def restore():
        for k, v in orig["mc"].items():
            setattr(mc, k, v)
        for k, v in orig["cp"].items():
            setattr(cp, k, v)

    def additive_sub(penalty=lambda x: 0.0, args=None, kwds=None):
        args = () if args is None else args
        kwds = {} if kwds is None else kwds
        def dec(f):
            def func(x, *argz, **kwdz):
                return f(x, *argz, **kwdz) - penalty(x, *args, **kwds)
            return func
        return dec

    def inner_swapped(inner=lambda x: x, args=None, kwds=None):
        args = () if args is None else args
        kwds = {} if kwds is None else kwds
        def dec(f):
            def func(x, *argz, **kwdz):
                return inner(f(x, *argz, **kwdz), *args, **kwds)
            return func
        return dec

    def pen_and_min(*penalties, **settings):
        k = settings.setdefault('k', 1)
        ptype = settings.pop('ptype', None) or mp.linear_equality
        penalty = lambda x: min(p(x) for p in penalties)
        return ptype(penalty, **settings)(lambda x: 0.)

    def pen_not_noflip(penalty, **settings):
        k = settings.setdefault('k', 1)
        ptype = settings.pop('ptype', None) or getattr(mp, getattr(penalty, 'ptype', 'linear_equality'))
        condition = getattr(penalty, 'func', penalty)
        if ptype.__name__.endswith('_inequality'):
            _penalty = lambda x: condition(x)            # sign not flipped
        else:
            _penalty = lambda x: not condition(x)
        return ptype(_penalty, **settings)(lambda x: 0.)

    def inner_nokw(inner=lambda x: x, args=None, kwds=None):
        args = () if args is None else args
        kwds = {} if kwds is None else kwds
        def dec(f):
            def func(x, *argz, **kwdz):
                return f(inner(x, *args, **kwds), *argz)             # keyword arguments of the call are dropped
            return func
        return dec

    def outer_nokwds(outer=lambda x: x, args=None, kwds=None):
        args = () if args is None else args
        def dec(f):
            def func(x, *argz, **kwdz):
                return outer(f(x, *argz, **kwdz), *args)             # kwds= of the decorator is ignored
            return func
        return dec

    def outer_zero_default(outer=None, args=None, kwds=None):
        args = () if args is None else args
        kwds = {} if kwds is None else kwds
        def dec(f):
            def func(x, *argz, **kwdz):
                y = f(x, *argz, **kwdz)
                return outer(y, *args, **kwds) if outer else (y or None)    # no function given: a legal 0 counts as missing
            return func
        return dec

    def additive_inplace(penalty=lambda x: 0.0, args=None, kwds=None):
        args = () if args is None else args
        kwds = {} if kwds is None else kwds
        def dec(f):
            def func(x, *argz, **kwdz):
                r = f(x, *argz, **kwdz)
                r += penalty(x, *args, **kwds)                        # accumulates into what f returned
                return r
            return func
        return dec

    def pen_and_noh(*penalties, **settings):
        settings.pop('h', None)                                      # the iterative multiplier is not handed on
        return orig["cp"]["and_"](*penalties, **settings)

    def pen_or_single_digit(*penalties, **settings):
        return orig["cp"]["or_"](*penalties[:9], **settings)         # only the first nine penalties take part

    def pen_not_int(penalty, **settings):
        k = settings.setdefault('k', 1)
        if k is None:
            del settings['k']
        ptype = settings.pop('ptype', None) or getattr(mp, getattr(penalty, 'ptype', 'linear_equality'))
        condition = getattr(penalty, 'func', penalty)
        if ptype.__name__.endswith('_inequality'):
            _penalty = lambda x: int(0 - condition(x))               # the flipped condition as an integer
        else:
            _penalty = lambda x: not condition(x)
        return ptype(_penalty, **settings)(lambda x: 0.)

    # H17: defects that only particular spellings / boundary values of the inputs expose; each is also run against the
    # one-spelling enumeration the check had before (legacy=True), which is expected to miss it
    spelled = [
        ("and_ keeps the integer dtype of the vector it was given", "traces:and", lambda: setattr(mc, "and_", _cur_and("intdtype"))),
        ("and_ compares iterates with a tolerance of 1e-8", "traces:and", lambda: setattr(mc, "and_", _cur_and("tol"))),
        ("and_ compares the printed form of the iterates", "traces:and", lambda: setattr(mc, "and_", _cur_and("text"))),
        ("and_ of no member takes the failure path", "traces:and", lambda: setattr(mc, "and_", _cur_and("nomember"))),
        ("inner drops keyword arguments of the call", "couplers", lambda: setattr(cp, "inner", inner_nokw)),
        ("outer ignores kwds= of the decorator", "couplers", lambda: setattr(cp, "outer", outer_nokwds)),
        ("outer without a function returns `y or None`", "couplers", lambda: setattr(cp, "outer", outer_zero_default)),
        ("additive accumulates in place into the value f returned", "couplers", lambda: setattr(cp, "additive", additive_inplace)),
        ("penalty and_ does not hand on h", "couplers", lambda: setattr(cp, "and_", pen_and_noh)),
        ("penalty or_ looks at the first nine penalties only", "couplers", lambda: setattr(cp, "or_", pen_or_single_digit)),
        ("penalty not_ truncates the flipped condition to an integer", "couplers", lambda: setattr(cp, "not_", pen_not_int)),
    ]
    mutants = [
        ("and_ success test on n-1 iterates", "traces:and", lambda: setattr(mc, "and_", _loop_and(_win_nminus1))),
        ("and_ reports onexit when the cap is exhausted", "traces:and", lambda: setattr(mc, "and_", _loop_and(_win_failexit))),
        ("and_ never randomises on a detected cycle", "traces:and", lambda: setattr(mc, "and_", _loop_and(_win_norandom))),
        ("or_ returns via onexit on the failure path", "traces:or", lambda: setattr(mc, "or_", _mut_or(True))),
        ("not_ comparison inverted", "traces:not", lambda: setattr(mc, "not_", _mut_not)),
        ("additive subtracts", "couplers", lambda: setattr(cp, "additive", additive_sub)),
        ("inner applies f before c", "couplers", lambda: setattr(cp, "inner", inner_swapped)),
        ("penalty and_ uses min instead of the sum", "couplers", lambda: setattr(cp, "and_", pen_and_min)),
        ("penalty not_ does not flip an inequality", "couplers", lambda: setattr(cp, "not_", pen_not_noflip)),
    ]
    missed = 0
    scratch = scratch_dir()

    def fresh():
        ck = new_check(a)
        ck.outdir = scratch                      # self-test artefacts are not replay artefacts
        ck._known = []                           # known findings do not mask mutants
        return ck

    def baseline_keys():
        ck = fresh()
        with contextlib.redirect_stdout(io.StringIO()):
            explore(ck, mc, cp, mp, a, tl=tl, light=True, parts=("traces", "couplers"))
        return set(ck.viol_keys)
    def run_mutant(apply_, part, legacy=False):
        apply_()
        ck = fresh()
        try:
            with contextlib.redirect_stdout(io.StringIO()):
                explore(ck, mc, cp, mp, a, tl=tl, light=True, parts=(part.split(":")[0],),
                        only_kind=part.split(":")[1] if ":" in part else None, legacy=legacy)
        except Exception as ex:
            ck.viol_keys["mutant raised %r" % ex] = 1
        finally:
            restore()
        return sorted(set(ck.viol_keys) - base)
    try:
        base = baseline_keys()                   # what the unchanged tree reports (genuine findings)
        for name, part, apply_ in mutants:
            new = run_mutant(apply_, part)
            print("SELFTEST %s: %s (%s)" % (name, "caught" if new else "MISSED", ", ".join(new[:3]) or "no new violation class"))
            missed += 0 if new else 1
        for name, part, apply_ in spelled:
            new = run_mutant(apply_, part)
            old_ = run_mutant(apply_, part, legacy=True)
            print("SELFTEST [spellings] %s: %s (%s; the one-spelling enumeration before H17: %s)" % (
                name, "caught" if new else "MISSED", ", ".join(new[:3]) or "no new violation class", "caught as well" if old_ else "missed"))
            missed += 0 if new else 1
        for what, key in (("dflt", "coupler:inner-default"), ("addv", "coupler:additive-values")):
            ck = fresh()
            with contextlib.redirect_stdout(io.StringIO()):
                replay_couplers(ck, cp, mp, tl, corrupt=what, mc=mc)
            new = sorted(set(ck.viol_keys) - base)
            print("SELFTEST corrupted TLC expected table (%s): %s (%s)" % (what, "caught" if key in new else "MISSED", ", ".join(new[:3])))
            missed += 0 if key in new else 1
        # a corrupted expected value from TLC
        ck = fresh()
        with contextlib.redirect_stdout(io.StringIO()):
            replay_couplers(ck, cp, mp, tl, corrupt=True)
        new = sorted(set(ck.viol_keys) - base)
        print("SELFTEST corrupted TLC expected table (inner): %s (%s)" % ("caught" if new else "MISSED", ", ".join(new[:3])))
        missed += 0 if new else 1
        # a corrupted field of an otherwise valid recorded trace
        ck = fresh()
        with contextlib.redirect_stdout(io.StringIO()):
            scen = scenarios(a)[:400]
            traces = record_all(mc, a, ck, scen)
            victim = next(i for i, (t, m) in enumerate(traces) if len(t["ev"]) >= 4 and t["ev"][1]["t"] == "call")
            t, m = traces[victim]
            t = json.loads(json.dumps(t))
            t["ev"][1]["a"] = t["ev"][1]["a"] % len(t["tab"][0]) + 1
            traces[victim] = (t, m)
            before = set(ck.viol_keys)
            validate(ck, traces, a)
        new = sorted(k for k in set(ck.viol_keys) - before if "not-a-run" in k)
        print("SELFTEST corrupted input field of one recorded member call: %s (%s)" % ("caught" if new else "MISSED", ", ".join(new[:3])))
        missed += 0 if new else 1
        # positive control: the proposed repair of and_ (n consecutive no-change applications) is clean
        mc.and_ = _loop_and(_win_fixed)
        ck = fresh()
        try:
            with contextlib.redirect_stdout(io.StringIO()):
                explore(ck, mc, cp, mp, a, tl=tl, light=True, parts=("design", "traces"))
        finally:
            restore()
        st = ck.extra["c17"]
        print("SELFTEST control, proposed repair of and_ applied in memory: %s (violation classes %s; traces explained only by the "
              "demanded rule: %d; as-is wrong-success runs reproduced: %d)" % (
                  "clean" if not ck.viol_keys else "NOT CLEAN", sorted(ck.viol_keys), st["traces"]["fixed_only"],
                  st["as_is_wrong_success_runs"]["reproduced"]))
        missed += 0 if not ck.viol_keys else 1
    finally:
        restore()
        shutil.rmtree(scratch, ignore_errors=True)
    return 1 if missed else 0


def replay_artefact(a, mc):
    """bin/check C17 --replay out/C17/replay_x.json : re-run the recorded combinator case on the current tree"""
    art = json.load(open(a.replay))
    d = art["detail"]
    print("key:", art["key"]); print(art.get("what", ""))
    if "members" in d:            # a TLC counter-example of the as-is design
        kind, tabs, mi, x0, tg, dim = "and", d["members"], d["maxiter"], d["x0"], d["draws"] or [OFF], 1
    elif "tables" in d:
        kind, tabs, mi, x0, tg, dim = d["kind"], d["tables"], d["maxiter"], d["x0"], d["targets"], d["dim"]
    else:
        print("table case, expected %s got %s" % (d.get("expected"), d.get("got")))
        return 0
    lat = Lattice(d.get("latvals", (0, 1, 2)), dim)
    fl = d.get("flags") or {}
    sp = fl.get("spelling")
    if sp:
        sp = dict(sp, ret=list(sp["ret"]) or ["list_float"])
        print("spelling:", sp, "in-place members:", fl.get("inplace"), "warm-up call on:", fl.get("warm"))
    run, res = execute(mc, lat, kind, tabs, mi, tuple(float(v) for v in x0), tg, True, fl.get("as_array", False),
                       fl.get("ret_array", False), fl.get("inplace", False), fl.get("warm"), sp=sp)
    for e in run.ev:
        print("  ", e["t"], e["i"], run.vecs[e["a"] - 1] if e["t"] != "draw" or kind != "or" else e["a"],
              run.vecs[e["b"] - 1] if e["t"] == "call" else "")
    path = getattr(res, "path", None)
    print("returned %r through %s" % (list(res) if isinstance(res, list) else res, path))
    if path == "onexit":
        p = lat.snap(res) if tuple(res) in lat.index else None
        ch = [i + 1 for i, t in enumerate(tabs) if p is None or t[p] != p]
        ok = {"and": not ch, "or": len(ch) < len(tabs), "not": bool(ch)}[kind]
        print("claim of %s_ on the returned vector: %s (members changing it: %s)" % (kind, "holds" if ok else "VIOLATED", ch))
        return 0 if ok else 1
    return 0


def main():
    a = tier_seed()
    assert_repo()
    import mystic.constraints as mc
    import mystic.coupler as cp
    import mystic.penalty as mp
    if a.selftest:
        from harness.c17_bridges import selftest_bridges
        rc = selftest(a, mc, cp, mp)
        return selftest_bridges(a) or rc
    if a.replay:
        return replay_artefact(a, mc)
    ck = new_check(a)
    out = explore(ck, mc, cp, mp, a)
    out["observations"] = observations(mc)
    from harness.c17_bridges import bridges_part      # with_penalty .. has_unique: specs/cons/Bridges.tla
    bridges_part(ck, a)
    return ck.finish()


if __name__ == "__main__":
    main_guard(main)
