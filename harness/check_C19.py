"""C19 -- discrete measures: parameter-vector round trips and product structure.

spec -> code: TLC model-checks specs/math/Measures.tla (a state machine over product measures /
scenarios: Load, Append, Update, SetWeight, SetPosition, SetCenterMass, SetRange, SetVar) for every
shape with <= 3 factors x 1..3 points, checks the design invariants / action properties, and emits
every reachable state with every observable the specification defines for it (weights, positions,
mass, flatten vector, nested lists, expect / expect_var / pof per catalogue function, support masks,
factor statistics) and every enabled action with its successor state.

The harness rebuilds each state from raw point_mass / measure / product_measure / scenario objects,
compares every observable with the value TLC printed, and replays every transition on fresh real
objects (update(vector), load(vector, pts), weight / position assignment through the measure- and
product-level setters, the center_mass / range / var setters) comparing the successor.

Second spelling (specs/math/MeasureUnits.tla, harness/c19_spell.py): the instances are those of MC_MeasureUnits --
the same machine plus center_mass = 0, loads that carry no / one value, the LONG shapes (10..12 points per factor, 4..6
factors, tolerances at the product weights 2, 4, 8, position 0 written) and, per loaded state, the off-lattice calls
(a weight / vector entry raised by 1/2, center_mass + k/2).  TLC checks the law of units (every observable is homogeneous
in the weights / positions / values, every action commutes with a change of unit) and prints the catalogue of dyadic
units, the units admissible for d factors, the degree of every observable and the slot kinds of every shape.  Every
state, transition and off-lattice call (quick tier: every second state; in the two-edit instance every third state and
every second transition -- SPELL_STRIDE) is then replayed ONCE MORE in a spelling chosen by a deterministic rotation: unit 2^-1000 .. 2^1000, python int / numpy.int64 / numpy.float64 / numpy.float32 scalars, -0.0,
tuples / numpy arrays, pts as tuple / array / numpy ints, keywords, negative / numpy indices, other constructors
(generators, compose, load, unflatten, scenario(pm, values) / keywords / load, values None / omitted), test functions
returning numpy scalars / the documented bool, support(tol=...) / default, the weight / position / centre of mass written
through the point mass, the measure or the product measure; after every call the arguments must be unmodified.  All jobs
(these partitions and the growth jobs of c19_growth) run in one pool.

Expected values come out of TLC only; Python converts (int -> float, <<num,den>> -> num/den, model integer -> unit by
ldexp with TLC's degree) and compares.  Comparisons are exact (==) on floats for everything that is integer or a single division;
the only tolerance is 1e-9*max(1,|expected|) for expect_var / var and for the three setters' achieved
value (their arithmetic rounds).
"""
import sys, os, math, itertools, json, time, hashlib
import multiprocessing as mp
from harness.core import Check, tier_seed, assert_repo, main_guard, jsonable
from harness.tlc import run_tlc

TOL = 1e-9
# (cfg, only shapes with <= this many factors): quick = one edit from 258 loaded measures of all 39 shapes + two edits on
# the shapes with <= 2 factors; thorough = one edit from 1194 loaded measures + two edits on all shapes
# the instances are those of MC_MeasureUnits (= MC_Measures + catalogue of units, law of units, center_mass = 0); LONG adds the
# shapes with two-digit point counts / four to six factors and the loads without / with one value (2 resp. 4 partitions)
CFG = {"quick": [("MC_MeasureUnits_quick.cfg", 3), ("MC_MeasureUnits_deep.cfg", 2)],
       "thorough": [("MC_MeasureUnits_thorough.cfg", 3), ("MC_MeasureUnits_deep.cfg", 3)]}
LONG = "MC_MeasureUnits_long.cfg"
LONG_PARTS = {"quick": 1, "thorough": 4}
# (every n-th state, every n-th transition) replayed in a second spelling: (one-edit instance, deep instance); the LONG instance
# and the off-lattice calls always completely
SPELL_STRIDE = {"quick": ((2, 1), (3, 2)), "thorough": ((1, 1), (1, 1))}

D = None      # mystic.math.discrete
M = None      # mystic.math.measures
C = None      # mystic.constraints
_CAT = {}


def load_mystic():
    global D, M, C
    assert_repo()
    import warnings
    warnings.simplefilter("ignore")
    import mystic.math.discrete as d, mystic.math.measures as m, mystic.constraints as c
    D, M, C = d, m, c


# ------------------------------------------------------------------------------ conversion helpers
def fl(seq):
    return [float(v) for v in seq]


def fl2(nested):
    return [[float(v) for v in row] for row in nested]


def tup(points):
    return [tuple(float(v) for v in p) for p in points]


def rat(r):
    """<<num, den>> from the spec -> float; <<0,0>> (undefined) -> None"""
    return None if r[1] == 0 else r[0] / r[1]


def close(got, exp):
    got = float(got)
    return got == exp or abs(got - exp) <= TOL * max(1.0, abs(exp))


def pyfunc(f):
    """a catalogue record of the spec (EvalF) as the python callable handed to mystic"""
    k, c = f["k"], f["c"]
    if k == "first":
        return lambda x: x[0] - c
    if k == "last":
        return lambda x: x[-1] - c
    if k == "sum":
        return lambda x: sum(x) - c
    if k == "lin":
        return lambda x: sum((i + 1) * v for i, v in enumerate(x)) - c
    if k == "prod":
        return lambda x: x[0] * x[-1] - c
    if k == "const":
        return lambda x: c
    if k == "val":
        return lambda y: y - c
    raise ValueError(k)


def build_pm(ws, xs):
    """the state as real objects, from the most primitive constructors only"""
    return D.product_measure([D.measure([D.point_mass(float(x), float(w)) for x, w in zip(xr, wr)])
                              for xr, wr in zip(xs, ws)])


def build_scen(ws, xs, vals):
    s = D.scenario()
    s[:] = list(build_pm(ws, xs))
    s.values = fl(vals)
    return s


# ------------------------------------------------------------------------------ the replay
class Replay(object):
    """replays the states / transitions of one TLC run; collects cases and violations"""

    def __init__(self):
        self.cases = 0
        self.nontrivial = set()
        self.traces = 0
        self.undefined = 0
        self.viol = {}          # key -> [count, first detail, first what]
        self.witness_match = 0
        self.witness_other = 0
        self.by_action = {}
        self.by_kind = {"states_unequal_factor_sizes": 0, "states_with_zero_weight": 0, "states_zero_total_mass": 0,
                        "states_single_point_factor": 0, "states_tied_positions": 0}

    def violation(self, key, detail, what):
        v = self.viol.setdefault(key, [0, detail, what])
        v[0] += 1

    def expect_eq(self, key, what, got_fn, exp, ctx, conv=None):
        """one compared observable; a raise is reported under its own key"""
        try:
            got = got_fn()
            got = conv(got) if conv else got
        except Exception as ex:
            self.violation("%s:raises-%s" % (key, type(ex).__name__), dict(ctx, what=what, error=repr(ex)),
                           "%s raised %r on %s" % (what, ex, brief(ctx)))
            return False
        if got != exp:
            self.violation(key, dict(ctx, what=what, expected=exp, got=got),
                           "%s: spec %s, mystic %s on %s" % (what, short(exp), short(got), brief(ctx)))
            return False
        return True

    def expect_close(self, key, what, got_fn, exp, ctx, exact=False):
        try:
            got = float(got_fn())
        except Exception as ex:
            self.violation("%s:raises-%s" % (key, type(ex).__name__), dict(ctx, what=what, error=repr(ex)),
                           "%s raised %r on %s" % (what, ex, brief(ctx)))
            return False
        ok = (got == exp) if exact else close(got, exp)
        if not ok:
            self.violation(key, dict(ctx, what=what, expected=exp, got=got),
                           "%s: spec %r, mystic %r on %s" % (what, exp, got, brief(ctx)))
        return ok

    # ---------------------------------------------------------------- one state
    def state(self, o):
        ws, xs, shape, flat, vals = o["ws"], o["xs"], o["shape"], fl(o["flat"]), fl(o["vals"])
        ctx = {"state": {"shape": shape, "ws": ws, "xs": xs, "vals": o["vals"]}}
        fws, fxs = fl2(ws), fl2(xs)
        pos, wts = tup(o["pos"]), fl(o["wts"])
        total = float(o["total"])
        c = build_pm(ws, xs)
        s = build_scen(ws, xs, vals)
        E = self.expect_eq
        # structure and the parameter vector
        E("structure:pts", "product_measure.pts", lambda: list(c.pts), shape, ctx)
        E("structure:wts", "product_measure.wts", lambda: fl2(c.wts), fws, ctx)
        E("structure:pos", "product_measure.pos", lambda: fl2(c.pos), fxs, ctx)
        E("flatten:layout", "product_measure.flatten()", lambda: fl(c.flatten()), flat, ctx)
        E("flatten:layout", "discrete.flatten(c)", lambda: fl(D.flatten(c)), flat, ctx)
        E("flatten:scenario", "scenario.flatten()", lambda: fl(s.flatten()), flat + vals, ctx)
        E("flatten:scenario", "scenario.flatten(all=False)", lambda: fl(s.flatten(all=False)), flat, ctx)
        E("scenario:values", "scenario.values", lambda: fl(s.values), vals, ctx)
        # product structure
        E("weights:product", "product_measure.weights", lambda: fl(c.weights), wts, ctx)
        E("positions:pack-order", "product_measure.positions", lambda: tup(c.positions), pos, ctx)
        E("weights:product", "scenario.weights", lambda: fl(s.weights), wts, ctx)
        E("positions:pack-order", "scenario.positions", lambda: tup(s.positions), pos, ctx)
        E("structure:npts", "product_measure.npts", lambda: int(c.npts), o["npts"], ctx)
        E("mass:factor", "product_measure.mass", lambda: fl(c.mass), fl(o["mass"]), ctx)
        E("mass:total", "sum(product_measure.weights)", lambda: float(sum(c.weights)), total, ctx)
        E("mass:total=product-of-masses", "prod(product_measure.mass)", lambda: float(math.prod(c.mass)), total, ctx)
        # round trips: vector -> measure with the same shape
        def same(tag, obj_fn, with_vals=False):
            try:
                p = obj_fn()
                got = (list(p.pts), fl2(p.wts), fl2(p.pos), fl(p.flatten()), fl(p.weights), tup(p.positions))
            except Exception as ex:
                self.violation("roundtrip:%s:raises-%s" % (tag, type(ex).__name__), dict(ctx, error=repr(ex)),
                               "%s raised %r on %s" % (tag, ex, brief(ctx)))
                return
            exp = (shape, fws, fxs, (flat + vals) if with_vals else flat, wts, pos)
            if got != exp:
                self.violation("roundtrip:" + tag, dict(ctx, expected=exp, got=got),
                               "%s of the flattened measure is not the measure: pts/wts/pos/flatten %s, expected %s on %s"
                               % (tag, short(got[:4]), short(exp[:4]), brief(ctx)))
        same("load", lambda: D.product_measure().load(c.flatten(), c.pts))
        same("load", lambda: D.product_measure().load(c.flatten(), tuple(c.pts)))
        same("unflatten", lambda: D.unflatten(c.flatten(), c.pts))
        same("scenario-load", lambda: D.scenario().load(s.flatten(), s.pts), True)
        same("scenario-ctor", lambda: D.scenario(c, fl(vals)), True)
        same("update-identity", lambda: build_pm(ws, xs).update(c.flatten()))
        same("update-identity", lambda: build_scen(ws, xs, vals).update(s.flatten()), True)
        same("compose-decompose", lambda: D.compose(*D.decompose(c)))
        same("compose", lambda: D.compose(fxs, fws))
        E("roundtrip:impose_measure", "impose_measure(pts)(identity)(flatten)",
          lambda: fl(C.impose_measure(tuple(shape))(lambda x: x)(list(flat))), flat, ctx)
        E("decompose", "decompose(c)", lambda: (lambda xw: (fl2(xw[0]), fl2(xw[1])))(D.decompose(c)), (fxs, fws), ctx)
        # pack / unpack and the nested <-> flat helpers
        E("pack:order", "_pack(c.pos)", lambda: tup(M._pack(fxs)), pos, ctx)
        E("unpack", "_unpack(positions, pts)", lambda: fl2(M._unpack(pos, shape)), fxs, ctx)
        E("unpack", "_unpack(positions, tuple(pts))", lambda: fl2(M._unpack(pos, tuple(shape))), fxs, ctx)
        E("roundtrip:pack-unpack", "_unpack(_pack(x), pts)", lambda: fl2(M._unpack(M._pack(fxs), shape)), fxs, ctx)
        E("roundtrip:pack-unpack", "_pack(_unpack(p, pts))", lambda: tup(M._pack(M._unpack(pos, shape))), pos, ctx)
        E("nested_split", "_nested_split(flatten, pts)",
          lambda: (lambda wx: (fl2(wx[0]), fl2(wx[1])))(M._nested_split(flat, shape)), (fws, fxs), ctx)
        E("nested_split", "_nested(_flat(x), pts)", lambda: fl2(M._nested(M._flat(fxs), shape)), fxs, ctx)
        # statistics as explicit sums over the weighted product points
        for f, pf, r in zip(_CAT["funcs"], _CAT["pyfuncs"], o["fn"]):
            fctx = dict(ctx, function=f)
            e, v = rat(r["e"]), rat(r["v"])
            if e is None:
                self.undefined += 1
            else:
                self.expect_close("expect:explicit-sum", "expect(%s)" % fname(f), lambda: c.expect(pf), e, fctx, exact=True)
                self.expect_close("expect_var:explicit-sum", "expect_var(%s)" % fname(f), lambda: c.expect_var(pf), v, fctx)
            self.expect_close("pof:explicit-sum", "pof(%s)" % fname(f), lambda: c.pof(pf), float(r["pof"]), fctx, exact=True)
        for tol, mask in zip(_CAT["tols"], o["supp"]):
            tctx = dict(ctx, tol=tol)
            E("support:explicit", "support(%s)" % tol, lambda: tup(c.support(tol)),
              [p for p, b in zip(pos, mask) if b], tctx)
            E("support_index:explicit", "support_index(%s)" % tol, lambda: [int(i) for i in c.support_index(tol)],
              [i for i, b in enumerate(mask) if b], tctx)
        # the factor measures
        for m, fac in enumerate(o["fac"]):
            mctx = dict(ctx, factor=m)
            E("measure:mass", "measure.mass", lambda: float(c[m].mass), float(fac["mass"]), mctx)
            E("measure:range", "measure.range", lambda: float(c[m].range), float(fac["rng"]), mctx)
            cm, var = rat(fac["cm"]), rat(fac["var"])
            if cm is None:
                self.undefined += 1
            else:
                self.expect_close("measure:center_mass", "measure.center_mass", lambda: c[m].center_mass, cm, mctx, exact=True)
                self.expect_close("measure:var", "measure.var", lambda: c[m].var, var, mctx)
                self.expect_close("measure:center_mass", "product_measure.center_mass[m]", lambda: c.center_mass[m], cm, mctx, exact=True)
        # the scenario's values
        if o["vfn"]:
            for g, pg, r in zip(_CAT["vfuncs"], _CAT["pyvfuncs"], o["vfn"]):
                self.expect_close("scenario:pof_value", "pof_value(y-%s)" % g["c"], lambda: s.pof_value(pg), float(r["pof"]),
                                  dict(ctx, function=g), exact=True)
            vm = rat(o["vmean"])
            if vm is None:
                self.undefined += 1
            else:
                self.expect_close("scenario:mean_value", "mean_value()", lambda: s.mean_value(), vm, ctx, exact=True)
        nontriv = len(shape) > 1 or any(w == 0 for row in ws for w in row)
        bk = self.by_kind
        bk["states_unequal_factor_sizes"] += len(set(shape)) > 1
        bk["states_with_zero_weight"] += any(w == 0 for row in ws for w in row)
        bk["states_zero_total_mass"] += o["total"] == 0
        bk["states_single_point_factor"] += 1 in shape
        bk["states_tied_positions"] += any(len(set(row)) < len(row) for row in xs)
        self.cases += 1
        if nontriv:
            self.nontrivial.add(digest(("s", shape, o["flat"], o["vals"])))

    # ---------------------------------------------------------------- one transition
    def transition(self, o, t, index):
        a = t["act"]
        op = a["op"]
        if o is None:
            ws, xs, vals, shape = [], [], [], []
        else:
            ws, xs, vals, shape = o["ws"], o["xs"], o["vals"], o["shape"]
        ctx = {"state": {"shape": shape, "ws": ws, "xs": xs, "vals": vals}, "action": a,
               "expected": {"shape": t["shape"], "flat": t["flat"], "vals": t["vals"]}}
        exp_flat, exp_vals = fl(t["flat"]), fl(t["vals"])
        c = build_pm(ws, xs)
        s = build_scen(ws, xs, vals)
        self.cases += 1
        self.traces += 1
        self.by_action[op] = self.by_action.get(op, 0) + 1
        self.nontrivial.add(digest(("t", shape, ws, xs, vals, op, a["a"], a["b"], a["c"], a["vec"], a["sh"])))

        def post(key, what, run_c, run_s):
            """exact comparison of the successor, on a product measure and on a scenario"""
            for obj, run, want, label in ((c, run_c, exp_flat, "product_measure"), (s, run_s, exp_flat + exp_vals, "scenario")):
                if run is None:
                    continue
                try:
                    run(obj)
                    got = (list(obj.pts), fl(obj.flatten()))
                except Exception as ex:
                    self.violation("%s:raises-%s" % (key, type(ex).__name__), dict(ctx, what=what, error=repr(ex)),
                                   "%s on a %s raised %r: %s" % (what, label, ex, brief(ctx)))
                    continue
                if got != (t["shape"], want):
                    k = key
                    if got[0] == t["shape"] and got[1][:len(exp_flat)] == exp_flat:
                        k = key + ":values"
                    self.violation(k, dict(ctx, what=what, got={"pts": got[0], "flatten": got[1]}, on=label),
                                   "%s on a %s: spec pts %s vector %s, mystic pts %s vector %s; %s"
                                   % (what, label, t["shape"], short(want), got[0], short(got[1]), brief(ctx)))

        if op in ("load", "append"):
            vec, sh = fl(a["vec"]), a["sh"]
            key = "load" if op == "load" else "load:append"
            post(key, "load(vector, pts)", lambda obj: obj.load(list(vec), list(sh)), lambda obj: obj.load(list(vec), tuple(sh)))
        elif op == "upd":
            vec = fl(a["vec"])
            post("update:footprint", "update(vector)", lambda obj: obj.update(list(vec)), lambda obj: obj.update(list(vec)))
        elif op == "setw":
            m, j, w = a["a"] - 1, a["b"] - 1, float(a["c"])
            new = fl(ws[m]); new[j] = w

            def by_attr(obj):
                obj[m][j].weight = w
            def by_setter(obj):
                obj[m].weights = list(new)
            post("setweight", "point_mass.weight = w", by_attr, by_setter)
        elif op == "setx":
            m, j, x = a["a"] - 1, a["b"] - 1, float(a["c"])
            new = fl(xs[m]); new[j] = x
            packed = _DATA_INDEX.get((tuple(t["flat"]), tuple(t["vals"]), tuple(t["shape"])))

            def by_measure(obj):
                obj[m].positions = list(new)
            def by_product(obj):
                obj.positions = tup(packed)         # the product-level setter goes through _unpack
            post("setposition", "measure.positions = x", by_measure, by_product if packed is not None else by_measure)
        elif op in ("cm", "rng", "var"):
            m, target = a["a"] - 1, rat(a["vec"])
            attr = {"cm": "center_mass", "rng": "range", "var": "var"}[op]
            fac = o["fac"][m]
            degenerate = (op == "rng" and fac["rng"] == 0) or (op == "var" and fac["var"][0] == 0)
            for obj, label in ((c, "product_measure"), (s, "scenario")):
                # target 0 on a measure whose range / variance already is 0 (one point, tied positions) has its own class
                key = "set:" + attr + (":zero-%s-target-zero" % attr if degenerate else "")
                try:
                    setattr(obj[m], attr, target)
                    got = float(getattr(obj[m], attr))
                    rest = (list(obj.pts), fl2(obj.wts), [fl(p) for i, p in enumerate(obj.pos) if i != m])
                    newpos = fl(obj[m].positions)
                    gvals = fl(obj.values) if label == "scenario" else None
                except Exception as ex:
                    self.violation("%s:raises-%s" % (key, type(ex).__name__), dict(ctx, error=repr(ex)),
                                   "%s = %r raised %r: %s" % (attr, target, ex, brief(ctx)))
                    continue
                if not close(got, target):
                    self.violation(key, dict(ctx, target=target, got=got, positions=newpos),
                                   "measure.%s = %r achieved %r (positions %s): %s" % (attr, target, got, newpos, brief(ctx)))
                exp_rest = (shape, fl2(ws), [fl(p) for i, p in enumerate(xs) if i != m])
                if rest != exp_rest or (gvals is not None and gvals != fl(vals)):
                    self.violation(key + ":footprint", dict(ctx, got=rest),
                                   "measure.%s = %r changed weights / another factor / values: %s" % (attr, target, brief(ctx)))
                # informational: does the implementation choose the spec's witness?
                wit = fl(_split_positions(t, m))
                if all(close(g, e) for g, e in zip(newpos, wit)):
                    self.witness_match += 1
                else:
                    self.witness_other += 1
        else:
            raise RuntimeError("unknown action %r" % (a,))


_DATA_INDEX = {}


def _split_positions(t, m):
    """positions of factor m in a successor record (conversion of the emitted vector by the emitted shape)"""
    off = 2 * sum(t["shape"][:m])
    n = t["shape"][m]
    return t["flat"][off + n: off + 2 * n]


def digest(obj):
    return int.from_bytes(hashlib.blake2b(json.dumps(obj, sort_keys=True).encode(), digest_size=8).digest(), "big")


def fname(f):
    return "%s%+d" % (f["k"], -f["c"]) if f["k"] != "const" else "const %d" % f["c"]


def short(v, n=160):
    s = repr(v)
    return s if len(s) <= n else s[:n] + "..."


def brief(ctx):
    st = ctx.get("state", {})
    s = "weights %s positions %s" % (st.get("ws"), st.get("xs"))
    if st.get("vals"):
        s += " values %s" % (st.get("vals"),)
    if "action" in ctx:
        a = ctx["action"]
        s += " action %s(%s,%s,%s vec=%s pts=%s)" % (a["op"], a["a"], a["b"], a["c"], a["vec"], a["sh"])
    return s


def set_catalogue(header):
    _CAT["funcs"] = header["funcs"]
    _CAT["vfuncs"] = header["vfuncs"]
    _CAT["tols"] = header["tols"]
    _CAT["pyfuncs"] = [pyfunc(f) for f in header["funcs"]]
    _CAT["pyvfuncs"] = [pyfunc(g) for g in header["vfuncs"]]


def replay_printed(printed, corrupt=None):
    """replay one TLC run's emitted header + states; returns a picklable summary"""
    global _DATA_INDEX
    set_catalogue([p for p in printed if isinstance(p, dict) and "funcs" in p][-1])
    states = [p for p in printed if isinstance(p, dict) and "succ" in p]
    _DATA_INDEX = {}
    for st in states:
        if "obs" in st:
            o = st["obs"]
            _DATA_INDEX[(tuple(o["flat"]), tuple(o["vals"]), tuple(o["shape"]))] = o["pos"]
    if corrupt is not None:
        corrupt(states)
    rp = Replay()
    nstates = ntrans = 0
    samples = []
    for st in states:
        o = st.get("obs")
        if o is not None:
            rp.state(o)
            nstates += 1
            if len(samples) < 1 and len(o["shape"]) == 2 and o["shape"][0] != o["shape"][1] and st["succ"]:
                samples.append({"state": {k: o[k] for k in ("shape", "flat", "vals", "wts", "pos", "mass", "total")},
                                "expect/expect_var/pof per catalogue function": o["fn"],
                                "one transition": st["succ"][len(st["succ"]) // 2]})
        for i, t in enumerate(st["succ"]):
            rp.transition(o, t, i)
            ntrans += 1
    viol = {k: [v[0], jsonable(v[1]), v[2]] for k, v in rp.viol.items()}
    return {"states": nstates, "transitions": ntrans, "cases": rp.cases, "nontrivial": rp.nontrivial,
            "traces": rp.traces, "undefined": rp.undefined, "viol": viol, "samples": samples,
            "witness": [rp.witness_match, rp.witness_other], "by_action": rp.by_action, "by_kind": rp.by_kind}


def tlc_part(job):
    cfg, part, npart, maxf = job[:4]
    env = {"C19_PART": part, "C19_NPART": npart, "C19_MAXF": maxf}
    if len(job) > 4 and job[4]:
        env["C19_LONG"] = job[4]
    module = "math/MC_MeasureUnits" if cfg.startswith("MC_MeasureUnits") else "math/MC_Measures"
    r = run_tlc(module, cfg=cfg, workers=1, timeout=3000, heap="3g", env=env)
    return r


def job_base(job):
    """rotation base of a partition: the spelling of a state is a function of (configuration, partition, index)"""
    return (digest([job[0], job[1], job[2], job[3]]) % 1000003) * 100000


def work(job):
    """one partition: TLC, then the replay of everything it emitted (once as written, once in a rotating spelling)"""
    r = tlc_part(job)
    mc = {"distinct": r.distinct, "generated": r.generated, "depth": r.depth, "wall_s": r.wall_s,
          "violated": r.violated, "tail": r.out[-3000:] if r.violated else ""}
    printed = r.printed
    r.clear()
    t0 = time.time()
    res = replay_printed(printed) if len(printed) > 1 else None
    mc["replay_s"] = time.time() - t0
    if res is not None:
        from harness import c19_spell
        t1 = time.time()
        hdr, states = c19_spell.split_printed(printed)
        if hdr is not None:
            res["spell"] = c19_spell.replay_spelled(hdr, states, job_base(job), job[5] if len(job) > 5 else 1)
        mc["spell_s"] = time.time() - t1
    return job, mc, res


def jobs_for(a):
    npart = max(1, min(a.jobs, 16))
    if a.tier == "quick":
        npart = max(1, min(a.jobs, 8))
    stride = SPELL_STRIDE[a.tier]
    jobs = [(cfg, p, npart if maxf == 3 else max(1, npart // 2), maxf, None, stride[1 if "deep" in cfg else 0]) for cfg, maxf in CFG[a.tier]
            for p in range(npart if maxf == 3 else max(1, npart // 2))]
    nlong = max(1, min(LONG_PARTS[a.tier], a.jobs))
    jobs += [(LONG, p, nlong, 9, "all" if a.tier == "thorough" else "quick", (1, 1)) for p in range(nlong)]
    return jobs, npart


def new_check(a):
    return Check("C19", "model_checking", a.tier, a.seed,
                 rule="every reachable state of the TLA+ machine math/Measures (all shapes with <= 3 factors x 1..3 points, and the "
                      "LONG shapes with 10..12 points / 4..6 factors; weights 0..2 (3), positions -7..13, scenario values: one per "
                      "point, none, one) is rebuilt from raw point masses and every observable "
                      "(flatten, weights, positions, mass, round trips, expect/expect_var/pof/support, factor statistics) is "
                      "compared with the value TLC printed; every transition (load, append, update, weight/position "
                      "assignment, center_mass/range/var setter) is replayed on fresh real objects.  A case = one state or one "
                      "transition; distinct by (shape, vector, values[, action]); a state is non-trivial if it has >= 2 "
                      "factors or a zero weight, every transition is non-trivial (it changes at least one entry).  Every transition, every "
                      "off-lattice call (a half written next to integers, center_mass + k/2) and every state (quick: every second; in the "
                      "two-edit instance every third state / second transition) is "
                      "replayed once more in a second spelling (unit 2^-1000..2^1000, int / numpy scalars, tuples / arrays, keywords, "
                      "negative / numpy indices, other constructors and setters: coverage.spellings); distinct by the same key + spelling")


def collect(ck, results):
    wm = wo = undefined = 0
    by_action, by_kind = {}, {}
    spell_count, spell_cases, long_cases = {}, [0, 0], [0, 0]
    ck.extra["replay_wall_s_sum"] = round(sum(mc.get("replay_s", 0) for _, mc, _ in results), 1)
    ck.extra["slowest_partition_s"] = round(max((mc.get("replay_s", 0) + mc.get("spell_s", 0) + (mc.get("wall_s") or 0)) for _, mc, _ in results), 1)
    for job, mc, res in results:
        inst = job[0].replace("MC_MeasureUnits_", "").replace("MC_Measures_", "").replace(".cfg", "")
        name = ("MeasureUnits[long (%s): two-digit point counts, 4..6 factors part %d/%d]" % (job[4], job[1], job[2])) if job[0] == LONG else \
               ("MeasureUnits[%s, shapes with <= %d factors part %d/%d]" % (inst, job[3], job[1], job[2]))
        if mc["violated"]:
            ck.violation("spec:" + mc["violated"], {"tlc": mc["tail"], "model": name},
                         "TLC: design property %s violated in %s" % (mc["violated"], name))
        ck.mc(mc, name)
        if res is None:
            continue
        for key in res["nontrivial"]:        # 8-byte digests; the union over partitions makes the count distinct
            ck.case(nontrivial=True, key=key)
        ck.case(nontrivial=False, n=res["cases"] - len(res["nontrivial"]))
        ck.trace(res["traces"])
        undefined += res["undefined"]
        wm += res["witness"][0]
        wo += res["witness"][1]
        for k, v in res["by_action"].items():
            by_action[k] = by_action.get(k, 0) + v
        for k, v in res["by_kind"].items():
            by_kind[k] = by_kind.get(k, 0) + int(v)
        for smp in res["samples"]:
            ck.sample(smp, limit=3)
        for key, (n, detail, what) in sorted(res["viol"].items()):
            for _ in range(n):
                ck.violation(key, detail, what)
        sp = res.get("spell")
        if sp:
            for key in sp["nontrivial"]:
                ck.case(nontrivial=True, key=key)
            ck.case(nontrivial=False, n=max(0, sp["cases"] - len(sp["nontrivial"])))
            ck.trace(sp["traces"])
            for k, v in sp["count"].items():
                spell_count[k] = spell_count.get(k, 0) + int(v)
            spell_cases[0] += sp["cases"]
            spell_cases[1] += sp["traces"]
            if job[0] == LONG:
                long_cases[0] += res["cases"]
                long_cases[1] += sp["cases"]
            for smp in sp["samples"]:
                ck.sample(smp, limit=5)
            for key, (n, detail, what) in sorted(sp["viol"].items()):
                for _ in range(n):
                    ck.violation(key, detail, what)
    ck.extra["spellings"] = {"cases_replayed_in_a_second_spelling": spell_cases[0], "of_which_transitions": spell_cases[1],
                             "long_instance_cases_as_written": long_cases[0], "long_instance_cases_second_spelling": long_cases[1],
                             "replay_wall_s_sum": round(sum(mc.get("spell_s", 0) for _, mc, _ in results), 1),
                             "by_component": {k: spell_count[k] for k in sorted(spell_count)}}
    ck.extra["transitions_replayed_by_action"] = by_action
    ck.extra["states_by_kind"] = by_kind
    ck.extra["undefined_observables_skipped"] = undefined
    ck.extra["setter_successor_equals_spec_witness"] = wm
    ck.extra["setter_successor_other_than_witness"] = wo
    # the per-partition runs are folded into one line per configuration to keep the evidence file readable
    folded = {}
    for r in ck.mc_runs:
        k = r["model"].split(" part")[0] + "]"
        f = folded.setdefault(k, {"model": k, "distinct_states": 0, "states_generated": 0, "depth": 0, "wall_s": 0.0, "partitions": 0})
        f["distinct_states"] += r["distinct_states"] or 0
        f["states_generated"] += r["states_generated"] or 0
        f["depth"] = max(f["depth"], r["depth"] or 0)
        f["wall_s"] = round(f["wall_s"] + (r["wall_s"] or 0), 2)
        f["partitions"] += 1
    ck.mc_runs = list(folded.values())


def dispatch(item):
    """one job of the common pool: a partition of the main models or a job of the growth models"""
    kind, payload = item
    t0 = time.time()
    if kind == "main":
        return kind, work(payload), time.time() - t0
    from harness import c19_growth
    return kind, c19_growth.work(payload), time.time() - t0


def explore(ck, a):
    """all TLC runs and replays of the check in ONE pool of a.jobs processes (longest jobs first): the partitions of
    MeasureUnits (quick / deep / thorough, long) and the growth jobs (MeasureBounds partitions, MeasureAlias)"""
    from harness import c19_growth
    ck.exhaustive = True
    t0 = time.time()
    jobs, npart = jobs_for(a)
    # expected cost: the round robin over the cost-sorted shapes makes the first partitions the longest; a growth partition
    # takes about as long as a middle one; deep partitions, MeasureAlias and the long instance are shorter
    rank = lambda j: (0 if j[0] == LONG else 2 if "deep" in j[0] else 4, -j[1])
    items = [(rank(j), ("main", j)) for j in jobs] + \
            [((3 if g[0][0] == "growth" else 1, -g[0][2]), ("growth", g)) for g in c19_growth.growth_items(a)]
    items = [it for _, it in sorted(items, key=lambda x: x[0], reverse=True)]
    ctx = mp.get_context("fork")
    with ctx.Pool(min(len(items), max(1, a.jobs))) as pool:
        out = pool.map(dispatch, items, chunksize=1)
    results = [r for kind, r, _ in out if kind == "main"]
    collect(ck, results)
    ck.extra["main_jobs_s_sum"] = round(sum(t for kind, _, t in out if kind == "main"), 1)
    ck.extra["pool_wall_s"] = round(time.time() - t0, 1)
    explore_assumptions(ck)
    c19_growth.growth_fold(ck, a, [r for kind, r, _ in out if kind == "growth"], sum(t for kind, _, t in out if kind == "growth"))


def explore_assumptions(ck):
    ck.assumptions = [
        "weights are integers 0..2, positions integers -1..10, values small integers: every product, sum and single division "
        "is exact in IEEE doubles, so ==; expect_var / var and the achieved value of the center_mass / range / var setters "
        "are compared at 1e-9*max(1,|expected|)",
        "expect / expect_var / center_mass / var / mean_value are undefined when the total weight is 0 (mystic returns nan); "
        "those observables are skipped (counted in undefined_observables_skipped); pof is the un-normalised sum of the "
        "weights of the points with f(x) <= 0, as implemented and documented in the code comments",
        "the setters' premises are honoured: non-zero factor mass, non-zero range for range=, non-zero variance for var=; "
        "only the post-condition (achieved value, weights / other factors / values untouched) is demanded, not the "
        "particular positions",
        "update(vector) is exercised within its documented premise len(vector) >= 2*sum(pts); measures have no value "
        "equality, 'equal measure' means equal pts, wts, pos, flatten(), weights and positions",
        "TLC, its Json module and the TLA+ definitions of the explicit sums are trusted; the python side only converts "
        "(int -> float, <<n,d>> -> n/d, catalogue record -> lambda) and compares",
        "second spelling (MeasureUnits.tla, harness/c19_spell.py): the model's integers denote multiples of a dyadic unit "
        "<<2^ew, 2^ex, 2^ey>> from TLC's catalogue (admissible for the number of factors by UnitOK: nothing leaves the normal "
        "double range); values returned by mystic are divided by the unit with the exponent of TLC's table of degrees (law of "
        "units, model-checked for the multipliers <<2,3,5>>; its variance clause where 32-bit integers suffice) and compared "
        "as above; test functions read the coordinates in model units.  numpy.float32 data: observables that involve a "
        "division are compared at 1e-5*max(1,|expected|)",
        "only legal spellings are rotated, i.e. those the unchanged tree handles: scenario.update and scenario values take "
        "lists, weights= takes a list / tuple / array (no generator), compose takes nested lists / tuples / rows of arrays (no "
        "2-d array), _flat takes nested lists / tuples; python / numpy integers only in the unit 1 (a non-integral target or "
        "written number next to integer data is a float).  Off-lattice calls (w + 1/2, an entry + 1/2, center_mass + k/2) are "
        "replayed in the second spelling only",
    ]


# ------------------------------------------------------------------------------ self test
def mutant_catalogue():
    """in-memory mutations of mystic (this process only) + falsified TLC values: (name, apply, corrupt), restore"""
    import numpy
    PM, SC, ME = D.product_measure, D.scenario, D.measure
    saved = {"_pack": M._pack, "_unpack": M._unpack, "flatten": D.flatten, "unflatten": D.unflatten,
             "decompose": D.decompose, "expectation": M.expectation, "support": M.support,
             "PM.update": PM.update, "SC.update": SC.update, "PM.load": PM.load, "SC.load": SC.load,
             "PM.weights": PM.weights, "PM.pof": PM.pof, "ME.center_mass": ME.center_mass, "_nested_split": M._nested_split,
             "impose_spread": D.impose_spread, "impose_variance": D.impose_variance, "ME.range": ME.range}

    def restore():
        M._pack, M._unpack, M.expectation, M.support = saved["_pack"], saved["_unpack"], saved["expectation"], saved["support"]
        M._nested_split = saved["_nested_split"]
        D.flatten, D.unflatten, D.decompose = saved["flatten"], saved["unflatten"], saved["decompose"]
        PM.update, SC.update, PM.load, SC.load = saved["PM.update"], saved["SC.update"], saved["PM.load"], saved["SC.load"]
        PM.weights, PM.pof, ME.center_mass = saved["PM.weights"], saved["PM.pof"], saved["ME.center_mass"]
        D.impose_spread, D.impose_variance, ME.range = saved["impose_spread"], saved["impose_variance"], saved["ME.range"]

    def m_pack_reversed():            # last factor varies fastest instead of the first
        M._pack = lambda samples: [tuple(p) for p in itertools.product(*samples)]

    def m_flatten_unequal():          # right for equal factor sizes, all weights then all positions otherwise
        def flatten(c):
            if len(set(len(i) for i in c)) <= 1:
                return saved["flatten"](c)
            return [w for i in c for w in i.weights] + [x for i in c for x in i.positions]
        D.flatten = flatten

    def m_update_neighbour():         # update also overwrites the neighbour of the first weight
        def update(self, params):
            saved["PM.update"](self, params)
            if len(self[0]) > 1:
                self[0][1].weight = self[0][0].weight
            return self
        PM.update = update

    def m_update_values_off_by_one():  # scenario.update overwrites one value more than it was given
        def update(self, params):
            n = 2 * sum(self.pts)
            k = len(params) - n
            old = list(self.values)
            saved["SC.update"](self, params)
            if 0 < k < len(old):
                v = list(self.values); v[k] = params[-1]; self.values = v
            return self
        SC.update = update

    def m_weights_summed():
        PM.weights = property(lambda self: [numpy.sum(w) for w in M._pack(self.wts)])

    def m_pof_strict():               # f(x) <= 0  ->  f(x) < 0
        def pof(self, f):
            u = 0.0
            for x, w in zip(self.positions, self.weights):
                if f(x) < 0.0:
                    u += w
            return u
        PM.pof = pof

    def m_load_sorted_pts():          # load ignores the order of pts
        def load(self, params, pts):
            return saved["PM.load"](self, params, sorted(pts))
        def sload(self, params, pts):
            return saved["SC.load"](self, params, sorted(pts))
        PM.load, SC.load = load, sload

    def m_unpack_equal_sizes():       # strides computed from npts[0] only (assumes equal factor sizes)
        def _unpack(samples, npts):
            return [[p[i] for p in samples][:npts[0] ** i * npts[i]:npts[0] ** i] for i in range(len(npts))]
        M._unpack = _unpack

    def m_expect_unweighted():
        def expectation(f, samples, weights=None, tol=0.0):
            return saved["expectation"](f, samples, None)
        M.expectation = expectation

    def m_support_ge():               # weight > tol  ->  weight >= tol
        M.support = lambda samples, weights, tol=0: [samples[i] for (i, w) in enumerate(weights) if w >= tol]

    def m_set_mean_unweighted():      # the center_mass setter ignores the weights
        def setm(self, m):
            self.positions = M.impose_mean(m, self.positions)
        ME.center_mass = property(saved["ME.center_mass"].fget, setm)

    def m_range_nan_on_zero_spread():  # the defect repaired by repo commit 16d8312
        def impose_spread(r, samples, weights=None):
            if not M.spread(list(samples)):
                return [float("nan")] * len(samples)
            return saved["impose_spread"](r, samples, weights)
        D.impose_spread = impose_spread

    def m_var_setter_linear_scale():   # scale by v/sv instead of sqrt(v/sv)
        def impose_variance(v, samples, weights=None):
            sv = M.variance(samples, weights)
            if not sv:
                return saved["impose_variance"](v, samples, weights)
            m = M.mean(samples, weights)
            return M.impose_mean(m, numpy.asarray(list(samples)) * (float(v) / sv), weights)
        D.impose_variance = impose_variance

    def m_range_setter_touches_weights():   # range= also renormalises the weights
        def setr(self, r):
            self.positions = saved["impose_spread"](r, self.positions, self.weights)
            t = float(sum(self.weights))
            self.weights = [w / t for w in self.weights]
        ME.range = property(saved["ME.range"].fget, setr)

    def m_decompose_swapped():        # decompose returns (weights, positions)
        def decompose(c):
            x, w = saved["decompose"](c)
            return w, x
        D.decompose = decompose

    def corrupt_expected(states):     # one expected value from TLC is falsified
        for st in states:
            if "obs" in st and st["obs"]["total"] > 0 and len(st["obs"]["shape"]) > 1:
                st["obs"]["fn"][0]["pof"] += 1
                return

    def corrupt_successor(states):    # one expected successor from TLC is falsified
        for st in states:
            for t in st["succ"]:
                if t["act"]["op"] == "upd" and len(t["flat"]) > 2:
                    t["flat"] = [t["flat"][1], t["flat"][0]] + t["flat"][2:]
                    if t["flat"][0] != t["flat"][1]:
                        return

    mutants = [("_pack order reversed (last factor fastest)", m_pack_reversed, None),
               ("flatten groups all weights before all positions when factor sizes are unequal", m_flatten_unequal, None),
               ("update also overwrites a neighbouring weight", m_update_neighbour, None),
               ("scenario.update overwrites one value too many", m_update_values_off_by_one, None),
               ("product weights summed instead of multiplied", m_weights_summed, None),
               ("pof counts f(x) < 0 instead of f(x) <= 0", m_pof_strict, None),
               ("load ignores the order of pts", m_load_sorted_pts, None),
               ("_unpack assumes equal factor sizes", m_unpack_equal_sizes, None),
               ("expect ignores the weights", m_expect_unweighted, None),
               ("support uses weight >= tol", m_support_ge, None),
               ("center_mass setter ignores the weights", m_set_mean_unweighted, None),
               ("decompose returns (weights, positions)", m_decompose_swapped, None),
               ("range setter gives nan on zero spread, target 0 (defect repaired by 16d8312)", m_range_nan_on_zero_spread, None),
               ("var setter scales by v/var instead of sqrt(v/var)", m_var_setter_linear_scale, None),
               ("range setter also renormalises the weights", m_range_setter_touches_weights, None),
               ("one expected observable from TLC falsified", None, corrupt_expected),
               ("one expected successor from TLC falsified", None, corrupt_successor)]
    return mutants, restore


def selftest_part(job):
    """one partition: TLC once, then the replay under every mutant (applied and undone in this process)"""
    r = tlc_part(job)
    if r.violated:
        return job, r.violated, None
    printed = r.printed
    r.clear()
    mutants, restore = mutant_catalogue()
    out = []
    for name, mut, corrupt in mutants + [("unmutated tree", None, None)]:
        data = printed
        if corrupt is not None:
            if job[1] != 0:
                out.append(None)
                continue
            data = json.loads(json.dumps(printed))
        if mut:
            mut()
        try:
            res = replay_printed(data, corrupt)
            out.append({k: [v[0]] for k, v in res["viol"].items()})
        except Exception as ex:                       # a mutant that breaks the harness' own calls is caught as well
            out.append({"harness-failure:%s" % type(ex).__name__: [1]})
        finally:
            restore()
    return job, None, out


def selftest(a):
    a.tier = "quick"
    jobs, npart = jobs_for(a)
    jobs = [j for j in jobs if j[0] == CFG["quick"][0][0]]     # the one-edit graph over all 39 shapes is enough here
    ctx = mp.get_context("fork")
    with ctx.Pool(min(len(jobs), max(1, a.jobs))) as pool:
        parts = pool.map(selftest_part, jobs, chunksize=1)
    for job, violated, out in parts:
        if violated:
            print("SELFTEST aborted: TLC reports %s" % violated)
            return 2
    names = [m[0] for m in mutant_catalogue()[0]] + ["unmutated tree"]
    missed = 0
    for idx, name in enumerate(names):
        total = {}
        for job, _, out in parts:
            for k, v in (out[idx] or {}).items():
                total[k] = total.get(k, 0) + v[0]
        n = sum(total.values())
        keys = ", ".join(sorted(total, key=lambda k: -total[k])[:4])
        if name == "unmutated tree":
            print("SELFTEST unmutated tree: %d violations %s" % (n, keys))
            continue
        print("SELFTEST %s: %s (%d violations; %s)" % (name, "caught" if n else "MISSED", n, keys))
        missed += 0 if n else 1
    from harness import c19_growth                       # bounds, remaining statistics, reweighting, object identity
    missed += c19_growth.selftest_growth(a)
    from harness import c19_spell                        # second spellings, units, the LONG instance, zero target, off-lattice calls
    missed += c19_spell.selftest_spell(a)
    return 1 if missed else 0


def shape_rank(sh):
    """position of a shape in the cost-sorted order of MC_Measures.tla (Rank)"""
    shapes = [list(t) for d in (1, 2, 3) for t in itertools.product((1, 2, 3), repeat=d)]
    cost = lambda t: math.prod(t) * 2 * sum(t)
    code = lambda t: sum(n * 4 ** m for m, n in enumerate(t))
    return sum(1 for t in shapes if cost(t) > cost(sh) or (cost(t) == cost(sh) and code(t) < code(sh)))


def replay_artifact(a):
    """--replay PATH: TLC re-derives the expected values for the artefact's state; the state and the
    artefact's action (or all its transitions) are replayed against the current tree"""
    art = json.load(open(a.replay))
    d = art["detail"]
    st, act = d["state"], d.get("action")
    want = (st["shape"], st["ws"], st["xs"], st["vals"])
    print("replaying %s: weights %s positions %s values %s%s" % (art["key"], st["ws"], st["xs"], st["vals"],
                                                                " action %s" % act if act else ""))
    shape = st["shape"] if st["shape"] else act["sh"]
    small = len(shape) <= 3 and all(1 <= n <= 3 for n in shape)
    runs = [(cfg, {"C19_PART": shape_rank(shape), "C19_NPART": 39}) for cfg in
            ("MC_MeasureUnits_quick.cfg", "MC_MeasureUnits_thorough.cfg", "MC_MeasureUnits_deep.cfg")] if small else []
    runs.append((LONG, {"C19_PART": 0, "C19_NPART": 1, "C19_LONG": "all"}))
    rp, done = None, 0
    for cfg, env in runs:
        r = run_tlc("math/MC_MeasureUnits", cfg=cfg, workers=1, timeout=3000, heap="3g", env=env)
        global _DATA_INDEX
        set_catalogue([p for p in r.printed if isinstance(p, dict) and "funcs" in p][-1])
        emitted = [p for p in r.printed if isinstance(p, dict) and "succ" in p]
        _DATA_INDEX = {(tuple(x["obs"]["flat"]), tuple(x["obs"]["vals"]), tuple(x["obs"]["shape"])): x["obs"]["pos"]
                       for x in emitted if "obs" in x}
        for x in emitted:
            o = x.get("obs")
            have = (o["shape"], o["ws"], o["xs"], o["vals"]) if o else ([], [], [], [])
            if have != want:
                continue
            rp = Replay()
            if o:
                rp.state(o)
                done += 1
            for i, t in enumerate(x["succ"]):
                if act is None or t["act"] == act:
                    rp.transition(o, t, i)
                    done += 1
            break
        if rp is not None and done:
            break
    if rp is None or not done:
        print("state of the artefact is not reachable in the quick / thorough / deep / long models")
        return 2
    for key, (n, detail, what) in sorted(rp.viol.items()):
        print("VIOLATION property=C19 replay=%s" % a.replay)
        print("  %s x%d: %s" % (key, n, what[:600]))
    print("replayed %d state/transition(s): %d violations" % (done, sum(v[0] for v in rp.viol.values())))
    return 1 if rp.viol else 0


def main():
    a = tier_seed()
    load_mystic()
    if a.selftest:
        return selftest(a)
    if a.replay:
        from harness import c19_growth, c19_spell
        if str(json.load(open(a.replay)).get("key", "")).startswith("spell:"):
            return c19_spell.replay_spell_artifact(a)
        return c19_growth.replay_growth(a) if c19_growth.is_growth_artifact(a.replay) else replay_artifact(a)
    ck = new_check(a)
    explore(ck, a)                                       # main models + growth (bounds, remaining statistics, reweighting, object identity)
    return ck.finish()


if __name__ == "__main__":
    main_guard(main)
