"""C20 -- monitors and log files give back exactly what was recorded.

spec -> code (model-based testing with TLC as the oracle):

 * mon/Monitor.tla: monitors as objects on a heap (x, stored k*y, id, k), one action per public call
   (Call, Slice, Add, Extend, Prepend, SetItem, and for the other forms of __getitem__: Index -- list of
   ints, numpy int array, bool mask as array or list, the same inside a 1-tuple --, TSlice -- a slice inside
   a 1-tuple --, GetItem -- python / numpy integer).  TLC checks the design (len = calls, k transparent,
   every reported record is a recorded call, argument objects unchanged, concatenation / selection order) and
   emits EVERY operation script of the configured length together with what the object written by
   each operation reports afterwards.  The harness replays each script on real mystic monitors
   (Monitor, VerboseMonitor, LoggingMonitor, VerboseLoggingMonitor) and after every operation
   compares len/x/y/id of EVERY object ever created with the specification's heap.
 * mon/LogFile.tla: trajectories of records whose values are indices into a catalogue of hard floats;
   TLC checks write-then-read = identity for the three-column log and the raw/support/converge
   layouts and emits, per trajectory, what each reader has to return.  The harness lets a real
   LoggingMonitor write the log, munge.write_*_file write the parameter files, and compares what
   munge.logfile_reader / read_history / read_raw_file / read_import return (NaN-aware, exact).

 * grown parts (same two modules): the Null kind (one python variable holds monitors.Null(): no-op receiver, empty
   argument of + / extend / prepend / __setitem__, given as Null() or as the class Null), m[sel] = b (list / int array /
   bool mask), m[a:b] = b, m.min() and the read-only views ix/ax/iy/ay/get_x/get_y/get_id/_pos/_wts/pos/wts in Monitor.tla
   (configs MC_MonNull_*, MC_MonSet_*); population-valued records, all=False (+ best), interval 0, and every other
   reader / source / converter of munge plus monitors._load in LogFile.tla (configs MC_LogSrc_*, replayed by
   harness/c20_sources.py): read_history from a log name / file object / monitor / solver / solver restart file / Null,
   read_trajectories, read_monitor, _process_ids / _reduce_ids, read_support_file, read_converge_file, read_old_support_file,
   raw_to_support / raw_to_converge / converge_to_support / old_to_new converters, _load and its measure views.

Opaque ids -> concrete values is an injective renaming done here (catalogues XCAT/YCAT, container
kinds list/tuple/ndarray/numpy scalar chosen by rotation over the emitted cases); every expected
VALUE POSITION comes out of TLC.
"""
import sys, os, io, contextlib, shutil, importlib, inspect, textwrap, json, copy
from harness.core import Check, tier_seed, assert_repo, main_guard, ROOT
from harness.tlc import run_tlc
import harness.c20_sources as SRC

NONE = 1000
NULLK = 7          # Monitor.tla NullK: this python variable holds monitors.Null()


class Machinery(Exception):
    """harness-side inconsistency: exit 2, never a VIOLATION"""
inf, nan = float("inf"), float("nan")
from harness.core import OUT_DIR
# scratch files of THIS run only (pid of the parent process; forked workers inherit it): concurrent runs of the
# check -- e.g. bin/seeded against a scratch worktree -- must not remove each other's directory
TMP = os.path.join(OUT_DIR, "C20", "tmp_%d" % os.getpid())

# ----------------------------------------------------------------------------------------------
# catalogues of concrete values (LogFile.tla: NCat = 16).  YCAT differs from XCAT only where k*y
# would overflow (|y| > max/2): C20's "k is transparent" cannot hold beyond the float range.
XCAT = [inf, -inf, nan, -0.0, 5e-324, 1.7e308, -1.7976931348623157e308, -3.5,
        1e-300, 7, -2, 0.1, 1.0 / 3.0, 123456789.12345679, 2.2250738585072014e-308, 0.0]
YCAT = list(XCAT)
YCAT[5], YCAT[6] = 8.9e307, -8.9e307
NCAT = 16


def canon(v):
    """value -> hashable canonical form: sequences -> tuples, numbers -> exact repr of the double
    (distinguishes -0.0 from 0.0, identifies all NaNs, int 7 == float 7.0)"""
    if hasattr(v, "tolist") and hasattr(v, "shape"):
        v = v.tolist()
    if isinstance(v, (list, tuple)):
        return tuple(canon(e) for e in v)
    if v is None or isinstance(v, str):
        return v
    try:
        f = float(v)
    except Exception:
        return repr(v)
    return "nan" if f != f else repr(f)


def canon_ids(ids):
    return tuple(tuple(i) if isinstance(i, list) else i for i in ids)


def none(v):
    return None if v == NONE else v


# ----------------------------------------------------------------------------------------------
# concretisation of Monitor.tla's opaque ids
XKINDS = ("list2", "tuple3", "nd2", "scalar", "list1")
YKINDS = ("py", "np", "vec", "ndvec", "int", "tuplevec", "nd0")   # nd0: a 0-d array (what Powell hands its monitor)
# order-preserving cost concretisations, for scripts with a GetMin (Monitor.tla: cost ids -3..3 compared as integers)
MONO_KINDS = ("mono", "mononp", "monoint")
MONO = [-inf, -8.9e307, -5e-324, 0.0, 5e-324, 8.9e307, inf]


class Profile(object):
    """injective map  (x id, y id, id id) -> concrete call arguments"""
    def __init__(self, n, np, tuple_ids_ok=True, mono=False, floaty=False):
        self.n = n
        self.xkind = XKINDS[n % len(XKINDS)]
        self.ykind = YKINDS[(n // len(XKINDS)) % len(YKINDS)]
        if mono:
            self.ykind = MONO_KINDS[(n // len(XKINDS)) % len(MONO_KINDS)]
        self.floaty = floaty       # the catalogue's python ints (7, -2) as floats: see profile_for
        self.off = (n // 30) % NCAT
        self.idkind = "tuple" if (tuple_ids_ok and (n // 7) % 3 == 1) else "int"
        self.np = np
        self._x, self._y = {}, {}

    def describe(self):
        return {"xkind": self.xkind, "ykind": self.ykind, "idkind": self.idkind, "off": self.off}

    def x(self, xv):
        np = self.np
        a, b, c = xv + 0.25, XCAT[(xv + self.off) % NCAT], XCAT[(2 * xv + self.off + 5) % NCAT]
        k = self.xkind
        if k == "list2": return [a, b]
        if k == "tuple3": return (a, b, c)
        if k == "nd2": return np.array([a, float(b)])
        if k == "scalar": return a
        return [a]

    def y(self, yv):
        np = self.np
        if self.ykind in MONO_KINDS:
            if not -3 <= yv <= 3:
                raise Machinery("cost id %r outside the monotone catalogue" % (yv,))
            if self.ykind == "monoint": return yv + 10
            v = MONO[yv + 3]
            if yv == 0 and self.off % 2: v = -0.0
            return np.float64(v) if self.ykind == "mononp" else v
        i = (yv + 3 + self.off) % NCAT
        a, b = YCAT[i], YCAT[(i + 8) % NCAT]
        if self.floaty: a, b = float(a), float(b)
        k = self.ykind
        if k == "py": return a
        if k == "np": return np.float64(a)
        if k == "nd0": return np.array(float(a))
        if k == "vec": return [a, b]
        if k == "ndvec": return np.array([float(a), float(b)])
        if k == "int": return yv + 10      # never the integer 0: an int has no signed zero, and 0*k/k = -0.0 for k=-1
        return (a, b)

    def id(self, idv):
        if idv == NONE: return None
        return (idv, 1) if self.idkind == "tuple" else idv

    def cx(self, xv):
        if xv not in self._x: self._x[xv] = canon(self.x(xv))
        return self._x[xv]

    def cy(self, yv):
        if yv not in self._y: self._y[yv] = canon(self.y(yv))
        return self._y[yv]


_SINK = io.StringIO()


def scribble(np, buf):
    """overwrite a mutable container that was passed to a monitor (a caller re-using its working buffer)"""
    if isinstance(buf, list):
        buf[:] = [-777.125] * len(buf)
    elif isinstance(buf, np.ndarray) and buf.ndim:
        buf[...] = -777.125


def make_monitor(M, cls, k, tag):
    if k == NULLK:
        return M.Null(), None
    kw = {} if k is None else {"k": k}
    if cls == "Monitor":
        return M.Monitor(**kw), None
    if cls == "VerboseMonitor":
        return M.VerboseMonitor(1, 1, **kw), None
    fn = os.path.join(TMP, "%d_%s.txt" % (os.getpid(), tag))
    if cls == "LoggingMonitor":
        return M.LoggingMonitor(1, fn, new=True, **kw), fn
    return M.VerboseLoggingMonitor(1, 1, 1, fn, new=True, **kw), fn


def observe(m):
    if type(m).__name__ == "Null":        # (Null().id is Null() again: every unknown attribute is)
        return (len(m), canon(m.x), canon(m.y), canon_ids(m._id))
    return (len(m), canon(m.x), canon(m.y), canon_ids(m.id))


def check_views(m, exp):
    """the read-only views of a real monitor against what the specification says it reports (exp = observe() shape);
    returns the name of the first view that is not the projection it should be, or None"""
    if type(m).__name__ == "Null":
        return None
    _, ex, ey, eid = exp
    for name, fn in (("ix", lambda: canon(list(m.ix))), ("ax", lambda: canon(m.ax)),
                     ("iy", lambda: canon(list(m.iy))), ("ay", lambda: canon(m.ay)),
                     ("get_x", lambda: canon(m.get_x())), ("get_id", lambda: canon_ids(m.get_id())),
                     ("get_y", lambda: canon(m.get_y()))):
        try:
            g = fn()
        except Exception as ex_:
            return "%s-raises-%s" % (name, type(ex_).__name__)
        if g != (eid if name == "get_id" else ex if name.endswith("x") else ey):
            return name
    for name in ("_pos", "_wts", "pos", "wts"):        # made without npts: no measure structure
        try:
            if getattr(m, name) is not None: return name
        except Exception as ex_:
            return "%s-raises-%s" % (name, type(ex_).__name__)
    return None


def replay_script(M, np, sc, cls, prof, report, corrupt=False, views=False):
    """run one TLC script on real monitors of class `cls`; compare every object after every step.
    report(key, detail, what) is called for the first disagreement of the script."""
    ks = [none(v) for v in sc["k"]]
    files = []
    isnull = lambda o: type(o).__name__ == "Null"

    def arg(o, step):
        """a monitor passed as ARGUMENT: the Null object goes in as the instance Null() or as the class Null"""
        return M.Null if (isnull(o) and (prof.n + step) % 2 == 0) else o
    heap, slots = [], [0, 1]
    for j, k in enumerate(ks):
        m, fn = make_monitor(M, cls, k, "m%d" % j)
        heap.append(m)
        if fn: files.append(fn)
    expect = [(0, (), (), ()), (0, (), (), ())]
    snap = [repr((len(m), m.x, m.y, m.id)) for m in heap]
    verbose = cls.startswith("Verbose")
    try:
        for step, op in enumerate(sc["s"]):
            name, t, a, b, i, sl, c, obj, recs = op
            before = len(heap)
            try:
                if verbose:
                    _SINK.seek(0); _SINK.truncate()
                    cm = contextlib.redirect_stdout(_SINK)
                else:
                    cm = contextlib.nullcontext()
                with cm:
                    if name == "call":
                        m = heap[slots[a - 1]]
                        xarg, yarg = prof.x(c[0]), prof.y(c[1])
                        if c[2] == NONE:
                            m(xarg, yarg)
                        else:
                            m(xarg, yarg, prof.id(c[2]))
                        # the caller re-uses its buffers: what was RECORDED is the value at the time of the call
                        scribble(np, xarg); scribble(np, yarg)
                        tgt = slots[a - 1]
                    elif name == "slice":
                        new = heap[slots[a - 1]][slice(none(sl[0]), none(sl[1]), none(sl[2]))]
                        heap.append(new); slots[t - 1] = len(heap) - 1; tgt = len(heap) - 1
                    elif name == "tslice":
                        new = heap[slots[a - 1]][(slice(none(sl[0]), none(sl[1]), none(sl[2])),)]
                        heap.append(new); slots[t - 1] = len(heap) - 1; tgt = len(heap) - 1
                    elif name in INDEX_FORMS:
                        new = heap[slots[a - 1]][concrete_index(np, name, sl, prof.n + step)]
                        heap.append(new); slots[t - 1] = len(heap) - 1; tgt = len(heap) - 1
                    elif name in ITEM_FORMS:
                        tgt = slots[a - 1]
                        item = heap[tgt][concrete_item(np, name, i, prof.n + step)]
                    elif name == "min":
                        tgt = slots[a - 1]
                        item = heap[tgt].min()
                    elif name == "add":
                        new = heap[slots[a - 1]] + arg(heap[slots[b - 1]], step)
                        heap.append(new); slots[t - 1] = len(heap) - 1; tgt = len(heap) - 1
                    elif name == "extend":
                        heap[slots[a - 1]].extend(arg(heap[slots[b - 1]], step)); tgt = slots[a - 1]
                    elif name == "prepend":
                        heap[slots[a - 1]].prepend(arg(heap[slots[b - 1]], step)); tgt = slots[a - 1]
                    elif name == "setitem":
                        heap[slots[a - 1]][i] = arg(heap[slots[b - 1]], step); tgt = slots[a - 1]
                    elif name == "setslice":
                        if none(sl[2]) is not None:
                            raise Machinery("setslice with a step: %r" % (sl,))
                        heap[slots[a - 1]][slice(none(sl[0]), none(sl[1]))] = arg(heap[slots[b - 1]], step); tgt = slots[a - 1]
                    elif name in SET_FORMS:
                        heap[slots[a - 1]][concrete_index(np, name[2:], sl, prof.n + step)] = heap[slots[b - 1]]; tgt = slots[a - 1]
                    else:
                        raise Machinery("unknown op %r" % name)
            except Machinery:
                raise
            except Exception as ex:
                report("mon:%s:%s:raises-%s" % (cls, name, type(ex).__name__),
                       {"kind": "script", "cls": cls, "profile": prof.n, "script": sc, "step": step, "error": repr(ex)},
                       "%s k=%s step %d %s raised %r" % (cls, ks, step, op[:7], ex))
                return False
            if tgt != obj - 1:
                raise Machinery("harness/spec object numbering differs: %s vs %s in %s" % (tgt, obj - 1, op))
            if name in ITEM_FORMS or name == "min":
                # m[i] / m.min(): the pair (x, y) of the record the specification names (c = <<x, y, id>>)
                e = (prof.cx(c[0]), prof.cy(c[1]))
                if corrupt and step == len(sc["s"]) - 1:
                    e = (e[0], canon(12345.5))
                try:
                    g = (len(item), canon(item[0]), canon(item[1])) if isinstance(item, tuple) else ("not a pair", repr(item))
                except Exception as ex:
                    g = ("raised %r" % ex,)
                if g != (2,) + e:
                    what = "shape" if len(g) != 3 or g[0] != 2 else "+".join(f for f, gg, ee in zip(("x", "y"), g[1:], e) if gg != ee)
                    report("mon:%s:%s:%s" % (cls, name, what),
                           {"kind": "script", "cls": cls, "profile": prof.n, "concretisation": prof.describe(),
                            "script": sc, "step": step, "index": i, "expected": e, "got": g},
                           "%s k=%s step %d: m[%s] (%s) spec says (x,y)=%s, mystic gives %s" % (cls, ks, step, i if name != "min" else "argmin", name, e, g[1:] if g[0] == 2 else g))
                    return False
            exp = (len(recs), tuple(prof.cx(r[0]) for r in recs), tuple(prof.cy(r[1]) for r in recs),
                   canon_ids([prof.id(r[2]) for r in recs]))
            if corrupt and step == len(sc["s"]) - 1 and recs:
                exp = (exp[0], exp[1], exp[2][:-1] + (canon(12345.5),), exp[3])
            if tgt == len(expect):
                expect.append(exp)
            else:
                expect[tgt] = exp
            for o, m in enumerate(heap):
                # objects not written by this operation: a cheap exact test first -- the repr of
                # (len, x, y, id) must be the one taken when the object was last verified (repr of
                # floats is exact, so equal repr => equal values and types => still as specified)
                if o != tgt:
                    try:
                        if repr((len(m), m.x, m.y, m.id)) == snap[o]:
                            continue
                    except Exception:
                        pass
                try:
                    got = observe(m)
                except Exception as ex:
                    got = ("raised %r" % ex, None, None, None)
                if got != expect[o]:
                    if o != tgt:
                        what = "argument-altered" if name != "call" else "other-object-altered"
                    else:
                        what = "+".join(f for f, g, e in zip(("len", "x", "y", "id"), got, expect[o]) if g != e)
                    report("mon:%s:%s:%s" % (cls, name, what),
                           {"kind": "script", "cls": cls, "profile": prof.n, "concretisation": prof.describe(),
                            "script": sc, "step": step, "object": o + 1, "written_object": tgt + 1,
                            "expected": expect[o], "got": got},
                           "%s k=%s after step %d %s: object %d (written: %d) spec says len/x/y/id=%s, mystic gives %s"
                           % (cls, ks, step, op[:7], o + 1, tgt + 1, expect[o], got))
                    return False
                r = repr((len(m), m.x, m.y, m.id))
                if o == len(snap): snap.append(r)
                else: snap[o] = r
            # i-th record through integer indexing (first and last) on the written object
            m = heap[tgt]
            if views:
                bad = check_views(m, expect[tgt])
                if bad:
                    report("mon:%s:view-%s" % (cls, bad),
                           {"kind": "script", "cls": cls, "profile": prof.n, "script": sc, "step": step, "views": True,
                            "view": bad, "expected": expect[tgt]},
                           "%s k=%s after step %d %s: view %s of object %d is not the projection of what the monitor reports %s"
                           % (cls, ks, step, op[:7], bad, tgt + 1, expect[tgt][1:]))
                    return False
            if isnull(m):
                continue
            if recs:
                for ix in (0, -1):
                    try:
                        g = m[ix]
                        g = (canon(g[0]), canon(g[1]))
                    except Exception as ex:
                        g = "raised %r" % ex
                    e = (expect[tgt][1][ix], expect[tgt][2][ix])
                    if g != e:
                        report("mon:%s:getitem-int" % cls,
                               {"kind": "script", "cls": cls, "profile": prof.n, "script": sc, "step": step,
                                "index": ix, "expected": e, "got": g},
                               "%s m[%d] after step %d: spec %s, mystic %s" % (cls, ix, step, e, g))
                        return False
        return True
    finally:
        for fn in files:
            try: os.remove(fn)
            except OSError: pass


class _Guard(object):
    """bound the damage of a runaway implementation while replaying: address space (-> MemoryError)
    and CPU time per case (-> TimeoutError); both are then reported as 'raises-...' violations"""
    MEM = 6 << 30
    SECS = 60

    def __enter__(self):
        import resource, signal
        self.old = resource.getrlimit(resource.RLIMIT_AS)
        lim = self.MEM if self.old[1] == resource.RLIM_INFINITY else min(self.MEM, self.old[1])
        resource.setrlimit(resource.RLIMIT_AS, (lim, self.old[1]))

        def on_alarm(sig, frm):
            raise TimeoutError("case did not finish within %d s" % self.SECS)
        self.oldh = signal.signal(signal.SIGVTALRM, on_alarm)
        return self

    def tick(self):
        import signal
        signal.setitimer(signal.ITIMER_VIRTUAL, self.SECS)

    def __exit__(self, *exc):
        import resource, signal
        signal.setitimer(signal.ITIMER_VIRTUAL, 0)
        signal.signal(signal.SIGVTALRM, self.oldh)
        resource.setrlimit(resource.RLIMIT_AS, self.old)
        return False


INDEX_FORMS = ("ilist", "iarray", "imask", "lmask", "tlist", "tarray", "tmask")     # Monitor.tla: IndexForms
ITEM_FORMS = ("item", "npitem")                                                      # Monitor.tla: ItemForms
SET_FORMS = ("s_ilist", "s_iarray", "s_imask", "s_lmask")                            # Monitor.tla: SetForms
COMBINE = ("add", "extend", "prepend", "setitem", "setslice", "slice", "tslice") + INDEX_FORMS + SET_FORMS


def concrete_index(np, form, sel, rot):
    """the python object of an Index(t, s, form, sel) of Monitor.tla (sel: ints, for masks 0/1);
    the integer dtype of an array is a renaming (rotation)"""
    if form in ("imask", "lmask", "tmask"):
        if any(v not in (0, 1) for v in sel):
            raise Machinery("mask with entries other than 0/1: %r" % (sel,))
        b = [bool(v) for v in sel]
        if form == "lmask":
            return b                 # (the empty mask of an empty monitor is [], the same object as an empty 'ilist')
        a = np.array(b, dtype=bool)
        return (a,) if form == "tmask" else a
    idx = [int(v) for v in sel]
    if form == "ilist": return idx
    if form == "tlist": return (idx,)
    a = np.array(idx, dtype=(np.int64, np.int32, np.intp, np.int16)[rot % 4])
    return (a,) if form == "tarray" else a


def concrete_item(np, form, i, rot):
    if form == "item": return int(i)
    return (np.int64, np.int32, np.intp, np.int8)[rot % 4](i)


def profile_for(n, np, cls, sc):
    """concretisation of one (script, class) replay.  Tuple-valued ids are not used with the verbose classes
    (they print ids) nor in scripts that index with a list/array/tuple: that branch of __getitem__ builds
    numpy.array(self._id), which cannot hold a ragged mix of None and tuples (documented ids are int or None)"""
    fancy = any(op[0] in INDEX_FORMS or op[0] in SET_FORMS or op[0] == "tslice" for op in sc["s"])
    mono = any(op[0] == "min" for op in sc["s"])
    # m[sel] = b goes through numpy.array(self._y): a cost column that holds python ints ONLY is an integer array and
    # would truncate float costs assigned into it (numpy dtype inference; __setitem__ is not named by C20): scripts with
    # such an assignment record float costs throughout (or ints throughout: kinds "int" / "monoint")
    floaty = any(op[0] in SET_FORMS for op in sc["s"])
    return Profile(n, np, tuple_ids_ok=not cls.startswith("Verbose") and not fancy, mono=mono, floaty=floaty)


def script_nontrivial(sc):
    return any((op[0] in COMBINE or op[0] == "min") and len(op[8]) > 0 for op in sc["s"])


# ----------------------------------------------------------------------------------------------
# files
def mapvals(struct, cat):
    """TLC structure of catalogue indices -> canonical concrete values"""
    if isinstance(struct, list):
        return tuple(mapvals(e, cat) for e in struct)
    return canon(cat[struct - 1])


def mapiter(it):
    return tuple(tuple(none(v) if p else v for p, v in enumerate(e)) for e in it)


def conc_record(np, rec, dim, yvec, xkind, ykind):
    xs, y, idv = rec
    xv = [XCAT[v - 1] for v in xs]
    if xkind == "tuple": x = tuple(xv)
    elif xkind == "ndarray": x = np.array([float(v) for v in xv])
    elif xkind == "scalar": x = xv[0]
    else: x = list(xv)
    if yvec:
        yv = [YCAT[v - 1] for v in y]
        if ykind == "ndarray": yy = np.array([float(v) for v in yv])
        elif ykind == "tuple": yy = tuple(yv)
        else: yy = list(yv)
    else:
        yy = YCAT[y - 1]
        if ykind == "np": yy = np.float64(yy)
    return x, yy, none(idv)


def file_kinds(j, st):
    """container kinds for trajectory number j (rotation; scalar x only for dim 1)"""
    xk = ("list", "ndarray", "tuple", "list", "scalar")[j % 5]
    if xk == "scalar" and st["dim"] != 1:
        xk = "list"
    if st["yvec"]:
        yk = ("list", "ndarray", "tuple")[(j // 5) % 3]
    else:
        yk = ("py", "py", "np")[(j // 5) % 3]
    cls = "VerboseLoggingMonitor" if j % 11 == 3 else "LoggingMonitor"
    return xk, yk, cls


def has_numpy(xk, yk):
    return xk == "ndarray" or yk in ("ndarray", "np")


def replay_file(M, G, np, st, j, report, corrupt=False):
    """one LogFile.tla state: write with the real code, read back, compare with what TLC says"""
    xk, yk, cls = file_kinds(j, st)
    k = none(st["k"])
    kclass = "k-neutral" if k in (None, 1) else "k-scaled"
    vclass = "numpy" if has_numpy(xk, yk) else "python"
    tag = "%s:%s" % (kclass, vclass)
    base = "%d_%d" % (os.getpid(), j)
    logfn = os.path.join(TMP, "log_%s.txt" % base)
    made = [logfn]
    ok = True
    info = {"kind": "file", "state": st, "j": j, "xkind": xk, "ykind": yk, "cls": cls}

    def cmp(where, symptom_of, got_fn, exp):
        """exp = (iter|None, params, cost) canonical; got_fn returns same shape"""
        try:
            with contextlib.redirect_stdout(_SINK):
                got = got_fn()
        except Exception as ex:
            report("%s:raises-%s:%s" % (where, type(ex).__name__, tag), dict(info, reader=symptom_of, error=repr(ex)),
                   "%s %s k=%s x:%s y:%s traj=%s raised %r" % (where, symptom_of, k, xk, yk, st["traj"], ex))
            return False
        good = True
        for name, g, e in zip(("iter", "params", "cost"), got, exp):
            if e is None:
                continue
            if g != e:
                report("%s:%s:%s" % (where, name, tag), dict(info, reader=symptom_of, field=name, expected=e, got=g),
                       "%s %s k=%s x:%s y:%s: %s read back as %s, specification says %s" % (where, symptom_of, k, xk, yk, name, g, e))
                good = False
                break
        return good

    try:
        kw = {} if k is None else {"k": k}
        _SINK.seek(0); _SINK.truncate()
        calls = [conc_record(np, rec, st["dim"], st["yvec"], xk, yk) for rec in st["traj"]]
        try:
            with contextlib.redirect_stdout(_SINK):
                if cls == "LoggingMonitor":
                    mon = M.LoggingMonitor(st["ival"], logfn, new=True, **kw)
                else:
                    mon = M.VerboseLoggingMonitor(st["ival"], 1, 1, logfn, new=True, **kw)
                for x, y, idv in calls:
                    if idv is None: mon(x, y)
                    else: mon(x, y, idv)
                    scribble(np, x); scribble(np, y)     # buffers re-used by the caller after the call
        except Exception as ex:
            report("mon:%s:call:raises-%s:%s" % (cls, type(ex).__name__, tag), dict(info, error=repr(ex)),
                   "%s(interval=%s, k=%s) called with x:%s y:%s traj=%s raised %r" % (cls, st["ival"], k, xk, yk, st["traj"], ex))
            return False
        # ---- three-column log
        e_it, e_par, e_cost = st["log"]
        exp = (mapiter(e_it), mapvals(e_par, XCAT), mapvals(e_cost, YCAT))
        if corrupt and exp[2]:
            exp = (exp[0], exp[1], exp[2][:-1] + (canon(12345.5),))

        def r_log():
            s, p, c = G.logfile_reader(logfn, iter=True)
            return canon_ids(s), canon(p), canon(c)

        def r_log2():
            p, c = G.logfile_reader(logfn)
            return None, canon(p), canon(c)

        def r_hist():
            s, p, c = G.read_history(logfn, iter=True)
            return canon_ids(s or []), canon(p), canon(c)
        ok &= cmp("log:logfile_reader", "logfile_reader(iter=True)", r_log, exp)
        ok &= cmp("log:logfile_reader", "logfile_reader()", r_log2, (None, exp[1], exp[2]))
        h_it, h_par, h_cost = st["hist"]
        ok &= cmp("log:read_history", "read_history(iter=True)", r_hist,
                  (mapiter(h_it), mapvals(h_par, XCAT), mapvals(h_cost, YCAT)))
        # ---- parameter files (they depend on the trajectory only: once per trajectory)
        if st["ival"] == 1 and xk != "scalar":
            for w, field in (("raw", "raw"), ("support", "sup"), ("converge", "con")):
                pf = os.path.join(TMP, "p%s_%s.py" % (w[0], base))
                made.append(pf)
                f_it, f_par, f_cost = st[field]
                exp = (mapiter(f_it), mapvals(f_par, XCAT), mapvals(f_cost, YCAT))
                try:
                    getattr(G, "write_%s_file" % w)(mon, pf)
                except Exception as ex:
                    report("file:%s:write-raises-%s:%s" % (w, type(ex).__name__, tag), dict(info, writer=w, error=repr(ex)),
                           "write_%s_file k=%s x:%s y:%s traj=%s raised %r" % (w, k, xk, yk, st["traj"], ex))
                    ok = False
                    continue
                importlib.invalidate_caches()

                def r_raw():
                    s, p, c = G.read_raw_file(pf, iter=True)
                    return canon_ids(s or []), canon(p), canon(c)

                def r_imp():
                    p, c = G.read_import(pf, "params", "cost")
                    return None, canon(p), canon(c)

                def r_his():
                    s, p, c = G.read_history(pf, iter=True)
                    return canon_ids(s or []), canon(p), canon(c)
                ok &= cmp("file:%s" % w, "read_raw_file(write_%s_file, iter=True)" % w, r_raw, exp)
                ok &= cmp("file:%s" % w, "read_import(write_%s_file,'params','cost')" % w, r_imp, (None, exp[1], exp[2]))
                if w == "support":
                    ok &= cmp("file:%s" % w, "read_history(write_support_file, iter=True)", r_his, exp)
                sys.modules.pop(os.path.splitext(os.path.basename(pf))[0], None)
        return ok
    finally:
        for fn in made:
            try: os.remove(fn)
            except OSError: pass


# ----------------------------------------------------------------------------------------------
# tasks: one TLC run each + the replay of everything it emits
def tasks_for(tier):
    T = []
    if tier == "quick":
        T.append(dict(part="slice", module="mon/MC_Monitor", cfg="MC_MonSlice_quick.cfg", env={}, classes=1))
        T.append(dict(part="script", module="mon/MC_Monitor", cfg="MC_MonScript_w3f2.cfg", env={"C20_KLO": 1, "C20_KHI": 16}, classes=2))
        for i in (1, 3):
            T.append(dict(part="index", module="mon/MC_Monitor", cfg="MC_MonIndex_quick.cfg", env={"C20_KLO": i, "C20_KHI": i + 1}, classes=2))
        for i in (3, 12):
            T.append(dict(part="script", module="mon/MC_Monitor", cfg="MC_MonScript_w0f3.cfg", env={"C20_KLO": i, "C20_KHI": i}, classes=1))
        T.append(dict(part="file", module="mon/MC_LogFile", cfg="MC_LogFile_quick.cfg", env={"C20_OSTEP": 3}))
        T.append(dict(part="sources", module="mon/MC_LogFile", cfg="MC_LogSrc_quick.cfg", env={"C20_OLO": 5, "C20_OHI": 5}))
        # numbers that take more than one digit in the log: 12 records with an id (iterations (10, 3), (11, 3)), ids 12
        T.append(dict(part="file", module="mon/MC_LogFile", cfg="MC_LogFile_long_a.cfg", env={}))
        T.append(dict(part="file", module="mon/MC_LogFile", cfg="MC_LogFile_long_b.cfg", env={}))
        T.append(dict(part="null", module="mon/MC_Monitor", cfg="MC_MonNull_quick.cfg", env={"C20_KLO": 1, "C20_KHI": 3}, classes=2, views=True))
        T.append(dict(part="set", module="mon/MC_Monitor", cfg="MC_MonSet_quick.cfg", env={"C20_KLO": 2, "C20_KHI": 2}, classes=1, views=True))
        T.append(dict(part="set", module="mon/MC_Monitor", cfg="MC_MonSet_f1.cfg", env={"C20_KLO": 1, "C20_KHI": 6}, classes=2, views=True))
    else:
        for i in (1, 4, 7):
            T.append(dict(part="null", module="mon/MC_Monitor", cfg="MC_MonNull_thorough.cfg", env={"C20_KLO": i, "C20_KHI": i + 2}, classes=2, views=True))
        for i in range(1, 7):
            T.append(dict(part="set", module="mon/MC_Monitor", cfg="MC_MonSet_quick.cfg", env={"C20_KLO": i, "C20_KHI": i}, classes=2, views=True))
        T.append(dict(part="set", module="mon/MC_Monitor", cfg="MC_MonSet_f1.cfg", env={"C20_KLO": 1, "C20_KHI": 6}, classes=4, views=True))
        for i in range(1, 17):
            T.append(dict(part="script", module="mon/MC_Monitor", cfg="MC_MonScript_w4f3.cfg", env={"C20_KLO": i, "C20_KHI": i}, classes=2))
        for i in range(1, 17, 2):
            T.append(dict(part="script", module="mon/MC_Monitor", cfg="MC_MonScript_w0f3.cfg", env={"C20_KLO": i, "C20_KHI": i + 1}, classes=2))
        for i in range(1, 17, 4):
            T.append(dict(part="script", module="mon/MC_Monitor", cfg="MC_MonScript_w5f2.cfg", env={"C20_KLO": i, "C20_KHI": i + 3}, classes=4))
        T.append(dict(part="script", module="mon/MC_Monitor", cfg="MC_MonScript_w3f2.cfg", env={"C20_KLO": 1, "C20_KHI": 16}, classes=4))
        T.append(dict(part="slice", module="mon/MC_Monitor", cfg="MC_MonSlice_thorough.cfg", env={}, classes=2))
        for i in range(1, 5):
            T.append(dict(part="index", module="mon/MC_Monitor", cfg="MC_MonIndex_thorough.cfg", env={"C20_KLO": i, "C20_KHI": i}, classes=4))
        for o in range(0, 16, 2):
            for fk in (NONE, 1, 2, -1):
                T.append(dict(part="file", module="mon/MC_LogFile", cfg="MC_LogFile_thorough.cfg",
                              env={"C20_OLO": o, "C20_OHI": o + 1, "C20_FK": fk}))
        T.append(dict(part="file", module="mon/MC_LogFile", cfg="MC_LogFile_long_a.cfg", env={}))
        T.append(dict(part="file", module="mon/MC_LogFile", cfg="MC_LogFile_long_b.cfg", env={}))
        for o, fk in ((2, NONE), (7, 1), (11, 2), (14, -1)):
            T.append(dict(part="sources", module="mon/MC_LogFile", cfg="MC_LogSrc_thorough.cfg",
                          env={"C20_OLO": o, "C20_OHI": o, "C20_FK": fk}))
    for n, t in enumerate(T):
        t["n"] = n
    return T


CLASSES = ("Monitor", "VerboseMonitor", "LoggingMonitor", "VerboseLoggingMonitor")
SCRIPT_PARTS = ("script", "slice", "index", "null", "set")


def gen(task):
    r = run_tlc(task["module"], cfg=task["cfg"], env=task["env"], workers=1, timeout=3000, heap="4g")
    return {"violated": r.violated, "generated": r.generated, "distinct": r.distinct, "depth": r.depth,
            "wall_s": r.wall_s, "tail": r.out[-3000:] if r.violated else "", "printed": r.printed}


def replay(task, res, M, G, np, seed=0, corrupt=False, max_viol=200, stop_after=None):
    """replay everything one TLC run emitted; returns a picklable summary.
    stop_after (self-test only): give up on this run's output after that many disagreements"""
    with _Guard() as guard:
        return _replay(task, res, M, G, np, seed, corrupt, max_viol, guard, stop_after)


def _replay(task, res, M, G, np, seed, corrupt, max_viol, guard, stop_after=None):
    os.makedirs(TMP, exist_ok=True)
    out = dict(n=task["n"], evaluations=0, nontrivial=0, traces=0, viols=[], more={}, samples=[], ops={}, kinds={})

    seen = {}

    def report(key, detail, what):
        seen[key] = seen.get(key, 0) + 1
        if seen[key] <= 2 and len(out["viols"]) < max_viol:
            out["viols"].append((key, detail, what))
        else:
            out["more"][key] = out["more"].get(key, 0) + 1
    printed = res["printed"]
    if task["part"] in SCRIPT_PARTS:
        ncls = task["classes"]
        for j, sc in enumerate(printed):
            g = j + 1000 * task["n"] + seed
            guard.tick()
            if stop_after is not None and sum(seen.values()) >= stop_after:
                break
            for c in range(ncls):
                # plain Monitor always; the other classes by rotation (all of them when ncls = 4)
                if c == 0: cls = "Monitor"
                elif ncls == 4: cls = CLASSES[c]
                elif ncls == 2: cls = CLASSES[1 + g % 3]
                else: cls = CLASSES[1 + (g + c) % 3]
                prof = profile_for(g + 17 * c, np, cls, sc)
                replay_script(M, np, sc, cls, prof, report, corrupt=corrupt and j == len(printed) // 2 and c == 0,
                              views=task.get("views", False))
                out["evaluations"] += 1
                out["kinds"][cls] = out["kinds"].get(cls, 0) + 1
            out["traces"] += 1
            if script_nontrivial(sc):
                out["nontrivial"] += 1
            for op in sc["s"]:
                out["ops"][op[0]] = out["ops"].get(op[0], 0) + 1
        if printed:
            sc = printed[(len(printed) * 2) // 3]
            out["samples"].append({"k_of_the_two_monitors": sc["k"],
                                   "script[op,t,a,b,i,slice,call(x,y,id),object,reported records after]": sc["s"]})
    elif task["part"] == "sources":
        H = sys.modules[__name__]
        for j, st in enumerate(printed):
            g = j + seed
            guard.tick()
            if stop_after is not None and sum(seen.values()) >= stop_after:
                break
            SRC.replay_sources(H, M, G, np, st, g, report, corrupt=corrupt and j == len(printed) - 1)
            out["evaluations"] += 1
            out["traces"] += 1
            if SRC.nontrivial(st):
                out["nontrivial"] += 1
            for kk in SRC.kinds_count(st, g):
                out["kinds"][kk] = out["kinds"].get(kk, 0) + 1
        if printed:
            st = printed[(len(printed) * 3) // 5]
            out["samples"].append({"sources state (LogFile.tla Basic)": st["b"], "expected from the other sources (More)": st["m"]})
    else:
        for j, st in enumerate(printed):
            g = j + seed
            guard.tick()
            if stop_after is not None and sum(seen.values()) >= stop_after:
                break
            replay_file(M, G, np, st, g, report, corrupt=corrupt and j == len(printed) - 1)
            out["evaluations"] += 1
            out["traces"] += 1
            if st["traj"]:
                out["nontrivial"] += 1
            xk, yk, cls = file_kinds(g, st)
            for kk in ("x:" + xk, "y:" + yk, cls):
                out["kinds"][kk] = out["kinds"].get(kk, 0) + 1
        if printed:
            st = printed[len(printed) // 2]
            out["samples"].append({"trajectory[x ids,y id,id]": st["traj"], "dim": st["dim"], "interval": st["ival"], "k": st["k"],
                                   "expected logfile_reader (iter,params,cost)": st["log"], "expected support file": st["sup"]})
    return out


def _work(args):
    task, seed = args
    M, G, np = _mods()
    res = gen(task)
    import gc
    gc.freeze()                 # the parsed TLC output is long-lived: keep it out of the collector's way
    out = replay(task, res, M, G, np, seed=seed)
    res.pop("printed")
    return task, res, out


def _mods():
    import numpy
    import mystic.monitors as M
    import mystic.munge as G
    return M, G, numpy


def check_assumptions(np):
    """the stated premise of the catalogues: k-scaling by 2 / -1 is exact on YCAT (no overflow)"""
    for y in YCAT:
        for k in (2, -1, 1):
            if canon((y * k) / k) != canon(y):
                raise RuntimeError("catalogue value %r does not survive k=%r" % (y, k))
    if len(XCAT) != NCAT or len(YCAT) != NCAT:
        raise RuntimeError("catalogue size")
    if len(set(canon(v) for v in XCAT)) != NCAT:
        raise RuntimeError("catalogue values must be distinct")


RULE = ("Monitor.tla: every operation script (Call/Slice/Index/+/extend/prepend/__setitem__ on two monitors with k in "
        "{None,1,2,-1}; warm-up calls + 2..3 free operations; Index inside scripts = m[[0,-1,0]] and m[(mask,)], in the thorough "
        "5+2 scripts also m[(array([-1,1]),)], m[array([1,1,0])], m[~mask], m[[True,False,True]]; plus every [start:stop:step] on lengths 0..3/4; plus, on lengths 0..3/4 and every k, every "
        "list of <= 3/4 indices as list / int array / 1-tuple of either, every bool mask as array / list / 1-tuple, every "
        "integer index as python / numpy integer, 5 slices inside a 1-tuple) emitted by "
        "TLC is replayed on real Monitor/VerboseMonitor/LoggingMonitor/VerboseLoggingMonitor objects and every object "
        "ever created is compared (len,x,y,id) after every operation, m[i] against the record TLC names; LogFile.tla: every trajectory (<=3/4 records, "
        "dim 1..3, scalar/vector cost, ids None/0/7(/8), interval 1..3, k, 16 catalogue offsets) is written by the real "
        "LoggingMonitor / munge.write_*_file and read back. evaluations = (script, class) and trajectory replays; "
        "a script is non-trivial if some +/extend/prepend/slice/index/__setitem__ yields a non-empty monitor, a trajectory "
        "if it has >= 1 record; each emitted script/trajectory is a distinct TLC state and counted once. Grown: MonNull = the "
        "same scripts (+ m[a:b] = b) with one variable holding monitors.Null() (3 / 9 placements of Null x k), warm-up 3 / 4 calls "
        "+ 2 free operations; MonSet = m[sel] = b for every list / int array of 1..2 indices in -3..2 and every bool mask (array / "
        "list) of length 2..3, m[a:b] = b for 7 bounds, m.min(), m[i] = b, extend on monitors of 3+2 and 2+1 records, 1 and 2 free "
        "operations, with the views ix/ax/iy/ay/get_x/get_y/get_id/_pos/_wts/pos/wts of the written object compared after every "
        "operation; LogSrc = every trajectory (<= 3 records, dim 1,2 / 1,2,4, plain or population of 1 / 2 members, scalar / vector "
        "cost, ids None/0(/7), interval 0,1,2 / 0,1,3, all True/False with best 0/1, k neutral and scaling, 1 catalogue offset per "
        "run) written by Logging/VerboseLoggingMonitor and read back through logfile_reader, read_trajectories, read_history (log "
        "name, file object, monitor, solver, every 8th: the solver's restart file, every 16th: Null()), read_monitor, _process_ids, "
        "_reduce_ids, and for interval 1 / all=True also write_raw/support/converge_file -> read_raw_file, read_history, "
        "read_support_file, read_converge_file, the four converters, the old support format, monitors._load (+ npts measure views "
        "for dim 2 / 4)")


def new_check(a):
    return Check("C20", "model_checking", a.tier, a.seed, rule=RULE)


def absorb(ck, task, res, out):
    name = "%s[%s %s]" % (task["cfg"].replace(".cfg", ""), task["part"],
                          ",".join("%s=%s" % kv for kv in sorted(task["env"].items())))
    if res["violated"]:
        ck.violation("spec:" + res["violated"], {"tlc": res["tail"], "run": name},
                     "TLC: design property %s violated in %s" % (res["violated"], name))
    ck.mc(res, name)
    ck.case(nontrivial=False, n=out["evaluations"])
    ck.nontrivial_anon += out["nontrivial"]
    ck.trace(out["traces"])
    for s in out["samples"]:
        ck.sample(s, limit=4)
    for key, detail, what in out["viols"]:
        ck.violation(key, detail, what)
    for key, n in out["more"].items():          # further occurrences of classes already written out: counted only
        kf = ck.match_known(key)
        if kf is not None:
            ck.known_hits[kf["key"]] = ck.known_hits.get(kf["key"], 0) + n
        else:
            ck.violations += n
            ck.viol_keys[key] = ck.viol_keys.get(key, 0) + n
    for d, src in ((ck.extra.setdefault("operations_replayed", {}), out["ops"]),
                   (ck.extra.setdefault("objects_and_kinds", {}), out["kinds"])):
        for k, v in src.items():
            d[k] = d.get(k, 0) + v


def explore(ck, a):
    M, G, np = _mods()
    check_assumptions(np)
    ck.exhaustive = True
    tasks = tasks_for(a.tier)
    if os.path.isdir(TMP):
        shutil.rmtree(TMP, ignore_errors=True)
    os.makedirs(TMP, exist_ok=True)
    try:
        jobs = max(1, min(a.jobs, len(tasks), 6 if a.tier == "quick" else 16))
        if jobs > 1:
            import multiprocessing as mp
            ctx = mp.get_context("fork")
            with ctx.Pool(jobs, maxtasksperchild=1) as pool:
                # big tasks first
                order = sorted(tasks, key=lambda t: (t["part"] not in ("script", "index", "set"), t["n"]))
                for task, res, out in pool.imap_unordered(_work, [(t, a.seed) for t in order]):
                    absorb(ck, task, res, out)
        else:
            for t in tasks:
                task, res, out = _work((t, a.seed))
                absorb(ck, task, res, out)
    finally:
        shutil.rmtree(TMP, ignore_errors=True)
    missing = [o for o in ("call", "slice", "tslice", "add", "extend", "prepend", "setitem", "setslice", "min") + INDEX_FORMS + ITEM_FORMS + SET_FORMS
               if not ck.extra.get("operations_replayed", {}).get(o)]
    if missing:
        raise RuntimeError("vacuous run: operations never emitted by TLC: %s" % missing)
    kinds = ck.extra.get("objects_and_kinds", {})
    missing = [kk for kk in ("rec:plain", "rec:pop1", "rec:pop2", "rec:pop2:best1", "interval:0", "interval:1") if not kinds.get(kk)]
    if missing:
        raise RuntimeError("vacuous run: record shapes / intervals never emitted by TLC: %s" % missing)
    ck.extra["observations"] = [
        "monitors._load(path, monitor, verbose=True) records the file INTO the given monitor and then extends the monitor with "
        "itself: every record twice when the monitor's k is None; with k set monitor.extend(monitor) iterates the list it is "
        "appending to and never terminates (MemoryError). With verbose=False the given monitor is ignored and a new one is "
        "returned. Not bound (undocumented arguments of a private helper without callers); not a violation",
        "Monitor.__setitem__ with a list/array index assigns through numpy.array(self._y) / numpy.array(self._id): a cost "
        "column of python ints only silently truncates float costs assigned into it, an all-integer id column raises "
        "TypeError on a None id, an empty selection with an empty/Null argument raises a shape error. __setitem__ is not "
        "named by C20; the scripts stay inside the element-wise, dtype-compatible cases",
        "munge._process_ids(id, 0) returns the bare id, so read_history(solver with an id, iter=True) on an empty history "
        "returns that integer instead of an id list; _reduce_ids looks at the FIRST entry only to tell (iteration,) from "
        "(iteration, id) tuples, so on a log whose first record has no id but a later one has, every id comes back None"]
    ck.extra["catalogue_x"] = [repr(v) for v in XCAT]
    ck.extra["catalogue_y"] = [repr(v) for v in YCAT]
    ck.assumptions = [
        "ids -> values is an injective renaming chosen by the harness (catalogues above; containers list/tuple/ndarray/"
        "numpy scalar by rotation); every expected position/structure comes from TLC",
        "cost catalogue avoids |y| > max/2: k*y must not overflow for k=2 (k in {None,1,2,-1}: scaling by powers of two "
        "and -1 is exact in IEEE arithmetic, as it is on the specification's integers)",
        "m.extend(m)/m.prepend(m) (monitor passed to itself) are outside the statement; __setitem__ is modelled as the code "
        "behaves and only between monitors of equal effective k; ids in files are int or None as documented",
        "__getitem__ forms: integer (python/numpy), slice, list of ints, numpy int array (int8..int64 by rotation), bool "
        "mask (array or list) of the monitor's length, and the 1-tuples holding a list / int array / mask / slice (a record "
        "selector whatever the rank of x and y) are modelled; only selections numpy accepts (indices in -len..len-1, mask "
        "of length len). Left out: tuples of length >= 2 (m[rows, cols] indexes INTO the parameter vectors -- the statement "
        "says nothing about projections -- and when the tuple's length is not the rank of the stored array the code uses "
        "its first element only), the 1-tuple holding an integer (AttributeError in the code), out-of-range selections "
        "(IndexError). Scripts that index with a list/array/tuple use int/None ids only: that branch goes through "
        "numpy.array(self._id), which raises on a mix of None and tuple-valued ids and returns tuple ids as lists",
        "equality is exact on the double (nan == nan, -0.0 != 0.0, int 7 == 7.0); containers compared by structure "
        "(list/tuple/ndarray interchangeable); a scalar parameter x is read back from a log as [x]",
        "Null: as receiver every operation is a no-op and a slice/index returns Null; Null() + m (TypeError) and m[sel] = Null "
        "with a list/array selection (numpy shape error) are not enabled; the harness passes a Null ARGUMENT alternately as the "
        "instance Null() and as the class Null",
        "m[sel] = b is modelled where numpy assignment is element-wise: len(b) = number of selected positions >= 1, no repeated "
        "position, equal effective k, and ids that fit the dtype numpy infers (an all-integer id column cannot take None: "
        "TypeError in the code); scripts with such an assignment record float costs throughout (a cost column of python ints "
        "only is an integer array and would truncate floats assigned into it); m[a:b] = b only with step None; m.min() on "
        "non-empty monitors with scalar, comparable costs (order-preserving catalogue -inf, -8.9e307, -5e-324, +-0.0, 5e-324, "
        "8.9e307, inf); views _pos/_wts/pos/wts are None without npts and compared with TLC's index lists / projections on "
        "monitors loaded from a support file with npts (equal block sizes only, as tools.measure_indices assumes)",
        "all=False is bound for population-valued records only (on a plain record the code would index into the vector); "
        "interval 0 / None means never; population members are vectors (a population of scalars is a plain vector)",
        "read_history(solver) is bound for k in {None, 1}: a solver's energy_history is its monitor's STORED cost by design; an "
        "empty trajectory may come back with no id list at all (None, [], a solver's bare id)",
        "monitors._load is bound on support-layout files (write_support_file, raw_to_support_converter output); on a raw file of "
        "plain records it raises TypeError by construction; only _load(path) is bound: the (monitor, verbose) arguments of "
        "this private helper are undocumented (see observations)",
        "klepto archives / caches and legacydata datasets as read_history sources are importable here (klepto 0.2.8) but not "
        "bound: they are keyed mappings / point sets, not recorded sequences (no order, ids or duplicates to give back); "
        "CustomMonitor and _info are not covered"]


# ----------------------------------------------------------------------------------------------
def _patch_source(obj, name, old, new, glob):
    """re-define method `name` of class obj with `old` replaced by `new` in its source (in memory)"""
    src = textwrap.dedent(inspect.getsource(getattr(obj, name)))
    if old not in src:
        raise RuntimeError("selftest: pattern %r not found in %s.%s" % (old, obj.__name__, name))
    ns = {}
    exec(compile(src.replace(old, new), "<mutant %s.%s>" % (obj.__name__, name), "exec"), glob, ns)
    setattr(obj, name, ns[name])


def selftest(a):
    M, G, np = _mods()
    import mystic.tools as T
    check_assumptions(np)
    a.tier = "quick"
    tasks = tasks_for("quick")
    os.makedirs(TMP, exist_ok=True)
    results = [(t, gen(t)) for t in tasks]

    def run(corrupt=False, stop_after=None, parts=None):
        keys = {}
        for t, res in results:
            if parts is not None and t["part"] not in parts:
                continue
            out = replay(t, res, M, G, np, seed=a.seed, corrupt=corrupt, stop_after=stop_after)
            for key, _, _ in out["viols"]:
                keys[key] = keys.get(key, 0) + 1
            for key, n in out["more"].items():
                keys[key] = keys.get(key, 0) + n
        return keys

    base = run()
    print("SELFTEST baseline (unchanged tree) violation classes: %s" % (sorted(base) or "none"))

    def m_prepend_reversed():
        def prepend(self, monitor):
            for v in monitor._x: self._x.insert(0, v)
            for v in list(self._get_y(monitor)): self._y.insert(0, v)
            for v in monitor._id: self._id.insert(0, v)
        M.Monitor.prepend = prepend

    def m_k_twice_on_extend():
        def _get_y(self, monitor):      # re-applies self.k to costs that already carry the argument's k
            return list(self._k(monitor._y, iter))
        M.Monitor._get_y = _get_y

    def m_add_mutates_left():
        def __add__(self, monitor):
            self.extend(copy.deepcopy(monitor))      # (a copy: m.extend(m) itself never terminates)
            return copy.deepcopy(self)
        M.Monitor.__add__ = __add__

    def m_slice_drops_last():
        orig = M.Monitor.__getitem__
        def __getitem__(self, y):
            m = orig(self, y)
            if isinstance(y, slice):
                m._x, m._y, m._id = m._x[:-1], m._y[:-1], m._id[:-1]
            return m
        M.Monitor.__getitem__ = __getitem__

    def m_call_forgets_k():
        M.Monitor._k = lambda self, y, type=list: y

    def m_extend_ids_lost():
        _patch_source(M.Monitor, "extend", "self._id.extend(monitor._id)", "self._id.extend([None]*len(monitor._id))", M.__dict__)

    def m_log_separator():
        _patch_source(M.LoggingMonitor, "__call__", '"  %s     %s   %s\\n"', '"  %s  %s  %s\\n"', M.__dict__)

    def m_log_precision():
        _patch_source(M.LoggingMonitor, "__call__", 'y = "%s" % self._ik(self._y[-1], k)',
                      'y = ("%.6g" % self._ik(self._y[-1], k)) if not hasattr(self._y[-1], "__len__") else "%s" % self._ik(self._y[-1], k)', M.__dict__)

    def m_log_iteration_from_one():
        _patch_source(M.LoggingMonitor, "__call__", "step = [self._step-1]", "step = [self._step]", M.__dict__)

    def m_support_not_transposed():
        G.converge_to_support = lambda steps, energy: (steps, energy)

    def m_rawfile_cost_repr():
        rnd = "[float('%%.12g' %% e) if isinstance(e, float) and e == e and abs(e) != float('inf') else e for e in %s]"
        src = inspect.getsource(G.write_raw_file)
        for expr in ("_plain(energy)", "energy"):         # (with / without the repo's numpy-values fix)
            old = "f.write('cost = %s\\n' % " + expr + ")"
            if old in src:
                return _patch_source(G, "write_raw_file", old, "f.write('cost = %s\\n' % " + rnd % expr + ")", G.__dict__)
        raise RuntimeError("selftest: the line writing 'cost = ...' not found in munge.write_raw_file")

    # ---- the indexing forms of __getitem__ other than the slice
    def m_list_index_unscaled():
        # the list/array branch builds the new stored costs from the PUBLIC cost array (k divided out)
        _patch_source(M.Monitor, "__getitem__", "m._y = numpy.array(self._y)[y].tolist()", "m._y = self.ay[y].tolist()", M.__dict__)

    def m_tuple_index_unscaled():
        _patch_source(M.Monitor, "__getitem__", "m._y = numpy.array(self._y)[y if nn == ny else y[0]].tolist()",
                      "m._y = self.ay[y if nn == ny else y[0]].tolist()", M.__dict__)

    def m_list_index_sorted():
        orig = M.Monitor.__getitem__
        def __getitem__(self, y):
            if type(y) is list and not any(isinstance(v, bool) for v in y):
                y = sorted(v % len(self) for v in y)
            elif type(y) is np.ndarray and y.dtype != bool:
                y = np.sort(y % len(self)) if len(y) else y
            return orig(self, y)
        M.Monitor.__getitem__ = __getitem__

    def m_list_index_dedup():
        orig = M.Monitor.__getitem__
        def __getitem__(self, y):
            if type(y) is list and not any(isinstance(v, bool) for v in y):
                y = [v for j, v in enumerate(y) if v not in y[:j]]
            return orig(self, y)
        M.Monitor.__getitem__ = __getitem__

    def m_mask_inverted():
        orig = M.Monitor.__getitem__
        def __getitem__(self, y):
            if type(y) is np.ndarray and y.dtype == bool:
                y = ~y
            return orig(self, y)
        M.Monitor.__getitem__ = __getitem__

    def m_index_ids_not_selected():
        _patch_source(M.Monitor, "__getitem__", "m._id = numpy.array(self._id)[y].tolist()", "m._id = self._id[:len(m._x)]", M.__dict__)

    def m_tuple_index_ids_not_selected():
        _patch_source(M.Monitor, "__getitem__", "m._id = numpy.array(self._id)[y if nn == ni else y[0]].tolist()",
                      "m._id = self._id[:len(m._x)]", M.__dict__)

    def m_index_alters_source():
        # the selection is taken out of the indexed monitor (it keeps only what was not selected)
        orig = M.Monitor.__getitem__
        def __getitem__(self, y):
            m = orig(self, y)
            if type(y) in (list, np.ndarray, tuple) and len(self):
                gone = set(np.arange(len(self._x))[y[0] if type(y) is tuple else y].tolist())
                keep = [j for j in range(len(self._x)) if j not in gone]
                self._x[:] = [self._x[j] for j in keep]; self._y[:] = [self._y[j] for j in keep]
                self._id[:] = [self._id[j] for j in keep]
            return m
        M.Monitor.__getitem__ = __getitem__

    def m_index_drops_k():
        orig = M.Monitor.__getitem__
        def __getitem__(self, y):
            m = orig(self, y)
            if type(y) in (list, np.ndarray, tuple):
                m.k = None
            return m
        M.Monitor.__getitem__ = __getitem__

    def m_npint_item_positive_only():
        # numpy integers are not recognised as integers when negative: m[np.int64(-1)] -> first record
        orig = M.Monitor.__getitem__
        def __getitem__(self, y):
            if isinstance(y, np.integer) and y < 0:
                y = 0
            return orig(self, y)
        M.Monitor.__getitem__ = __getitem__

    def m_int_item_cost_scaled():
        _patch_source(M.Monitor, "__getitem__", "return self.x[y],self.y[y]", "return self.x[y],self._y[y]", M.__dict__)

    # ---- Null, m[sel] = b, min(), views; interval / all=False; the other sources, converters, _load
    MON, LOG = ("null", "set"), ("file", "sources")

    def m_null_extend_appends():
        # a Null argument of extend is taken for a monitor that holds one (zero) record
        def extend(self, monitor, _orig=M.Monitor.extend):
            if T.isNull(monitor):
                monitor = M.Monitor(); monitor([0.0], 0.0)
            return _orig(self, monitor)
        M.Monitor.extend = extend

    def m_setitem_null_noop():
        _patch_source(M.Monitor, "__setitem__", "y = Monitor()\n", "return\n", M.__dict__)

    def m_add_null_gives_empty():
        # (not "returns self": with two variables on one object a later m.extend(m) would never terminate)
        def __add__(self, monitor, _orig=M.Monitor.__add__):
            if T.isNull(monitor):
                return self[0:0]
            return _orig(self, monitor)
        M.Monitor.__add__ = __add__

    def m_setsel_reversed():
        _patch_source(M.Monitor, "__setitem__", "x[i] = y._y\n", "x[i] = y._y[::-1]\n", M.__dict__)

    def m_min_over_stored():
        M.Monitor.min = lambda self: self[int(np.argmin(np.array(self._y)))]

    def m_ay_not_unscaled():
        M.Monitor.ay = property(lambda self: np.asarray(self._y))

    def m_interval_off_by_one():
        _patch_source(M.LoggingMonitor, "__call__", "int((self._step-1) % self._yinterval) == 0", "int(self._step % self._yinterval) == 0", M.__dict__)

    def m_best_is_worst():
        _patch_source(M.LoggingMonitor, "__call__", 'y = "%s" % self._ik(self._y[-1][best], k)', 'y = "%s" % self._ik(self._y[-1][best-1], k)', M.__dict__)

    def m_best_x_ignored():
        _patch_source(M.LoggingMonitor, "__call__", "xb = self._x[-1][best]", "xb = self._x[-1][0]", M.__dict__)

    def m_read_monitor_drops_last():
        def read_monitor(mon, id=False, _orig=G.read_monitor):
            r = _orig(mon, id)
            return tuple(v[:-1] for v in r)
        G.read_monitor = read_monitor

    def m_read_monitor_stored_cost():
        _patch_source(G, "read_monitor", "energy = mon.y[:]", "energy = mon._y[:]", G.__dict__)

    def m_read_trajectories_stored_cost():
        _patch_source(G, "read_trajectories", "param, cost = source.x, source.y", "param, cost = source.x, source._y", G.__dict__)

    def m_converter_swaps_columns():
        _patch_source(G, "raw_to_support_converter", "steps, energy = read_raw_file(file_in)",
                      "steps, energy = read_raw_file(file_in); steps = [s[::-1] for s in steps]", G.__dict__)

    def m_converter_double_conversion():
        # (the defect repaired in /repo e2b2202) the converter reads its converge-format input with read_converge_file,
        # which has already reverted the layout
        src = inspect.getsource(G.converge_to_support_converter)
        old = "steps, energy = read_raw_file(file_in)"
        if old not in src:
            raise RuntimeError("selftest: converge_to_support_converter does not read its input with read_raw_file")
        _patch_source(G, "converge_to_support_converter", old, "steps, energy = read_converge_file(file_in)", G.__dict__)

    def m_reduce_ids_iteration():
        _patch_source(G, "_reduce_ids", "ids = [i[-1] for i in ids]", "ids = [i[0] for i in ids]", G.__dict__)

    def m_load_last_member():
        _patch_source(M, "_load", "(list(zip(*i))[0] for i in zip(*params))", "(list(zip(*i))[-1] for i in zip(*params))", M.__dict__)

    def m_solver_history_monitor_ids():
        # read_history(solver) numbers the records per monitor id instead of using the solver's one id
        _patch_source(G, "read_history", "if iter: ids = _process_ids(source.id, len(cost))\n        else:",
                      "if iter: ids = _process_ids(source._stepmon.id or None, len(cost))\n        else:", G.__dict__)

    def m_read_support_file_plain():
        # read_support_file returns the file's params as they are
        G.read_support_file = lambda file_in, iter=False: ((lambda d: (d[0], (d[1], d[2])))(G.read_raw_file(file_in, True)) if iter
                                                          else tuple(G.read_raw_file(file_in)))

    new_mutants = [("extend(Null) appends a record", m_null_extend_appends, MON),
                   ("m[i] = Null is a no-op (record not removed)", m_setitem_null_noop, MON),
                   ("m + Null gives an empty monitor", m_add_null_gives_empty, MON),
                   ("m[sel] = b assigns b's costs in reverse order", m_setsel_reversed, MON),
                   ("min() minimises the stored (k-scaled) cost", m_min_over_stored, MON),
                   ("view ay is the stored cost (k not divided out)", m_ay_not_unscaled, MON),
                   ("LoggingMonitor interval off by one (writes calls 1, 1+interval, ...)", m_interval_off_by_one, LOG),
                   ("all=False writes the cost of another member than `best`", m_best_is_worst, LOG),
                   ("all=False writes the parameters of member 0 whatever `best`", m_best_x_ignored, LOG),
                   ("read_monitor drops the last record", m_read_monitor_drops_last, LOG),
                   ("read_monitor returns the stored (k-scaled) cost", m_read_monitor_stored_cost, LOG),
                   ("read_trajectories(monitor) returns the stored cost", m_read_trajectories_stored_cost, LOG),
                   ("raw_to_support_converter reverses the coordinates / members of every record", m_converter_swaps_columns, LOG),
                   ("converge_to_support_converter converts what read_converge_file already reverted", m_converter_double_conversion, LOG),
                   ("_reduce_ids returns the iteration numbers", m_reduce_ids_iteration, LOG),
                   ("_load records the last member of a population", m_load_last_member, LOG),
                   ("read_history(solver) takes the ids of the monitor", m_solver_history_monitor_ids, LOG),
                   ("read_support_file does not convert", m_read_support_file_plain, LOG)]
    mutants = [("list/array index: new monitor built from the public cost array self.ay (k divided out)", m_list_index_unscaled),
               ("1-tuple index: new monitor built from self.ay", m_tuple_index_unscaled),
               ("list/array index sorts the selection", m_list_index_sorted),
               ("list index drops repeated entries", m_list_index_dedup),
               ("bool mask inverted", m_mask_inverted),
               ("list/array index: ids not selected (first len ids kept)", m_index_ids_not_selected),
               ("1-tuple index: ids not selected", m_tuple_index_ids_not_selected),
               ("list/array/tuple index removes the selected records from the indexed monitor", m_index_alters_source),
               ("list/array/tuple index loses k", m_index_drops_k),
               ("negative numpy-integer index returns the first record", m_npint_item_positive_only),
               ("integer index returns the stored (k-scaled) cost", m_int_item_cost_scaled),
               ("prepend reverses the record order", m_prepend_reversed),
               ("k applied twice on extend/prepend/+", m_k_twice_on_extend),
               ("+ mutates its left argument", m_add_mutates_left),
               ("slice drops the last selected record", m_slice_drops_last),
               ("__call__ stores the cost without k", m_call_forgets_k),
               ("extend loses the argument's ids", m_extend_ids_lost),
               ("log writer uses a two-space separator", m_log_separator, LOG),
               ("log writer prints costs with %.6g", m_log_precision, LOG),
               ("log writer numbers iterations from 1", m_log_iteration_from_one, LOG),
               ("support layout not transposed", m_support_not_transposed, LOG),
               ("write_raw_file rounds costs to 12 digits", m_rawfile_cost_repr, LOG)] + new_mutants
    # every run in its own forked process: mutations cannot leak, and the runs go in parallel
    import multiprocessing as mp
    ctx = mp.get_context("fork")
    jobs_ = [("mutant", i) for i in range(len(mutants))] + [("corrupt", None)]

    def one(job, q):
        kind, i = job
        try:
            if kind == "mutant":
                mutants[i][1]()
                try:
                    # (a mutant that is noticed is noticed often: each TLC run's output is left after 300
                    # disagreements; a mutant that is MISSED has been replayed on everything)
                    # (a mutant of the monitor operations is replayed on the script runs, one of the log / file code on the
                    # trajectory runs: the other half cannot notice it)
                    keys = run(stop_after=300, parts=mutants[i][2] if len(mutants[i]) > 2 else SCRIPT_PARTS)
                except Machinery:
                    raise
                except Exception as ex:
                    keys = {"mutant-raised:%r" % ex: 1}
            else:
                keys = run(corrupt=True)
            q.put((job, keys, None))
        except BaseException as ex:
            q.put((job, None, repr(ex)))

    missed = 0
    try:
        q = ctx.Queue()
        pending = list(jobs_)
        running = []
        got = {}
        width = max(1, min(a.jobs, 8))
        while pending or running:
            while pending and len(running) < width:
                job = pending.pop(0)
                pr = ctx.Process(target=one, args=(job, q))
                pr.start()
                running.append(pr)
            job, keys, err = q.get()
            got[job] = (keys, err)
            for pr in running:
                pr.join(timeout=0.05)
            running = [pr for pr in running if pr.is_alive()]
        for (kind, i) in jobs_:
            keys, err = got[(kind, i)]
            if err is not None:
                raise Machinery("selftest run %s failed: %s" % ((kind, i), err))
            if kind == "mutant":
                new = sorted(k for k in keys if k not in base)
                print("SELFTEST %s: %s (%d new violation classes, e.g. %s)" % (
                    mutants[i][0], "caught" if new else "MISSED", len(new), new[:3]))
                missed += 0 if new else 1
            else:
                new = sorted(k for k in keys if keys[k] > base.get(k, 0))
                print("SELFTEST corrupted expected value from TLC (one script, one trajectory): %s (%s)" % (
                    "caught" if len(new) >= 2 else "MISSED", new[:4]))
                missed += 0 if len(new) >= 2 else 1
    finally:
        shutil.rmtree(TMP, ignore_errors=True)
    return 1 if missed else 0


def replay_artifact(a):
    """bin/check C20 --replay out/C20/replay_xxx.json : re-run the stored case on the current tree"""
    M, G, np = _mods()
    art = json.load(open(a.replay))
    d = art["detail"]
    os.makedirs(TMP, exist_ok=True)
    hits = []
    rep = lambda key, detail, what: hits.append((key, what))
    try:
        if d.get("kind") == "script":
            cls = d["cls"]
            prof = profile_for(d["profile"], np, cls, d["script"])
            replay_script(M, np, d["script"], cls, prof, rep, views=bool(d.get("views")))
        elif d.get("kind") == "file":
            replay_file(M, G, np, d["state"], d["j"], rep)
        elif d.get("kind") == "sources":
            SRC.replay_sources(sys.modules[__name__], M, G, np, d["state"], d["j"], rep)
        else:
            print("artefact has no replayable case (key %s)" % art.get("key")); return 2
    finally:
        shutil.rmtree(TMP, ignore_errors=True)
    for key, what in hits:
        print("VIOLATION property=C20 replay=%s\n  %s: %s" % (a.replay, key, what[:600]))
    if not hits:
        print("replay: the stored case no longer disagrees with the specification")
    return 1 if hits else 0


def main():
    a = tier_seed()
    assert_repo()
    import warnings
    warnings.simplefilter("ignore")
    if a.replay:
        return replay_artifact(a)
    if a.selftest:
        return selftest(a)
    ck = new_check(a)
    explore(ck, a)
    return ck.finish()


if __name__ == "__main__":
    main_guard(main)
