"""C10 -- termination conditions mean what they say, alone and in combination.

spec -> code: TLC enumerates every reachable state of term/TermMachine (energy histories),
term/TermPop (populations) and term/TermTree (And/Or/When trees x leaf valuations), checks the
design invariants on each, and emits the state with the verdict the specification gives.  The
harness rebuilds each state as a stub solver, applies the *real* mystic.termination objects and
compares: truth value, info (set of docs), info='self', and the same for the condition rebuilt from
its reported state/type.
"""
import sys, itertools, random
from harness.core import Check, tier_seed, assert_repo, main_guard
from harness.tlc import run_tlc

INF = 1000000
NONE = -1


def f(v):
    return float("inf") if v == INF else float(v)


def tol(t):
    return t[0] / t[1]


def none(v):
    return None if v == NONE else v


class Stub(object):
    """exactly the attributes termination conditions read"""
    def __init__(self, hist=(), gens=0, fcalls=0, exitreq=False, pop=None, popE=None, best=None, trial=None):
        self.energy_history = [f(e) for e in hist]
        self.generations = gens
        self._fcalls = [fcalls]
        self._EARLYEXIT = exitreq
        if pop is not None:
            self.population = [[float(x) for x in p] for p in pop]
            self.popEnergy = [f(e) for e in popE]
            self.bestSolution = [float(x) for x in best]
            self.trialSolution = trial


def build(mt, c):
    k = c["k"]
    if k == "VTR":
        return mt.VTR(tolerance=tol(c["tol"]), target=float(c["t"]))
    if k == "COG":
        return mt.ChangeOverGeneration(tolerance=tol(c["tol"]), generations=none(c["g"]))
    if k == "NCOG":
        return mt.NormalizedChangeOverGeneration(tolerance=tol(c["tol"]), generations=none(c["g"]))
    if k == "NCT":
        fv = none(c["t"])
        return mt.NormalizedCostTarget(fval=None if fv is None else float(fv), tolerance=tol(c["tol"]),
                                       generations=none(c["g"]))
    if k == "VTRCOG":
        return mt.VTRChangeOverGeneration(ftol=tol(c["tol"]), gtol=tol(c["tol2"]), generations=none(c["g"]),
                                          target=float(c["t"]))
    if k == "EL":
        return mt.EvaluationLimits(generations=none(c["g"]), evaluations=none(c["t"]))
    if k == "SI":
        return mt.SolverInterrupt()
    raise ValueError(k)


def rebuild(mt, cond):
    """a condition rebuilt from its reported type and state"""
    if isinstance(cond, tuple):
        return mt.type(cond)(*[rebuild(mt, m) for m in cond])
    st = mt.state(cond)
    assert len(st) == 1, st
    return mt.type(cond)(**list(st.values())[0])


def docs(info):
    return set(x for x in info.split("; ") if x) if isinstance(info, str) else info


def new_check(a):
    return Check("C10", "model_checking", a.tier, a.seed,
               rule="every reachable state of the TLA+ machines TermMachine (energy histories), TermPop "
                    "(populations) and TermTree (And/Or/When trees x leaf valuations) is replayed on the real "
                    "mystic.termination objects; a case = (state, condition); non-trivial = the spec says the "
                    "condition is satisfied on a non-empty history/population, or the tree is compound")


def sec_histories(ck, mt, a):
    thorough = a.tier == "thorough"
    import warnings
    warnings.simplefilter("ignore")
    # ---------------------------------------------------------------- histories
    r = run_tlc("term/MC_TermThorough" if thorough else "term/MC_TermQuick", workers=1, timeout=3000)
    if r.violated:
        ck.violation("spec:" + r.violated, {"tlc": r.out[-4000:]}, "TLC: design invariant %s violated in TermMachine" % r.violated)
    ck.mc(r, "TermMachine")
    cat = r.printed[0]["catalogue"]
    conds = [build(mt, c) for c in cat]
    reb = [rebuild(mt, c) for c in conds]
    for st in r.printed[1:]:
        s = Stub(st["hist"], st["gens"], st["fcalls"], st["exit"])
        sat = set(st["sat"])
        for i, c in enumerate(conds, 1):
            exp = i in sat
            try:
                got = c(s)
                info = c(s, True)
                got2 = reb[i - 1](s)
            except Exception as ex:
                got, info, got2 = "raised %r" % ex, "", None
            ok = (got is exp or got == exp) and (info == (c.__doc__ if exp else "")) and got2 == got
            ck.case(nontrivial=exp and len(st["hist"]) > 0, key=("h", i, tuple(st["hist"]), st["exit"]))
            if not ok:
                ck.violation("prim:%s" % cat[i - 1]["k"],
                             {"condition": cat[i - 1], "doc": c.__doc__, "state": st, "expected": exp,
                              "got": got, "info": info, "rebuilt": got2},
                             "%s on history %s: spec says %s, mystic says %r (info %r, rebuilt %r)" % (
                                 c.__doc__, s.energy_history, exp, got, info, got2))
        ck.trace()
    ck.sample({"history": r.printed[7]["hist"], "satisfied": [cat[i - 1] for i in r.printed[7]["sat"][:3]]})

def sec_populations(ck, mt, a):
    thorough = a.tier == "thorough"
    import warnings
    warnings.simplefilter("ignore")
    # ---------------------------------------------------------------- populations
    r = run_tlc("term/MC_TermPop", cfg="MC_TermPop_thorough.cfg" if thorough else "MC_TermPop.cfg", workers=1, timeout=3000)
    if r.violated:
        ck.violation("spec:" + r.violated, {"tlc": r.out[-4000:]}, "TLC: design invariant %s violated in TermPop" % r.violated)
    ck.mc(r, "TermPop")
    tols = r.printed[0]["tols"]
    T = [tol(t) for t in tols]
    crt = {(i, j): mt.CandidateRelativeTolerance(xtol=T[i], ftol=T[j]) for i in range(len(T)) for j in range(len(T))}
    spread = [mt.PopulationSpread(tolerance=t) for t in T]
    simp = [mt.SolutionImprovement(tolerance=t) for t in T]
    import io, contextlib
    for st in r.printed[1:]:
        pop, popE = st["pop"], st["popE"]
        trial = [[float(x) for x in p] for p in pop] if st["tp"] else [float(x) for x in pop[-1]]
        s = Stub(pop=pop, popE=popE, best=pop[0], trial=trial)
        exp_crt = set(tuple(x) for x in st["v"]["crt"])
        for (i, j), c in crt.items():
            exp = (i + 1, j + 1) in exp_crt
            with contextlib.redirect_stdout(io.StringIO()):
                got = bool(c(s))
                got2 = bool(rebuild(mt, c)(s)) if (i + j) % 3 == 0 else got
            ck.case(nontrivial=exp and len(pop) > 1, key=("crt", i, j, str(pop), str(popE)))
            if got != exp or got2 != exp:
                ck.violation("pop:CRT", {"state": st, "xtol": T[i], "ftol": T[j], "expected": exp, "got": got},
                             "CandidateRelativeTolerance(%s,%s) pop=%s popE=%s: spec %s mystic %s" % (T[i], T[j], pop, popE, exp, got))
        for name, lst, key in (("PopulationSpread", spread, "spread"), ("SolutionImprovement", simp, "simp")):
            expset = set(st["v"][key])
            for i, c in enumerate(lst):
                exp = (i + 1) in expset
                got = bool(c(s))
                info = c(s, True)
                ck.case(nontrivial=exp, key=(key, i, str(pop), st["tp"]))
                if got != exp or info != (c.__doc__ if exp else ""):
                    ck.violation("pop:" + name, {"state": st, "tol": T[i], "expected": exp, "got": got},
                                 "%s(%s) pop=%s trialIsPop=%s: spec %s mystic %s" % (name, T[i], pop, st["tp"], exp, got))
        ck.trace()
    ck.sample({"population": r.printed[9]["pop"], "energies": r.printed[9]["popE"], "verdicts": r.printed[9]["v"]})

def sec_trees(ck, mt, a, part=0, parts=1):
    thorough = a.tier == "thorough"
    import warnings
    warnings.simplefilter("ignore")
    # ---------------------------------------------------------------- trees
    r = run_tlc("term/TermTree", cfg="MC_TermTree_thorough.cfg" if thorough else "MC_TermTree_quick.cfg",
                workers=1, timeout=3000, heap="6g", env={"TREE_PARTS": str(parts), "TREE_PART": str(part)})
    if r.violated:
        ck.violation("spec:" + r.violated, {"tlc": r.out[-4000:]}, "TLC: design property %s violated in TermTree" % r.violated)
    ck.mc(r, "TermTree" if parts == 1 else "TermTree[part %d/%d]" % (part + 1, parts))
    # two independent families of leaves; each leaf's truth is controlled by one stub attribute
    families = [
        lambda: [mt.VTR(0.5, 0.0), mt.EvaluationLimits(generations=2), mt.SolverInterrupt()],
        lambda: [mt.ChangeOverGeneration(0.5, 1), mt.EvaluationLimits(evaluations=7), mt.NormalizedCostTarget(5.0, 0.0, 0)],
    ]

    def stub_for(fam, val):
        if fam == 0:
            return Stub([9, 0] if val[0] else [9, 5], gens=5 if val[1] else 0, fcalls=0, exitreq=val[2])
        # fam 1: COG(0.5,1): hist[-1]-hist[-1]=0 <= .5 always true when len>1 -> control by length
        #        NCT(fval=5,tol=0): hist[-1]==5
        h = [5 if val[2] else 3]
        if val[0]:
            h = [7] + h
        return Stub(h, gens=0, fcalls=9 if val[1] else 0, exitreq=False)

    rng = random.Random(a.seed)
    ntree = 0
    for st in r.printed:
        fam = ntree % 2
        ntree += 1
        leaves = families[fam]()
        ldocs = [l.__doc__ for l in leaves]

        def mk(t):
            if t["op"] == "L":
                return leaves[t["i"] - 1]
            kids = [mk(k) for k in t["kids"]]
            return {"And": mt.And, "Or": mt.Or, "When": mt.When}[t["op"]](*kids)

        def show(t):
            return "L%d" % t["i"] if t["op"] == "L" else "%s(%s)" % (t["op"], ",".join(show(k) for k in t["kids"]))
        tree = st["tree"]
        val = st["val"]
        s = stub_for(fam, val)
        # sanity of the harness itself: leaves must have the valuation asked for
        lv = [bool(l(s)) for l in leaves]
        if lv != val:
            raise RuntimeError("harness leaf control broken: fam %d val %s got %s" % (fam, val, lv))
        compound = tree["op"] != "L"
        ck.case(nontrivial=compound, key=("t", show(tree), tuple(val), fam))
        try:
            c = mk(tree)
        except Exception as ex:
            ck.violation("tree:construct", {"tree": show(tree), "error": repr(ex)}, "cannot build %s: %r" % (show(tree), ex))
            continue
        exp_info = set(ldocs[i - 1] for i in st["info"])
        try:
            got = bool(c(s))
            info = docs(c(s, True))
            rb = rebuild(mt, c)
            got_rb = bool(rb(s))
            info_rb = docs(rb(s, True))
            if compound:
                self_got = c(s, "self")
                kids = list(c)
                self_idx = set(i + 1 for i, k in enumerate(kids) if any(k is m or (isinstance(k, tuple) and type(k) is type(m) and k == m) for m in self_got))
            else:
                self_idx = set()
        except Exception as ex:
            ck.violation("tree:raise", {"tree": show(tree), "val": val, "error": repr(ex)}, "%s raised %r" % (show(tree), ex))
            continue
        problems = []
        if got != st["sat"]:
            problems.append("satisfied: spec %s, mystic %s" % (st["sat"], got))
        if info != exp_info:
            problems.append("info: spec %s, mystic %s" % (sorted(exp_info), sorted(info)))
        if got_rb != st["sat"] or info_rb != exp_info:
            problems.append("rebuilt from state/type: satisfied %s info %s" % (got_rb, sorted(info_rb)))
        if compound and len(c) == len(tree["kids"]) and self_idx != set(st["self"]):
            problems.append("info='self': spec members %s, mystic %s" % (sorted(st["self"]), sorted(self_idx)))
        if problems:
            shape = "%s-over-%s" % (tree["op"], "+".join(sorted(set(k["op"] for k in tree["kids"]))))
            ck.violation("tree:" + shape, {"tree": show(tree), "val": val, "leaf_docs": ldocs, "problems": problems,
                                           "expected": {"sat": st["sat"], "info": sorted(exp_info)}},
                         "%s with leaves %s: %s" % (show(tree), val, "; ".join(problems)))
        ck.trace()
    ck.sample({"tree": r.printed[len(r.printed) // 2]["tree"], "valuation": r.printed[len(r.printed) // 2]["val"],
               "sat": r.printed[len(r.printed) // 2]["sat"], "info": r.printed[len(r.printed) // 2]["info"]})

class _Bare(object):
    """a solver stub for the conditions of TermExtra.tla: only what the step gives it"""
    pass


def sec_extra(ck, mt, a, corrupt=False):
    """TimeLimits and GradientNormTolerance: every script of specs/term/TermExtra.tla on the real conditions.
    The three clocks of the time module are scripted (TimeLimits binds its timer when it is created)."""
    thorough = a.tier == "thorough"
    import time as _time, datetime, warnings
    warnings.simplefilter("ignore")
    r = run_tlc("term/MC_TermExtra", cfg="MC_TermExtra_thorough.cfg" if thorough else "MC_TermExtra_quick.cfg",
                workers=1, timeout=3000)
    if r.violated:
        ck.violation("spec:" + r.violated, {"tlc": r.out[-4000:]}, "TLC: design property %s violated in TermExtra" % r.violated)
    ck.mc(r, "TermExtra")
    INF_ = 1000000
    clocks = {"wall": 0.0, "perf": 0.0, "cpu": 0.0}
    fake = {"time": lambda: clocks["wall"], "perf_counter": lambda: clocks["perf"], "process_time": lambda: clocks["cpu"]}
    real = {k: getattr(_time, k) for k in fake}
    EPOCH = {0: {"wall": 0.0, "perf": 0.0, "cpu": 0.0}, 1: {"wall": 2.0, "perf": 0.5, "cpu": 1.25}}   # quarter seconds / 4

    def make_time(secs, system):
        for k, f in fake.items():
            setattr(_time, k, f)
        try:
            return mt.TimeLimits(secs, system)
        finally:
            for k, f in real.items():
                setattr(_time, k, f)
    nskip = 0
    for n, sc in enumerate(r.printed):
        par, script = sc["par"], sc["script"]
        if corrupt and n == 7:
            script = [dict(st) for st in script]
            script[-1]["v"] = not script[-1]["v"]
        if sc["kind"] == "time":
            clocks.update(EPOCH[par["epoch"]])
            q = par["secs"]
            form = n % 3
            secs = (q // 4) if (form == 0 and q % 4 == 0) else datetime.timedelta(seconds=q * 0.25) if form == 1 else q * 0.25
            system = {"wall": None, "perf": True, "cpu": False}[par["clock"]]
            cond = make_time(secs, system)
            inst = _Bare()
            for k, st in enumerate(script):
                if st["op"] == "tick":
                    clocks[st["clock"]] += st["d"] * 0.25
                elif st["op"] == "tickall":
                    for c in clocks:
                        clocks[c] += st["d"] * 0.25
                else:
                    cond.reset()
                got, info = bool(cond(inst)), cond(inst, True)
                exp = bool(st["v"])
                ck.case(nontrivial=exp or st["op"] == "reset", key=("time", n, k))
                if got != exp or info != (cond.__doc__ if exp else ""):
                    ck.violation("extra:TimeLimits:%s" % ("after-reset" if any(x["op"] == "reset" for x in script[:k + 1]) else par["clock"]),
                                 {"params": par, "seconds": repr(secs), "system": system, "script": script, "step": k,
                                  "expected": exp, "got": got, "info": info},
                                 "TimeLimits(%r, system=%r) after %s: spec %s, mystic %s (info %r)"
                                 % (secs, system, [(x["op"], x["clock"], x["d"]) for x in script[:k + 1]], exp, got, info))
                    break
            # rebuilt from its reported state: a NEW counter (it starts now)
            if n % 5 == 0 and form != 1:     # (state() evaluates the repr of the settings: a timedelta has no evaluable repr there)
                for k_, f in fake.items():
                    setattr(_time, k_, f)
                try:
                    again = rebuild(mt, cond)
                finally:
                    for k_, f in real.items():
                        setattr(_time, k_, f)
                exp0 = par["secs"] <= 0
                if again.__doc__ != cond.__doc__ or bool(again(inst)) != exp0:
                    ck.violation("extra:TimeLimits:rebuilt", {"params": par, "doc": cond.__doc__, "rebuilt_doc": again.__doc__},
                                 "TimeLimits rebuilt from state %r: doc %r, satisfied at once %s (spec %s)"
                                 % (cond.__doc__, again.__doc__, bool(again(inst)), exp0))
            ck.trace()
            continue
        # ---- GradientNormTolerance
        tolv = par["tol"][0] / float(par["tol"][1])
        norm = float("inf") if par["norm"] == INF_ else par["norm"]
        cond = mt.GradientNormTolerance(tolerance=tolv, norm=norm)
        cond2 = rebuild(mt, cond)
        inst = _Bare()
        if par["stored"]:
            inst.gradient = []
        for k, st in enumerate(script):
            g = [float(v) for v in st["g"]]
            if par["stored"]:
                inst.gradient.append(g if (n + k) % 2 else __import__("numpy").array(g))
            else:
                if st["b"]:
                    nskip += 1           # a numerical gradient cannot decide a case ON the boundary
                    continue
                inst.bestSolution = [0.5 + 0.25 * i for i in range(len(g))]
                inst._cost = (None, (lambda x, g=g: 1.0 + sum(c * float(v) for c, v in zip(g, x))), None)
            exp = bool(st["v"])
            got, info, got2 = bool(cond(inst)), cond(inst, True), bool(cond2(inst))
            ck.case(nontrivial=exp, key=("grad", n, k))
            if got != exp or got2 != exp or info != (cond.__doc__ if exp else ""):
                ck.violation("extra:GradientNormTolerance:norm=%s:%s" % (norm, "recorded-gradient" if par["stored"] else "gradient-of-cost"),
                             {"params": par, "script": script, "step": k, "expected": exp, "got": got, "rebuilt": got2, "info": info},
                             "GradientNormTolerance(%s, norm=%s) with gradient %s (%s): spec %s, mystic %s (rebuilt %s)"
                             % (tolv, norm, g, "recorded" if par["stored"] else "of a linear cost", exp, got, got2))
                break
        ck.trace()
    ck.extra["extra_boundary_steps_not_decidable_numerically"] = nskip
    if r.printed:
        ck.sample({"TermExtra_script": r.printed[len(r.printed) // 2]})


def explore(ck, mt, a):
    """quick: the three sections one after the other; thorough: the sections (and four parts of the tree catalogue) in
    forked children running side by side, merged into ck"""
    ck.exhaustive = True
    thorough = a.tier == "thorough"
    if not thorough or getattr(a, "selftest", False):
        sec_histories(ck, mt, a)
        sec_populations(ck, mt, a)
        sec_trees(ck, mt, a)
        sec_extra(ck, mt, a, corrupt=(getattr(a, "corrupt", None) == "extra"))
    else:
        from harness.c08_nmpw import _Forked
        parts = 4
        jobs = [_Forked(lambda c, a_, corrupt, light: sec_histories(c, mt, a_), ck, a),
                _Forked(lambda c, a_, corrupt, light: sec_populations(c, mt, a_), ck, a),
                _Forked(lambda c, a_, corrupt, light: sec_extra(c, mt, a_), ck, a)]
        for p in range(parts):
            jobs.append(_Forked((lambda p: lambda c, a_, corrupt, light: sec_trees(c, mt, a_, p, parts))(p), ck, a))
        for j in jobs:
            j.join()
    ck.assumptions = ["tolerances are dyadic rationals >= 0 and energies small integers or +inf, so IEEE arithmetic is exact",
                      "NormalizedChangeOverGeneration is specified in its implemented cross-multiplied form with IEEE "
                      "semantics for +inf (the documented quotient form is 0/0 or inf/inf there)",
                      "TimeLimits is driven with scripted clocks (time.time / perf_counter / process_time replaced while the "
                      "condition is created); seconds are quarter seconds given as int, float or timedelta; a condition "
                      "rebuilt from its state is a new counter",
                      "GradientNormTolerance: norms 1, 2, inf on small integer gradients (recorded by the solver, or of a "
                      "linear cost through the numerical gradient, where cases ON the boundary are not decidable and skipped)",
                      "the Collapse* conditions are not leaves here (C11 covers them); in the tree section the leaves are "
                      "VTR / EvaluationLimits / SolverInterrupt / ChangeOverGeneration / NormalizedCostTarget"]


def selftest(a, mt):
    """in-memory mutants of mystic.termination that the replay must catch"""
    import numpy
    orig = {k: getattr(mt, k) for k in dir(mt)}

    def m_cog_window():          # lg <= gens  ->  lg < gens
        def ChangeOverGeneration(tolerance=1e-6, generations=30):
            doc = "ChangeOverGeneration with %s" % {'tolerance': tolerance, 'generations': generations}
            def _ChangeOverGeneration(inst, info=False):
                info = (lambda x: x) if info else bool
                hist = inst.energy_history
                lg = len(hist)
                if not lg: return info("")
                gens = 0 if generations is None else int(generations)
                if lg < gens: return info("")
                if (hist[-gens] - hist[-1]) <= tolerance: return info(doc)
                if hist[-gens] == hist[-1]: return info(doc)
                return info("")
            _ChangeOverGeneration.__doc__ = doc; _ChangeOverGeneration.__module__ = mt.__name__
            return _ChangeOverGeneration
        mt.ChangeOverGeneration = ChangeOverGeneration

    def m_vtr_strict():          # <= -> <
        def VTR(tolerance=0.005, target=0.0):
            doc = "VTR with %s" % {'tolerance': tolerance, 'target': target}
            def _VTR(inst, info=False):
                info = (lambda x: x) if info else bool
                hist = inst.energy_history
                if not len(hist): return info("")
                if abs(hist[-1] - target) < tolerance: return info(doc)
                return info("")
            _VTR.__doc__ = doc; _VTR.__module__ = mt.__name__
            return _VTR
        mt.VTR = VTR

    def m_or_info_all():         # Or reports info of unsatisfied members too
        def __call__(self, solver, info=False):
            stop = {}
            [stop.update({f: f(solver, info)}) for f in self]
            _any = any(stop.values())
            if not info: return _any
            if info == 'self': return tuple(set(k for k, v in stop.items() if v))
            if not _any: return ""
            return "; ".join(set(x for f in self for x in (f.__doc__ if not isinstance(f, tuple) else f(solver, True)).split("; ") if x))
        mt.Or.__call__ = __call__

    def m_and_any():             # And behaves as Or
        mt.And.__call__ = orig["Or"].__call__

    def m_crt_and_or():          # xtol AND ftol  ->  OR
        def CandidateRelativeTolerance(xtol=1e-4, ftol=1e-4):
            doc = "CandidateRelativeTolerance with %s" % {'xtol': xtol, 'ftol': ftol}
            def _CandidateRelativeTolerance(inst, info=False):
                sim = numpy.array(inst.population); fsim = numpy.array(inst.popEnergy)
                if not len(fsim[1:]): return "Warning"
                info = (lambda x: x) if info else bool
                e = numpy.seterr(invalid='ignore')
                answer = max(numpy.ravel(abs(sim[1:] - sim[0]))) <= xtol or max(abs(fsim[0] - fsim[1:])) <= ftol
                numpy.seterr(**e)
                return info(doc) if answer else info("")
            _CandidateRelativeTolerance.__doc__ = doc; _CandidateRelativeTolerance.__module__ = mt.__name__
            return _CandidateRelativeTolerance
        mt.CandidateRelativeTolerance = CandidateRelativeTolerance

    def m_el_gt():               # >= -> > in EvaluationLimits
        def EvaluationLimits(generations=None, evaluations=None):
            doc = "EvaluationLimits with %s" % {'generations': generations, 'evaluations': evaluations}
            mf = float('inf') if evaluations is None else evaluations
            mi = float('inf') if generations is None else generations
            def _EvaluationLimits(inst, info=False):
                info = (lambda x: x) if info else bool
                if inst._fcalls[0] > mf or inst.generations > mi: return info(doc)
                return info("")
            _EvaluationLimits.__doc__ = doc; _EvaluationLimits.__module__ = mt.__name__
            return _EvaluationLimits
        mt.EvaluationLimits = EvaluationLimits

    import inspect, textwrap

    def patched(name, old_, new_):
        def mut():
            src = textwrap.dedent(inspect.getsource(orig[name]))
            assert src.count(old_) == 1, (name, old_)
            ns = dict(vars(mt))
            exec(compile(src.replace(old_, new_), "<mutant %s>" % name, "exec"), ns)
            setattr(mt, name, ns[name])
        return mut

    mutants = [("TimeLimits >= becomes >", patched("TimeLimits", ">= delta[0]", "> delta[0]")),
               ("TimeLimits system=True uses the wall clock", patched("TimeLimits", "timer = time.perf_counter", "timer = time.time")),
               ("TimeLimits reset() does nothing", patched("TimeLimits", "start[0] = timer()\n    delta", "pass\n    delta")),
               ("GradientNormTolerance <= becomes <", patched("GradientNormTolerance", "gnorm <= tolerance", "gnorm < tolerance")),
               ("GradientNormTolerance ignores norm", patched("GradientNormTolerance", "p=norm", "p=inf")),
               ("GradientNormTolerance reads the FIRST recorded gradient", patched("GradientNormTolerance", "[None])[-1]", "[None])[0]")),
               ("ChangeOverGeneration window off by one (lg <= g -> lg < g)", m_cog_window),
               ("VTR <= becomes <", m_vtr_strict),
               ("Or reports info of unsatisfied members", m_or_info_all),
               ("And evaluated as any()", m_and_any),
               ("CandidateRelativeTolerance xtol OR ftol", m_crt_and_or),
               ("EvaluationLimits >= becomes >", m_el_gt)]
    or_call, and_call = mt.Or.__dict__.get("__call__"), mt.And.__dict__.get("__call__")
    missed = 0
    import io, contextlib
    for name, mut in mutants:
        mut()
        ck = new_check(a)
        buf = io.StringIO()
        with contextlib.redirect_stdout(buf):
            try:
                explore(ck, mt, a)
            except Exception as ex:       # a mutant that makes mystic raise is caught as well
                print('mutant raised', repr(ex)); ck.violations += 1
        for k in ("ChangeOverGeneration", "VTR", "CandidateRelativeTolerance", "EvaluationLimits", "TimeLimits", "GradientNormTolerance"):
            setattr(mt, k, orig[k])
        mt.Or.__call__ = or_call
        if and_call is None:
            try: del mt.And.__call__
            except AttributeError: pass
        print("SELFTEST %s: %s (%d violations)" % (name, "caught" if ck.violations else "MISSED", ck.violations))
        missed += 0 if ck.violations else 1
    import shutil, os
    return 1 if missed else 0


def main():
    a = tier_seed()
    assert_repo()
    import mystic.termination as mt
    if a.selftest:
        return selftest(a, mt)
    ck = new_check(a)
    explore(ck, mt, a)
    return ck.finish()


if __name__ == "__main__":
    main_guard(main)
