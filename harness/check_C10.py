"""C10 -- termination conditions mean what they say, alone and in combination.

spec -> code: TLC enumerates every reachable state of term/TermMachine (energy histories),
term/TermPop (populations) and term/TermTree (And/Or/When trees x leaf valuations), checks the
design invariants on each, and emits the state with the verdict the specification gives.  The
harness rebuilds each state as a stub solver, applies the *real* mystic.termination objects and
compares: truth value, info (set of docs), info='self', and the same for the condition rebuilt from
its reported state/type.

Concretisation.  An abstract state / condition of the specification has many concrete spellings, and
the implementation may branch on the spelling.  Every replay therefore ROTATES the spelling
deterministically (by state number and condition number, so that a quick run meets every spelling
thousands of times): numbers as python float / python int (0 is falsy) / numpy.float64 / numpy.float32
/ -0.0; counts as int / numpy.int64 / float / numpy.int32; arguments by keyword / by position / omitted
where the abstract value is the documented default; histories as lists of python floats, numpy scalars,
ints, float32, or an ndarray; populations as lists of lists, lists of arrays, 2-D arrays, int or float32
arrays; compound conditions as And(a, b) / And((a, b)) / And([a, b]).  The unit of energy (TermMachine /
TermPop variable `scale`) is applied here: the abstract energy e is the float e * 2**scale.
A mismatch under a rotated spelling is re-tried in the plain spelling: if that one agrees, the violation
key gets the suffix ':spelling'.
"""
import sys, itertools, random, math
from harness.core import Check, tier_seed, assert_repo, main_guard
from harness.tlc import run_tlc

INF = 1000000
NONE = -1


def f(v):
    return float("inf") if v == INF else float(v)


def tol(t):
    return t[0] / t[1]


def none(v):
    return None if v == NONE else v


class Stub(object):
    """exactly the attributes termination conditions read"""
    def __init__(self, hist=(), gens=0, fcalls=0, exitreq=False, pop=None, popE=None, best=None, trial=None):
        self.energy_history = [f(e) for e in hist]
        self.generations = gens
        self._fcalls = [fcalls]
        self._EARLYEXIT = exitreq
        if pop is not None:
            self.population = [[float(x) for x in p] for p in pop]
            self.popEnergy = [f(e) for e in popE]
            self.bestSolution = [float(x) for x in best]
            self.trialSolution = trial


class _Obj(object):
    pass


# ------------------------------------------------------------------ concretisation: units and spellings
def energy(m, s):
    """the abstract energy / coordinate m in the unit 2**s"""
    return float("inf") if m == INF else math.ldexp(float(m), s)


def quantity(t, s):
    """the abstract rational <<n, d>> in the unit 2**s"""
    return math.ldexp(t[0] / t[1], s)


def _integral(x):
    return not math.isinf(x) and x == int(x) and abs(x) < 2 ** 62


def _f32ok(x, s):
    # float32 only where the whole state fits float32 (numpy compares a python float with a float32 IN float32)
    import numpy
    return abs(s) <= 100 and (math.isinf(x) or float(numpy.float32(x)) == x)


REAL_SPELLINGS = ("float", "int", "numpy.float64", "numpy.float32", "-0.0")
COUNT_SPELLINGS = ("int", "numpy.int64", "float", "numpy.int32")
STYLES = ("keywords", "positional", "defaults-omitted")
HIST_SPELLINGS = ("list[float]", "list[numpy.float64]", "list[int where integral]", "list[numpy.float32]",
                  "ndarray", "list[float] with -0.0")
POP_SPELLINGS = ("list[list[float]]", "list[ndarray]", "ndarray2d", "list[list[int where integral]]",
                 "ndarray2d float32", "list[list[float]] with -0.0, numpy energies")


def rot(k, n, salt=0):
    """deterministic rotation: a number in range(k) for the n-th state, mixed so that it does not follow the order in
    which TLC enumerates the states (n % k would pair every spelling with ever the same unit / shape)"""
    h = ((n + 1) * 2654435761 + salt * 40503) & 0xffffffff
    h ^= h >> 15
    h = (h * 2246822519) & 0xffffffff
    h ^= h >> 13
    return h % k


def spell_real(x, v, s=0):
    import numpy
    if x is None:
        return None
    v %= 5
    if v == 1 and _integral(x):
        return int(x)
    if v == 2:
        return numpy.float64(x)
    if v == 3 and _f32ok(x, s):
        return numpy.float32(x)
    if v == 4 and x == 0:
        return -0.0
    return x


def spell_count(n, v):
    import numpy
    if n is None:
        return None
    return (int(n), numpy.int64(n), float(n), numpy.int32(n))[v % 4]


# factory, then (argument, kind, catalogue field, documented default) in positional order
SIGNATURE = {
    "VTR": ("VTR", (("tolerance", "r", "tol", 0.005), ("target", "r", "t", 0.0))),
    "COG": ("ChangeOverGeneration", (("tolerance", "r", "tol", 1e-6), ("generations", "c", "g", 30))),
    "NCOG": ("NormalizedChangeOverGeneration", (("tolerance", "r", "tol", 1e-4), ("generations", "c", "g", 10))),
    "NCT": ("NormalizedCostTarget", (("fval", "r", "t", None), ("tolerance", "r", "tol", 1e-6), ("generations", "c", "g", 30))),
    "VTRCOG": ("VTRChangeOverGeneration", (("ftol", "r", "tol", 0.005), ("gtol", "r", "tol2", 1e-6),
                                           ("generations", "c", "g", 30), ("target", "r", "t", 0.0))),
    "EL": ("EvaluationLimits", (("generations", "c", "g", None), ("evaluations", "c", "t", None))),
    "SI": ("SolverInterrupt", ()),
}


def concrete(c, dims=(), s=0):
    """the settings of catalogue entry c as plain python values (dims: the fields that are energies)"""
    out = []
    for name, kind, field, dflt in SIGNATURE[c["k"]][1]:
        if kind == "c":
            v = none(c[field])
        elif field == "t":
            v = None if (c["k"] == "NCT" and c["t"] == NONE) else energy(c["t"], s if "t" in dims else 0)
        else:
            v = quantity(c[field], s if field in dims else 0)
        out.append((name, kind, v, dflt))
    return out


def build(mt, c, dims=(), s=0, v=0):
    """the real condition for catalogue entry c, in spelling v (0 = the plain one: python floats / ints, keywords)"""
    fac = getattr(mt, SIGNATURE[c["k"]][0])
    if c.get("dflt"):
        return fac()
    style = v % 3
    args = []
    for j, (name, kind, val, dflt) in enumerate(concrete(c, dims, s)):
        if style == 2 and (val is None if dflt is None else (val is not None and val == dflt)):
            continue                     # the documented default: leave the argument out
        sp = val if v == 0 else spell_count(val, v // 15 + j) if kind == "c" else spell_real(val, v + j, s)
        args.append((name, sp))
    if style == 1:
        return fac(*[x for _, x in args])
    return fac(**dict(args))


def stub_spelled(st, sv):
    """the solver of state st, history / counters in spelling sv (0 = plain)"""
    import numpy
    s = st.get("scale", 0)
    base = [energy(m, s) for m in st["hist"]]
    if sv == 1:
        h = [numpy.float64(x) for x in base]
    elif sv == 2:
        h = [int(x) if _integral(x) else x for x in base]
    elif sv == 3 and abs(s) <= 100:
        h = [numpy.float32(x) for x in base]
    elif sv == 4:
        h = numpy.array(base, dtype=float)
    elif sv == 5:
        h = [-0.0 if x == 0 else x for x in base]
    else:
        h = base
    o = _Obj()
    o.energy_history = h
    o.generations = numpy.int64(st["gens"]) if sv % 2 else st["gens"]
    o._fcalls = [numpy.int64(st["fcalls"]) if sv % 2 else st["fcalls"]]
    o._EARLYEXIT = int(st["exit"]) if sv % 3 == 1 else st["exit"]
    return o


def rebuild(mt, cond):
    """a condition rebuilt from its reported type and state"""
    if isinstance(cond, tuple):
        return mt.type(cond)(*[rebuild(mt, m) for m in cond])
    st = mt.state(cond)
    assert len(st) == 1, st
    return mt.type(cond)(**list(st.values())[0])


def docs(info):
    return set(x for x in info.split("; ") if x) if isinstance(info, str) else info


def new_check(a):
    return Check("C10", "model_checking", a.tier, a.seed,
               rule="every reachable state of the TLA+ machines TermMachine (energy histories; also at other units of "
                    "energy and with long histories / two-digit windows / the no-argument defaults), TermPop "
                    "(populations, also at other units) and TermTree (And/Or/When trees x leaf valuations) and every "
                    "script of TermExtra is replayed on the real mystic.termination objects, the concrete spelling "
                    "of every input rotating; a case = (state, condition); non-trivial = the spec says the "
                    "condition is satisfied on a non-empty history/population, or the tree is compound")


HIST_RUNS = {   # which: (module, quick cfg, thorough cfg, name in the evidence)
    "base": ("term/MC_TermQuick", None, ("term/MC_TermThorough", None), "TermMachine"),
    "scale": ("term/MC_TermScale", "MC_TermScale_quick.cfg", ("term/MC_TermScale", "MC_TermScale_thorough.cfg"), "TermMachine[units]"),
    "long": ("term/MC_TermLong", "MC_TermLong_quick.cfg", ("term/MC_TermLong", "MC_TermLong_thorough.cfg"), "TermMachine[long]"),
}


def sec_histories(ck, mt, a, which="base", corrupt=False):
    thorough = a.tier == "thorough"
    legacy = getattr(a, "legacy", False)
    import warnings
    warnings.simplefilter("ignore")
    # ---------------------------------------------------------------- histories
    mod, cfg, th, name = HIST_RUNS[which]
    if thorough:
        mod, cfg = th
    r = run_tlc(mod, cfg=cfg, workers=1, timeout=3000)
    if r.violated:
        ck.violation("spec:" + r.violated, {"tlc": r.out[-4000:]}, "TLC: design invariant %s violated in %s" % (r.violated, name))
    ck.mc(r, name)
    cat, dims = r.printed[0]["catalogue"], r.printed[0]["dims"]
    suffix = "" if which == "base" else ":" + which
    cache = {}

    def cond(i, s, v):
        key = (i, s, v)
        if key not in cache:
            c = build(mt, cat[i], dims[i], s, v)
            cache[key] = (c, rebuild(mt, c))
        return cache[key]

    def ask(c, rb, s, exp):
        try:
            got = c(s)
            info = c(s, True)
            got2 = rb(s)
        except Exception as ex:
            got, info, got2 = "raised %r" % ex, "", None
        ok = (got is exp or (isinstance(got, bool) and got == exp)) and (info == (c.__doc__ if exp else "")) and got2 == got
        return ok, got, info, got2

    # the conditions created with no argument: their reported settings are the catalogue's (documented) defaults
    for i, c in enumerate(cat):
        if c.get("dflt"):
            s0 = r.printed[1]["scale"]
            real = list(mt.state(cond(i, s0, 0)[0]).values())[0]
            want = dict((n_, v_) for n_, _, v_, _ in concrete(c, dims[i], s0))
            ck.case(nontrivial=True, key=("defaults", c["k"]))
            if real != want:
                ck.violation("prim:%s:defaults" % c["k"], {"condition": c, "reported": repr(real), "specified": repr(want)},
                             "%s() reports the settings %r, the specification's defaults are %r" % (SIGNATURE[c["k"]][0], real, want))
    nopen = 0
    tally = {}
    states = r.printed[1:]
    for n, st in enumerate(states):
        sc = st["scale"]
        sv = 0 if legacy else rot(6, n)
        if sv == 3 and abs(sc) > 100:
            sv = 1
        v0 = rot(60, n, 1)
        s = stub_spelled(st, sv)
        before = repr(s.energy_history)
        sat, opn = set(st["sat"]), set(st["open"])
        if corrupt and n == len(states) // 2:
            sat = sat ^ {min(set(range(1, len(cat) + 1)) - opn)}
        tally[HIST_SPELLINGS[sv]] = tally.get(HIST_SPELLINGS[sv], 0) + 1
        for i in range(len(cat)):
            if (i + 1) in opn:
                nopen += 1
                continue
            exp = (i + 1) in sat
            v = 0 if legacy else (7 * i + v0) % 60
            c, rb = cond(i, sc, v)
            ok, got, info, got2 = ask(c, rb, s, exp)
            ck.case(nontrivial=exp and len(st["hist"]) > 0, key=("h" + suffix, i, sc, tuple(st["hist"]), st["exit"]))
            if not ok:
                spelled = ""
                if v or sv:        # the same abstract case in the plain spelling
                    c0, rb0 = cond(i, sc, 0)
                    if ask(c0, rb0, stub_spelled(st, 0), exp)[0]:
                        spelled = ":spelling"
                ck.violation("prim:%s%s%s" % (cat[i]["k"], suffix, spelled),
                             {"condition": cat[i], "doc": c.__doc__, "state": st, "expected": exp,
                              "got": got, "info": info, "rebuilt": got2, "unit": "2**%d" % sc,
                              "history_spelling": HIST_SPELLINGS[sv], "history": repr(s.energy_history),
                              "call_style": STYLES[v % 3]},
                             "%s on history %r: spec says %s, mystic says %r (info %r, rebuilt %r)" % (
                                 c.__doc__, s.energy_history, exp, got, info, got2))
        if repr(s.energy_history) != before:
            ck.violation("prim:history-modified" + suffix, {"state": st, "before": before, "after": repr(s.energy_history)},
                         "asking the conditions changed the solver's energy history: %s -> %r" % (before, s.energy_history))
        ck.trace()
    ck.extra["open_cases_skipped[%s]" % which] = nopen
    ck.extra["history_spellings[%s]" % which] = tally
    k = min(7, len(states) - 1)
    ck.sample({"run": name, "history": states[k]["hist"], "unit": "2**%d" % states[k]["scale"],
               "satisfied": [cat[i - 1] for i in states[k]["sat"][:3]]})

def pop_spelled(st, pv):
    """the solver of population state st in spelling pv (0 = plain)"""
    import numpy
    s = st["scale"]
    P = [[energy(x, s) for x in p] for p in st["pop"]]
    E = [energy(e, s) for e in st["popE"]]
    if pv == 4 and abs(s) > 100:
        pv = 1
    ident = lambda x: x
    toint = lambda row: [int(x) if _integral(x) else x for x in row]
    vec, popf, enf = {
        0: (list, lambda rows: [list(r_) for r_ in rows], list),
        1: (numpy.array, lambda rows: [numpy.array(r_) for r_ in rows], lambda e: [numpy.float64(x) for x in e]),
        2: (numpy.array, numpy.array, numpy.array),
        3: (toint, lambda rows: [toint(r_) for r_ in rows], toint),
        4: (lambda r_: numpy.array(r_, dtype=numpy.float32), lambda rows: numpy.array(rows, dtype=numpy.float32), list),
        5: (lambda r_: [-0.0 if x == 0 else x for x in r_], lambda rows: [[-0.0 if x == 0 else x for x in r_] for r_ in rows],
            lambda e: [numpy.float64(x) for x in e]),
    }[pv]
    o = _Obj()
    o.energy_history, o.generations, o._fcalls, o._EARLYEXIT = [], 0, [0], False
    o.population = popf(P)
    o.popEnergy = enf(E)
    o.bestSolution = vec(P[0])
    o.trialSolution = popf(P) if st["tp"] else vec(P[-1])
    return o


def sec_populations(ck, mt, a, which="base", corrupt=False):
    thorough = a.tier == "thorough"
    legacy = getattr(a, "legacy", False)
    import warnings
    warnings.simplefilter("ignore")
    # ---------------------------------------------------------------- populations
    if which == "base":
        cfg, name = ("MC_TermPop_thorough.cfg" if thorough else "MC_TermPop.cfg"), "TermPop"
    else:
        cfg, name = ("MC_TermPop_scale_thorough.cfg" if thorough else "MC_TermPop_scale.cfg"), "TermPop[units]"
    suffix = "" if which == "base" else ":" + which
    r = run_tlc("term/MC_TermPop", cfg=cfg, workers=1, timeout=3000)
    if r.violated:
        ck.violation("spec:" + r.violated, {"tlc": r.out[-4000:]}, "TLC: design invariant %s violated in %s" % (r.violated, name))
    ck.mc(r, name)
    tols = r.printed[0]["tols"]
    nt = len(tols)
    cache = {}

    def cond(kind, i, j, s, v):
        key = (kind, i, j, s, v)
        if key not in cache:
            if kind == "crt":
                x, y = spell_real(quantity(tols[i], s), v, s), spell_real(quantity(tols[j], s), v + 1 if v else 0, s)
                c = mt.CandidateRelativeTolerance(x, y) if v % 3 == 1 else mt.CandidateRelativeTolerance(xtol=x, ftol=y)
            else:
                fac = mt.PopulationSpread if kind == "spread" else mt.SolutionImprovement
                x = spell_real(quantity(tols[i], 0 if kind == "spread" else s), v, s)
                c = fac(x) if v % 3 == 1 else fac(tolerance=x)
            cache[key] = (c, rebuild(mt, c))
        return cache[key]

    import io, contextlib
    NAMES = {"crt": "CandidateRelativeTolerance", "spread": "PopulationSpread", "simp": "SolutionImprovement"}
    KEYS = {"crt": "pop:CRT", "spread": "pop:PopulationSpread", "simp": "pop:SolutionImprovement"}

    def ask(kind, c, rb, s, exp, check_rb):
        try:
            with contextlib.redirect_stdout(io.StringIO()):
                got = bool(c(s))
                info = c(s, True)
                got2 = bool(rb(s)) if check_rb else got
        except Exception as ex:
            got, info, got2 = "raised %r" % ex, "", None
        ok = got is exp and got2 is exp
        if kind != "crt" or len(s.popEnergy) > 1:       # (CRT on a single member returns its warning text)
            ok = ok and info == (c.__doc__ if exp else "")
        return ok, got, info, got2

    tally = {}
    states = r.printed[1:]
    for n, st in enumerate(states):
        sc = st["scale"]
        pv = 0 if legacy else rot(6, n)
        if pv == 4 and abs(sc) > 100:
            pv = 1
        v0 = rot(15, n, 1)
        s = pop_spelled(st, pv)
        label = POP_SPELLINGS[pv]
        tally[label] = tally.get(label, 0) + 1
        before = repr((s.population, s.popEnergy, s.bestSolution, s.trialSolution))
        pop, popE = st["pop"], st["popE"]
        verdicts = {"crt": set(tuple(x) for x in st["v"]["crt"]), "spread": set(st["v"]["spread"]), "simp": set(st["v"]["simp"])}
        if corrupt and n == len(states) // 2:
            verdicts["spread"] = verdicts["spread"] ^ {1}
        for kind in ("crt", "spread", "simp"):
            for i in range(nt):
                for j in (range(nt) if kind == "crt" else (0,)):
                    exp = ((i + 1, j + 1) if kind == "crt" else (i + 1)) in verdicts[kind]
                    v = 0 if legacy else (v0 + 4 * i + j) % 15
                    c, rb = cond(kind, i, j, sc, v)
                    check_rb = kind != "crt" or (i + j) % 3 == 0
                    ok, got, info, got2 = ask(kind, c, rb, s, exp, check_rb)
                    if kind == "crt":
                        ck.case(nontrivial=exp and len(pop) > 1, key=("crt" + suffix, i, j, sc, str(pop), str(popE)))
                    else:
                        ck.case(nontrivial=exp, key=(kind + suffix, i, sc, str(pop), st["tp"]))
                    if not ok:
                        spelled = ""
                        if v or pv:
                            c0, rb0 = cond(kind, i, j, sc, 0)
                            if ask(kind, c0, rb0, pop_spelled(st, 0), exp, check_rb)[0]:
                                spelled = ":spelling"
                        ck.violation(KEYS[kind] + suffix + spelled,
                                     {"state": st, "doc": c.__doc__, "expected": exp, "got": got, "info": info, "rebuilt": got2,
                                      "unit": "2**%d" % sc, "population_spelling": label, "population": repr(s.population)},
                                     "%s pop=%r popE=%r trialIsPop=%s: spec %s mystic %s (info %r, rebuilt %r)"
                                     % (c.__doc__, s.population, s.popEnergy, st["tp"], exp, got, info, got2))
        if repr((s.population, s.popEnergy, s.bestSolution, s.trialSolution)) != before:
            ck.violation("pop:inputs-modified" + suffix, {"state": st, "before": before, "population_spelling": label},
                         "asking the conditions changed the solver's population / energies / best / trial solution (%s)" % label)
        ck.trace()
    ck.extra["population_spellings[%s]" % which] = tally
    k = min(9, len(states) - 1)
    ck.sample({"run": name, "population": states[k]["pop"], "energies": states[k]["popE"], "unit": "2**%d" % states[k]["scale"],
               "verdicts": states[k]["v"]})

def sec_trees(ck, mt, a, part=0, parts=1):
    thorough = a.tier == "thorough"
    import warnings
    warnings.simplefilter("ignore")
    # ---------------------------------------------------------------- trees
    r = run_tlc("term/TermTree", cfg="MC_TermTree_thorough.cfg" if thorough else "MC_TermTree_quick.cfg",
                workers=1, timeout=3000, heap="6g", env={"TREE_PARTS": str(parts), "TREE_PART": str(part)})
    if r.violated:
        ck.violation("spec:" + r.violated, {"tlc": r.out[-4000:]}, "TLC: design property %s violated in TermTree" % r.violated)
    ck.mc(r, "TermTree" if parts == 1 else "TermTree[part %d/%d]" % (part + 1, parts))
    # two independent families of leaves; each leaf's truth is controlled by one stub attribute
    # (the third family is the first one in other spellings: keywords, numpy scalars, an int tolerance that is halved)
    import numpy
    legacy = getattr(a, "legacy", False)
    families = [
        lambda: [mt.VTR(0.5, 0.0), mt.EvaluationLimits(generations=2), mt.SolverInterrupt()],
        lambda: [mt.ChangeOverGeneration(0.5, 1), mt.EvaluationLimits(evaluations=7), mt.NormalizedCostTarget(5.0, 0.0, 0)],
        lambda: [mt.VTR(tolerance=numpy.float64(0.5), target=0), mt.EvaluationLimits(numpy.int64(2), None), mt.SolverInterrupt()],
    ]
    nfam = 2 if legacy else 3
    # a compound condition over the members ks: And(a, b) / And((a, b)) / And([a, b]); When(a) / When((a,))
    def make_compound(op, ks, style):
        cls = {"And": mt.And, "Or": mt.Or, "When": mt.When}[op]
        if op == "When":
            return cls((ks[0],)) if style == 1 else cls(ks[0])
        return cls(*ks) if style == 0 else cls(tuple(ks)) if style == 1 else cls(list(ks))

    def stub_for(fam, val):
        if fam in (0, 2):
            return Stub([9, 0] if val[0] else [9, 5], gens=5 if val[1] else 0, fcalls=0, exitreq=val[2])
        # fam 1: COG(0.5,1): hist[-1]-hist[-1]=0 <= .5 always true when len>1 -> control by length
        #        NCT(fval=5,tol=0): hist[-1]==5
        h = [5 if val[2] else 3]
        if val[0]:
            h = [7] + h
        return Stub(h, gens=0, fcalls=9 if val[1] else 0, exitreq=False)

    rng = random.Random(a.seed)
    ntree = 0
    for st in r.printed:
        fam = ntree % nfam
        style = 0 if legacy else rot(3, ntree)
        ntree += 1
        leaves = families[fam]()
        ldocs = [l.__doc__ for l in leaves]

        def mk(t):
            if t["op"] == "L":
                return leaves[t["i"] - 1]
            kids = [mk(k) for k in t["kids"]]
            return make_compound(t["op"], kids, style)

        def show(t):
            return "L%d" % t["i"] if t["op"] == "L" else "%s(%s)" % (t["op"], ",".join(show(k) for k in t["kids"]))
        tree = st["tree"]
        val = st["val"]
        s = stub_for(fam, val)
        # sanity of the harness itself: leaves must have the valuation asked for
        lv = [bool(l(s)) for l in leaves]
        if lv != val:
            raise RuntimeError("harness leaf control broken: fam %d val %s got %s" % (fam, val, lv))
        compound = tree["op"] != "L"
        ck.case(nontrivial=compound, key=("t", show(tree), tuple(val), fam))
        try:
            c = mk(tree)
        except Exception as ex:
            ck.violation("tree:construct", {"tree": show(tree), "error": repr(ex)}, "cannot build %s: %r" % (show(tree), ex))
            continue
        exp_info = set(ldocs[i - 1] for i in st["info"])
        try:
            got = bool(c(s))
            info = docs(c(s, info=True) if style == 2 else c(s, True))
            rb = rebuild(mt, c)
            got_rb = bool(rb(s))
            info_rb = docs(rb(s, True))
            if compound:
                self_got = c(s, "self")
                kids = list(c)
                self_idx = set(i + 1 for i, k in enumerate(kids) if any(k is m or (isinstance(k, tuple) and type(k) is type(m) and k == m) for m in self_got))
            else:
                self_idx = set()
        except Exception as ex:
            ck.violation("tree:raise", {"tree": show(tree), "val": val, "error": repr(ex)}, "%s raised %r" % (show(tree), ex))
            continue
        problems = []
        if got != st["sat"]:
            problems.append("satisfied: spec %s, mystic %s" % (st["sat"], got))
        if info != exp_info:
            problems.append("info: spec %s, mystic %s" % (sorted(exp_info), sorted(info)))
        if got_rb != st["sat"] or info_rb != exp_info:
            problems.append("rebuilt from state/type: satisfied %s info %s" % (got_rb, sorted(info_rb)))
        if compound and len(c) == len(tree["kids"]) and self_idx != set(st["self"]):
            problems.append("info='self': spec members %s, mystic %s" % (sorted(st["self"]), sorted(self_idx)))
        if problems:
            shape = "%s-over-%s" % (tree["op"], "+".join(sorted(set(k["op"] for k in tree["kids"]))))
            ck.violation("tree:" + shape, {"tree": show(tree), "val": val, "leaf_docs": ldocs, "problems": problems,
                                           "members_given_as": ("arguments", "one tuple", "one list")[style],
                                           "expected": {"sat": st["sat"], "info": sorted(exp_info)}},
                         "%s with leaves %s: %s" % (show(tree), val, "; ".join(problems)))
        ck.trace()
    ck.sample({"tree": r.printed[len(r.printed) // 2]["tree"], "valuation": r.printed[len(r.printed) // 2]["val"],
               "sat": r.printed[len(r.printed) // 2]["sat"], "info": r.printed[len(r.printed) // 2]["info"]})

class _Bare(object):
    """a solver stub for the conditions of TermExtra.tla: only what the step gives it"""
    pass


def sec_extra(ck, mt, a, corrupt=False, which="base"):
    """TimeLimits and GradientNormTolerance: every script of specs/term/TermExtra.tla on the real conditions.
    The three clocks of the time module are scripted (TimeLimits binds its timer when it is created).
    which = "wide": two-digit / default limits reached exactly, recorded gradients in other units."""
    thorough = a.tier == "thorough"
    legacy = getattr(a, "legacy", False)
    import time as _time, datetime, warnings, numpy
    warnings.simplefilter("ignore")
    if which == "base":
        cfg, name = ("MC_TermExtra_thorough.cfg" if thorough else "MC_TermExtra_quick.cfg"), "TermExtra"
    else:
        cfg, name = ("MC_TermExtra_wide_thorough.cfg" if thorough else "MC_TermExtra_wide.cfg"), "TermExtra[wide]"
    suffix = "" if which == "base" else ":" + which
    r = run_tlc("term/MC_TermExtra", cfg=cfg, workers=1, timeout=3000)
    if r.violated:
        ck.violation("spec:" + r.violated, {"tlc": r.out[-4000:]}, "TLC: design property %s violated in %s" % (r.violated, name))
    ck.mc(r, name)
    INF_ = 1000000
    clocks = {"wall": 0.0, "perf": 0.0, "cpu": 0.0}
    fake = {"time": lambda: clocks["wall"], "perf_counter": lambda: clocks["perf"], "process_time": lambda: clocks["cpu"]}
    real = {k: getattr(_time, k) for k in fake}
    EPOCH = {0: {"wall": 0.0, "perf": 0.0, "cpu": 0.0}, 1: {"wall": 2.0, "perf": 0.5, "cpu": 1.25}}   # quarter seconds / 4
    # the origin of a clock is arbitrary: also readings of the size of a real time.time() / of a month of uptime
    ORIGIN = ({"wall": 0.0, "perf": 0.0, "cpu": 0.0}, {"wall": 1750000077.25, "perf": 2592000.0, "cpu": 4096.5})
    DEFAULT_SECS = 345600            # 86400 s, the documented default, in quarter seconds

    def faked(fn):
        for k, f_ in fake.items():
            setattr(_time, k, f_)
        try:
            return fn()
        finally:
            for k, f_ in real.items():
                setattr(_time, k, f_)

    def time_spelled(par, m):
        """TimeLimits for par in the spelling number m (None: the plain one); returns (condition, description, evaluable)"""
        q = par["secs"]
        n = m
        if m is None or legacy:
            form = 2 if m is None else m % 3
            secs = (q // 4) if (form == 0 and q % 4 == 0) else datetime.timedelta(seconds=q * 0.25) if form == 1 else q * 0.25
            system = {"wall": None, "perf": True, "cpu": False}[par["clock"]]
            return faked(lambda: mt.TimeLimits(secs, system)), "TimeLimits(%r, %r)" % (secs, system), form != 1
        form, sysv, kw = n % 6, (n // 6) % 3, (n // 18) % 2
        x = q * 0.25
        secs = ((q // 4) if q % 4 == 0 else x, datetime.timedelta(seconds=x), x, numpy.float64(x),
                numpy.int64(q // 4) if q % 4 == 0 else numpy.float32(x), x)[form]
        omit_secs = form == 5 and q == DEFAULT_SECS
        system = {"wall": (None, None, None), "perf": (True, 1, True), "cpu": (False, 0, False)}[par["clock"]][sysv]
        omit_sys = par["clock"] == "wall" and sysv == 1
        args, kwds = [], {}
        if not omit_secs:
            if kw:
                kwds["seconds"] = secs
            else:
                args.append(secs)
        if not omit_sys:
            if kw or omit_secs:
                kwds["system"] = system
            else:
                args.append(system)
        descr = "TimeLimits(%s)" % ", ".join([repr(x_) for x_ in args] + ["%s=%r" % kv for kv in kwds.items()])
        return faked(lambda: mt.TimeLimits(*args, **kwds)), descr, form != 1

    def play_time(par, script, n, m, origin):
        """the first step where the real condition disagrees with the script, or None"""
        clocks.update(EPOCH[par["epoch"]])
        for c in clocks:
            clocks[c] += ORIGIN[origin][c]
        cond, descr, evaluable = time_spelled(par, m)
        inst = _Bare()
        for k, st in enumerate(script):
            if st["op"] == "tick":
                clocks[st["clock"]] += st["d"] * 0.25
            elif st["op"] == "tickall":
                for c in clocks:
                    clocks[c] += st["d"] * 0.25
            else:
                cond.reset()
            try:
                got, info = bool(cond(inst)), cond(inst, True)
            except Exception as ex:
                got, info = "raised %r" % ex, ""
            exp = bool(st["v"])
            if m is not None:
                ck.case(nontrivial=exp or st["op"] == "reset", key=("time" + suffix, n, k))
            if got is not exp or info != (cond.__doc__ if exp else ""):
                return cond, descr, evaluable, (k, exp, got, info)
        return cond, descr, evaluable, None

    def grad_spelled(par, n):
        tolv = quantity(par["tol"], par["sc"])
        norm = float("inf") if par["norm"] == INF_ else par["norm"]
        if n is None or legacy:
            return mt.GradientNormTolerance(tolerance=tolv, norm=norm), "GradientNormTolerance(tolerance=%r, norm=%r)" % (tolv, norm)
        nv, kw = n % 4, (n // 4) % 2
        t = spell_real(tolv, n // 8, par["sc"])
        if par["norm"] == INF_:
            nm = (float("inf"), numpy.inf, None, numpy.float64("inf"))[nv]       # None: left out (the documented default)
        else:
            nm = (int(norm), float(norm), numpy.int64(norm), numpy.float64(norm))[nv]
        if nm is None:
            return (mt.GradientNormTolerance(tolerance=t) if kw else mt.GradientNormTolerance(t)), "GradientNormTolerance(%r)" % (t,)
        return (mt.GradientNormTolerance(tolerance=t, norm=nm) if kw else mt.GradientNormTolerance(t, nm)), \
            "GradientNormTolerance(%r, %r)" % (t, nm)

    GRAD_SPELLINGS = ("list[float]", "ndarray", "tuple", "list[int where integral]", "ndarray float32")

    def grad_value(g, sc, gv):
        base = [energy(v, sc) for v in g]
        if gv == 1:
            return numpy.array(base)
        if gv == 2:
            return tuple(base)
        if gv == 3:
            return [int(x) if _integral(x) else x for x in base]
        if gv == 4 and abs(sc) <= 100:
            return numpy.array(base, dtype=numpy.float32)
        return base

    def play_grad(par, script, n, m):
        nonlocal nskip
        cond, descr = grad_spelled(par, m)
        cond2 = rebuild(mt, cond)
        inst = _Bare()
        if par["stored"]:
            inst.gradient = []
        for k, st in enumerate(script):
            if par["stored"]:
                gv = 0 if m is None else ((m + k) % 2 if legacy else (m // 40 + k) % 5)
                g = grad_value(st["g"], par["sc"], gv)
                inst.gradient.append(g)
            else:
                g = [float(v) for v in st["g"]]
                if st["b"]:
                    if m is not None:
                        nskip += 1           # a numerical gradient cannot decide a case ON the boundary
                    continue
                inst.bestSolution = [0.5 + 0.25 * i for i in range(len(g))]
                inst._cost = (None, (lambda x, g=g: 1.0 + sum(c * float(v) for c, v in zip(g, x))), None)
            exp = bool(st["v"])
            try:
                got, info, got2 = bool(cond(inst)), cond(inst, True), bool(cond2(inst))
            except Exception as ex:
                got, info, got2 = "raised %r" % ex, "", None
            if m is not None:
                ck.case(nontrivial=exp, key=("grad" + suffix, n, k))
            if got is not exp or got2 is not exp or info != (cond.__doc__ if exp else ""):
                return cond, descr, (k, exp, got, info, got2, repr(g))
        return cond, descr, None

    nskip = 0
    for n, sc in enumerate(r.printed):
        par, script = sc["par"], sc["script"]
        if corrupt and n == 7:
            script = [dict(st) for st in script]
            script[-1]["v"] = not script[-1]["v"]
        if sc["kind"] == "time":
            m = n if legacy else rot(720, n)
            origin = 0 if legacy else (m // 36) % 2
            cond, descr, evaluable, bad = play_time(par, script, n, m, origin)
            if bad:
                k, exp, got, info = bad
                spelled = ":spelling" if play_time(par, script, n, None, 0)[3] is None else ""
                ck.violation("extra:TimeLimits:%s%s%s" % ("after-reset" if any(x["op"] == "reset" for x in script[:k + 1]) else par["clock"],
                                                          suffix, spelled),
                             {"params": par, "call": descr, "script": script, "step": k, "clock_origin": ORIGIN[origin],
                              "expected": exp, "got": got, "info": info},
                             "%s after %s: spec %s, mystic %s (info %r)"
                             % (descr, [(x["op"], x["clock"], x["d"]) for x in script[:k + 1]], exp, got, info))
            # rebuilt from its reported state: a NEW counter (it starts now)
            if n % 5 == 0 and evaluable:     # (state() evaluates the repr of the settings: a timedelta has no evaluable repr there)
                inst = _Bare()
                again = faked(lambda: rebuild(mt, cond))
                exp0 = par["secs"] <= 0
                if again.__doc__ != cond.__doc__ or bool(again(inst)) != exp0:
                    ck.violation("extra:TimeLimits:rebuilt" + suffix, {"params": par, "doc": cond.__doc__, "rebuilt_doc": again.__doc__},
                                 "TimeLimits rebuilt from state %r: doc %r, satisfied at once %s (spec %s)"
                                 % (cond.__doc__, again.__doc__, bool(again(inst)), exp0))
            ck.trace()
            continue
        # ---- GradientNormTolerance
        m = n if legacy else rot(720, n)
        cond, descr, bad = play_grad(par, script, n, m)
        if bad:
            k, exp, got, info, got2, g = bad
            spelled = ":spelling" if play_grad(par, script, n, None)[2] is None else ""
            norm = float("inf") if par["norm"] == INF_ else par["norm"]
            ck.violation("extra:GradientNormTolerance:norm=%s:%s%s%s" % (norm, "recorded-gradient" if par["stored"] else "gradient-of-cost",
                                                                         suffix, spelled),
                         {"params": par, "call": descr, "script": script, "step": k, "gradient": g, "unit": "2**%d" % par["sc"],
                          "expected": exp, "got": got, "rebuilt": got2, "info": info},
                         "%s with gradient %s (%s): spec %s, mystic %s (rebuilt %s)"
                         % (descr, g, "recorded" if par["stored"] else "of a linear cost", exp, got, got2))
        ck.trace()
    ck.extra["extra_boundary_steps_not_decidable_numerically" + ("" if which == "base" else "[wide]")] = nskip
    if r.printed:
        ck.sample({"run": name, "TermExtra_script": r.printed[len(r.printed) // 2]})


SECTIONS = {
    "hist": lambda c, mt, a, corrupt: sec_histories(c, mt, a, "base"),
    "pop": lambda c, mt, a, corrupt: sec_populations(c, mt, a, "base"),
    "trees": lambda c, mt, a, corrupt: sec_trees(c, mt, a),
    "extra": lambda c, mt, a, corrupt: sec_extra(c, mt, a, corrupt=(corrupt == "extra")),
    # the parts at other magnitudes / lengths (each with its own TLC run)
    "hist:scale": lambda c, mt, a, corrupt: sec_histories(c, mt, a, "scale", corrupt=(corrupt == "hist:scale")),
    "hist:long": lambda c, mt, a, corrupt: sec_histories(c, mt, a, "long"),
    "pop:scale": lambda c, mt, a, corrupt: sec_populations(c, mt, a, "scale", corrupt=(corrupt == "pop:scale")),
    "extra:wide": lambda c, mt, a, corrupt: sec_extra(c, mt, a, which="wide"),
}
BASE = ("hist", "pop", "trees", "extra")
WIDE = ("hist:scale", "hist:long", "pop:scale", "extra:wide")


def explore(ck, mt, a, only=None):
    """quick: the four base sections one after the other, the parts at other magnitudes meanwhile in forked children;
    thorough: every section (and four parts of the tree catalogue) in forked children running side by side, merged into ck.
    a.legacy: only the base sections, every input in its one plain spelling (the enumeration before the spellings rotated)"""
    ck.exhaustive = True
    thorough = a.tier == "thorough"
    corrupt = getattr(a, "corrupt", None)
    wanted = [x for x in (BASE if getattr(a, "legacy", False) else BASE + WIDE) if only is None or x in only]
    from harness.c08_nmpw import _Forked

    def forked(name):
        fn = SECTIONS[name]
        return _Forked(lambda c, a_, corrupt_, light: fn(c, mt, a_, corrupt), ck, a)
    if not thorough or getattr(a, "selftest", False):
        jobs = [forked(x) for x in wanted if x in WIDE] if getattr(a, "jobs", 1) > 1 else []
        for x in wanted:
            if x in BASE or not jobs:
                SECTIONS[x](ck, mt, a, corrupt)
        for j in jobs:
            j.join()
    else:
        parts = 4
        jobs = [forked(x) for x in wanted if x != "trees"]
        for p in range(parts):
            jobs.append(_Forked((lambda p: lambda c, a_, corrupt, light: sec_trees(c, mt, a_, p, parts))(p), ck, a))
        for j in jobs:
            j.join()
    ck.assumptions = ["tolerances are dyadic rationals >= 0 and energies small integers (negative ones too) or +inf, times a "
                      "power of two (the unit of the model: 2**0, and 2**-1000, 2**-30, 2**-20, 2**33, 2**996 in the parts "
                      "at other magnitudes), so IEEE arithmetic is exact; the no-argument defaults 0.005, 1e-6, 1e-4 are "
                      "compared with energies of 1 and 2 units of 2**-20, never on a boundary",
                      "NormalizedChangeOverGeneration is specified in its implemented cross-multiplied form with IEEE "
                      "semantics for +inf (the documented quotient form is 0/0 or inf/inf there); its regularisation "
                      "eta=1e-20 is not in the documented formula: for units below 2**-40 the specification leaves its "
                      "verdict open and those cases are skipped (counted as open_cases_skipped)",
                      "spellings: every input is replayed in rotating concrete spellings (see the module doc string); "
                      "numpy.float32 only where the whole state fits float32 (numpy compares a python float with a float32 "
                      "in float32, so a 1e-301 history against a float32 tolerance is a question about numpy, not mystic)",
                      "TimeLimits is driven with scripted clocks (time.time / perf_counter / process_time replaced while the "
                      "condition is created); seconds are quarter seconds given as int, float, numpy scalar or timedelta, or "
                      "left out (86400); the origin of each clock is arbitrary (also 1.75e9); a condition rebuilt from its "
                      "state is a new counter",
                      "GradientNormTolerance: norms 1, 2, inf on small integer gradients (recorded by the solver, in units "
                      "2**0, 2**-30, 2**33; or of a linear cost through the numerical gradient, where cases ON the boundary "
                      "are not decidable and skipped)",
                      "the Collapse* conditions are not leaves here (C11 covers them); in the tree section the leaves are "
                      "VTR / EvaluationLimits / SolverInterrupt / ChangeOverGeneration / NormalizedCostTarget"]


def selftest(a, mt):
    """in-memory mutants of mystic.termination that the replay must catch"""
    import numpy
    orig = {k: getattr(mt, k) for k in dir(mt)}

    def m_cog_window():          # lg <= gens  ->  lg < gens
        def ChangeOverGeneration(tolerance=1e-6, generations=30):
            doc = "ChangeOverGeneration with %s" % {'tolerance': tolerance, 'generations': generations}
            def _ChangeOverGeneration(inst, info=False):
                info = (lambda x: x) if info else bool
                hist = inst.energy_history
                lg = len(hist)
                if not lg: return info("")
                gens = 0 if generations is None else int(generations)
                if lg < gens: return info("")
                if (hist[-gens] - hist[-1]) <= tolerance: return info(doc)
                if hist[-gens] == hist[-1]: return info(doc)
                return info("")
            _ChangeOverGeneration.__doc__ = doc; _ChangeOverGeneration.__module__ = mt.__name__
            return _ChangeOverGeneration
        mt.ChangeOverGeneration = ChangeOverGeneration

    def m_vtr_strict():          # <= -> <
        def VTR(tolerance=0.005, target=0.0):
            doc = "VTR with %s" % {'tolerance': tolerance, 'target': target}
            def _VTR(inst, info=False):
                info = (lambda x: x) if info else bool
                hist = inst.energy_history
                if not len(hist): return info("")
                if abs(hist[-1] - target) < tolerance: return info(doc)
                return info("")
            _VTR.__doc__ = doc; _VTR.__module__ = mt.__name__
            return _VTR
        mt.VTR = VTR

    def m_or_info_all():         # Or reports info of unsatisfied members too
        def __call__(self, solver, info=False):
            stop = {}
            [stop.update({f: f(solver, info)}) for f in self]
            _any = any(stop.values())
            if not info: return _any
            if info == 'self': return tuple(set(k for k, v in stop.items() if v))
            if not _any: return ""
            return "; ".join(set(x for f in self for x in (f.__doc__ if not isinstance(f, tuple) else f(solver, True)).split("; ") if x))
        mt.Or.__call__ = __call__

    def m_and_any():             # And behaves as Or
        mt.And.__call__ = orig["Or"].__call__

    def m_crt_and_or():          # xtol AND ftol  ->  OR
        def CandidateRelativeTolerance(xtol=1e-4, ftol=1e-4):
            doc = "CandidateRelativeTolerance with %s" % {'xtol': xtol, 'ftol': ftol}
            def _CandidateRelativeTolerance(inst, info=False):
                sim = numpy.array(inst.population); fsim = numpy.array(inst.popEnergy)
                if not len(fsim[1:]): return "Warning"
                info = (lambda x: x) if info else bool
                e = numpy.seterr(invalid='ignore')
                answer = max(numpy.ravel(abs(sim[1:] - sim[0]))) <= xtol or max(abs(fsim[0] - fsim[1:])) <= ftol
                numpy.seterr(**e)
                return info(doc) if answer else info("")
            _CandidateRelativeTolerance.__doc__ = doc; _CandidateRelativeTolerance.__module__ = mt.__name__
            return _CandidateRelativeTolerance
        mt.CandidateRelativeTolerance = CandidateRelativeTolerance

    def m_el_gt():               # >= -> > in EvaluationLimits
        def EvaluationLimits(generations=None, evaluations=None):
            doc = "EvaluationLimits with %s" % {'generations': generations, 'evaluations': evaluations}
            mf = float('inf') if evaluations is None else evaluations
            mi = float('inf') if generations is None else generations
            def _EvaluationLimits(inst, info=False):
                info = (lambda x: x) if info else bool
                if inst._fcalls[0] > mf or inst.generations > mi: return info(doc)
                return info("")
            _EvaluationLimits.__doc__ = doc; _EvaluationLimits.__module__ = mt.__name__
            return _EvaluationLimits
        mt.EvaluationLimits = EvaluationLimits

    import inspect, textwrap

    def patched(name, *pairs):
        def mut():
            src = textwrap.dedent(inspect.getsource(orig[name]))
            for old_, new_ in zip(pairs[::2], pairs[1::2]):
                assert src.count(old_) == 1, (name, old_, src.count(old_))
                src = src.replace(old_, new_)
            ns = dict(vars(mt))
            exec(compile(src, "<mutant %s>" % name, "exec"), ns)
            setattr(mt, name, ns[name])
        return mut

    def corrupted(what):
        def mut():
            a.corrupt = what
        return mut

    H, P, T, X = ("hist", "hist:scale", "hist:long"), ("pop", "pop:scale"), ("trees",), ("extra", "extra:wide")
    # (name, mutation, the sections that are run for it, new: must be caught by what this round added and is shown to be
    #  missed by the enumeration before it - one plain spelling per input, unit 1, short histories)
    mutants = [("TimeLimits >= becomes >", patched("TimeLimits", ">= delta[0]", "> delta[0]"), X, False),
               ("TimeLimits system=True uses the wall clock", patched("TimeLimits", "timer = time.perf_counter", "timer = time.time"), X, False),
               ("TimeLimits reset() does nothing", patched("TimeLimits", "start[0] = timer()\n    delta", "pass\n    delta"), X, False),
               ("GradientNormTolerance <= becomes <", patched("GradientNormTolerance", "gnorm <= tolerance", "gnorm < tolerance"), X, False),
               ("GradientNormTolerance ignores norm", patched("GradientNormTolerance", "p=norm", "p=inf"), X, False),
               ("GradientNormTolerance reads the FIRST recorded gradient", patched("GradientNormTolerance", "[None])[-1]", "[None])[0]"), X, False),
               ("ChangeOverGeneration window off by one (lg <= g -> lg < g)", m_cog_window, H, False),
               ("VTR <= becomes <", m_vtr_strict, H, False),
               ("Or reports info of unsatisfied members", m_or_info_all, T, False),
               ("And evaluated as any()", m_and_any, T, False),
               ("CandidateRelativeTolerance xtol OR ftol", m_crt_and_or, P, False),
               ("EvaluationLimits >= becomes >", m_el_gt, H, False),
               # ---- spellings and magnitudes
               ("VTR: 'tolerance or 0.005' (a tolerance of 0 taken as missing)",
                patched("VTR", 'doc = "VTR with', 'tolerance = tolerance or 0.005\n    doc = "VTR with'), H, True),
               ("NormalizedCostTarget: tolerance*fval without abs (negative fval)",
                patched("NormalizedCostTarget", "abs(tolerance * fval)", "(tolerance * fval)"), H, True),
               ("ChangeOverGeneration: window only from a python int (numpy.int64 / float generations taken as 0)",
                patched("ChangeOverGeneration", "gens = 0 if generations is None else int(generations)",
                        "gens = generations if isinstance(generations, int) else 0"), H, True),
               ("NormalizedChangeOverGeneration: default generations 10 becomes 1",
                patched("NormalizedChangeOverGeneration", "generations=10)", "generations=1)"), H, True),
               ("PopulationSpread works on an integer array",
                patched("PopulationSpread", "sim = numpy.array(inst.population)", "sim = numpy.array(inst.population, dtype=int)"), P, True),
               ("CandidateRelativeTolerance subtracts in place in the caller's population array",
                patched("CandidateRelativeTolerance", "sim = numpy.array(inst.population)", "sim = numpy.asarray(inst.population)",
                        "answer = max(numpy.ravel(abs(sim[1:]-sim[0]))) <= xtol",
                        "sim[1:] -= sim[0]; answer = max(numpy.ravel(abs(sim[1:]))) <= xtol"), P, True),
               ("TimeLimits keeps its start as float32 (a clock reading of the size of time.time())",
                patched("TimeLimits", "start = [timer()]", "start = [numpy.float32(timer())]"), X, True),
               ("TimeLimits: default seconds 86400 becomes 8640",
                patched("TimeLimits", "seconds=86400", "seconds=8640"), X, True),
               ("And no longer unwraps a single tuple of members (And((a, b)))",
                patched("And", "    if isinstance(args, tuple) and len(args) == 1: args = args[0] # for pickling\n", ""), T, True),
               # ---- corrupted expected values from TLC
               ("a script verdict from TLC (TermExtra) flipped", corrupted("extra"), ("extra",), False),
               ("a satisfied-set from TLC (TermMachine at other units) changed", corrupted("hist:scale"), ("hist:scale",), False),
               ("a verdict from TLC (TermPop at other units) flipped", corrupted("pop:scale"), ("pop:scale",), False)]
    or_call, and_call = mt.Or.__dict__.get("__call__"), mt.And.__dict__.get("__call__")
    missed = 0
    import io, contextlib

    def run(only, legacy):
        ck = new_check(a)
        a.legacy = legacy
        with contextlib.redirect_stdout(io.StringIO()):
            try:
                explore(ck, mt, a, only=only)
            except Exception as ex:       # a mutant that makes mystic raise is caught as well
                print('mutant raised', repr(ex)); ck.violations += 1
        a.legacy = False
        return ck

    import os
    flt = os.environ.get("C10_SELFTEST_ONLY")        # (development aid: only the mutants whose name contains this)
    for name, mut, only, new in mutants:
        if flt and flt not in name:
            continue
        a.corrupt = None
        mut()
        ck = run(only, False)
        old = run(only, True) if new else None
        for k in orig:
            if getattr(mt, k, None) is not orig[k]:
                setattr(mt, k, orig[k])
        mt.Or.__call__ = or_call
        if and_call is None:
            try: del mt.And.__call__
            except AttributeError: pass
        a.corrupt = None
        note = "" if old is None else "; with one plain spelling per input at unit 1 (the enumeration before): %s" % (
            "missed" if not old.violations else "caught as well (%d)" % old.violations)
        print("SELFTEST %s: %s (%d violations: %s%s)" % (name, "caught" if ck.violations else "MISSED", ck.violations,
                                                        ", ".join(sorted(ck.viol_keys)[:4]), note))
        sys.stdout.flush()
        missed += 0 if ck.violations else 1
    return 1 if missed else 0


def main():
    a = tier_seed()
    assert_repo()
    import mystic.termination as mt
    if a.selftest:
        return selftest(a, mt)
    ck = new_check(a)
    explore(ck, mt, a)
    return ck.finish()


if __name__ == "__main__":
    main_guard(main)
