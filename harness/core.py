"""Shared check plumbing: evidence files, VIOLATION / KNOWN-FINDING lines, known-findings lookup.

A check script does

    ck = Check("C10", level="model_checking")
    ck.mc(result_of_run_tlc, name="MC_Termination")     # accumulates states / transitions
    ck.case(nontrivial=True/False, key=hashable)        # one replayed case / validated trace
    ck.violation(key="VTR:hist=..", detail={...})       # -> out/<id>/replay_k.json + VIOLATION line
    sys.exit(ck.finish())

`finish()` always (re)writes evidence/<id>.json and returns 0 / 1.  Exit code 2 is reserved for
machinery failure and is produced by `main_guard`.
"""
import json, os, sys, time, traceback, hashlib

ROOT = os.path.dirname(os.path.dirname(os.path.abspath(__file__)))
REPO = os.environ.get("VERIF_REPO", "/repo")
KNOWN = os.path.join(ROOT, "known_findings.jsonl")
# seeded-mutation runs against a scratch worktree (VERIF_REPO=...) write their evidence / replay files elsewhere
EVIDENCE_DIR = os.environ.get("VERIF_EVIDENCE_DIR") or os.path.join(ROOT, "evidence")
OUT_DIR = os.environ.get("VERIF_OUT_DIR") or os.path.join(ROOT, "out")


def tier_seed(argv=None):
    import argparse
    ap = argparse.ArgumentParser()
    ap.add_argument("--tier", default=os.environ.get("VERIF_TIER", "quick"), choices=["quick", "thorough"])
    ap.add_argument("--seed", type=int, default=int(os.environ.get("VERIF_SEED", "0") or 0))
    ap.add_argument("--replay", default=None)
    ap.add_argument("--selftest", action="store_true")
    ap.add_argument("--jobs", type=int, default=int(os.environ.get("VERIF_JOBS", "16")))
    a = ap.parse_args(argv)
    return a


def assert_repo():
    """the implementation under test must be the working tree of /repo"""
    if REPO not in sys.path:
        sys.path.insert(0, REPO)
    import mystic
    f = os.path.realpath(mystic.__file__)
    if not f.startswith(os.path.realpath(REPO) + os.sep):
        raise RuntimeError("mystic imported from %s, not from %s" % (f, REPO))
    return mystic


def load_known():
    known = []
    if os.path.exists(KNOWN):
        for line in open(KNOWN):
            line = line.strip()
            if line and not line.startswith("#"):
                known.append(json.loads(line))
    return known


def jsonable(o):
    try:
        import numpy as np
    except Exception:
        np = None
    if isinstance(o, dict):
        return {str(k): jsonable(v) for k, v in o.items()}
    if isinstance(o, (list, tuple, set, frozenset)):
        return [jsonable(v) for v in o]
    if np is not None:
        if isinstance(o, np.ndarray):
            return jsonable(o.tolist())
        if isinstance(o, np.generic):
            return jsonable(o.item())
    if isinstance(o, float):
        if o != o:
            return "nan"
        if o in (float("inf"), float("-inf")):
            return "inf" if o > 0 else "-inf"
        return o
    if isinstance(o, (int, str, bool)) or o is None:
        return o
    return repr(o)


class Check:
    def __init__(self, prop, level, tier="quick", seed=0, rule=""):
        self.prop, self.level, self.tier, self.seed = prop, level, tier, int(seed)
        self.t0 = time.time()
        self.rule = rule
        self.evaluations = 0
        self.nontrivial_keys = set()
        self.nontrivial_anon = 0
        self.samples = []
        self.states = 0
        self.transitions = 0
        self.traces = 0
        self.mc_runs = []
        self.violations = 0
        self.known_hits = {}
        self.extra = {}
        self.assumptions = []
        self.exhaustive = None
        self._known = [k for k in load_known() if k.get("property") == prop and k.get("status") == "known"]
        self.outdir = os.path.join(OUT_DIR, prop)
        self._printed_known = set()
        self.viol_keys = {}
        self.dry = False      # selftests: do not write evidence

    # ---- coverage accounting -------------------------------------------------------------
    def mc(self, res, name):
        self.states += int(res.get("distinct") or 0)
        self.transitions += int(res.get("generated") or 0)
        self.mc_runs.append({"model": name, "distinct_states": res.get("distinct"),
                             "states_generated": res.get("generated"), "depth": res.get("depth"),
                             "wall_s": round(res.get("wall_s") or 0, 2)})

    def case(self, nontrivial=False, key=None, n=1):
        self.evaluations += n
        if nontrivial:
            if key is None:
                self.nontrivial_anon += n
            else:
                self.nontrivial_keys.add(key if isinstance(key, (str, int, tuple)) else json.dumps(jsonable(key), sort_keys=True))

    def trace(self, n=1):
        self.traces += n

    def sample(self, obj, limit=6):
        if len(self.samples) < limit:
            self.samples.append(jsonable(obj))

    # ---- verdicts ------------------------------------------------------------------------
    def match_known(self, key):
        for k in self._known:
            kk = k.get("key", "")
            if key == kk or (kk.endswith("*") and key.startswith(kk[:-1])):
                return k
        return None

    def violation(self, key, detail, what=""):
        """report one violation; returns True if it counts (not a listed known finding)"""
        k = self.match_known(key)
        if k is not None:
            self.known_hits[k["key"]] = self.known_hits.get(k["key"], 0) + 1
            if k["key"] not in self._printed_known:
                self._printed_known.add(k["key"])
                print("KNOWN-FINDING: property=%s %s" % (self.prop, k.get("what", k["key"])))
                sys.stdout.flush()
            return False
        self.violations += 1
        self.viol_keys[key] = self.viol_keys.get(key, 0) + 1
        if self.viol_keys[key] <= 2 and len(self.viol_keys) <= 60:
            os.makedirs(self.outdir, exist_ok=True)
            h = hashlib.sha1(json.dumps(jsonable([key, detail]), sort_keys=True).encode()).hexdigest()[:10]
            path = os.path.join(self.outdir, "replay_%s.json" % h)
            with open(path, "w") as f:
                json.dump(jsonable({"property": self.prop, "key": key, "what": what, "detail": detail,
                                    "seed": self.seed, "tier": self.tier}), f, indent=1)
            print("VIOLATION property=%s replay=%s" % (self.prop, path))
            if what:
                print("  " + what[:600])
            sys.stdout.flush()
        return True

    # ---- evidence ------------------------------------------------------------------------
    def finish(self):
        nontriv = len(self.nontrivial_keys) + self.nontrivial_anon
        cov = {"evaluations": self.evaluations, "distinct_nontrivial": nontriv,
               "rule": self.rule, "samples": self.samples or ["(no sample recorded)"]}
        if self.level == "model_checking":
            cov.update({"states": self.states, "transitions": self.transitions,
                        "traces_validated_against_impl": self.traces})
        if self.mc_runs:
            cov["tlc_runs"] = self.mc_runs
        if self.exhaustive is not None:
            cov["exhaustive"] = bool(self.exhaustive)
        if self.known_hits:
            cov["known_finding_hits"] = self.known_hits
        cov.update(self.extra)
        ev = {"property_id": self.prop, "tier": self.tier, "seed": self.seed, "level": self.level,
              "coverage": jsonable(cov), "assumptions": self.assumptions,
              "wall_s": round(time.time() - self.t0, 2), "violations": self.violations}
        if not self.dry:
            os.makedirs(EVIDENCE_DIR, exist_ok=True)
            with open(os.path.join(EVIDENCE_DIR, self.prop + ".json"), "w") as f:
                json.dump(ev, f, indent=1)
        for k, n in sorted(self.viol_keys.items()):
            print("  violation class %s: %d" % (k, n))
        print("%s %s: %d cases (%d non-trivial), %d traces, %d TLC states, %d violations, %.1fs" % (
            self.prop, self.tier, self.evaluations, nontriv, self.traces, self.states, self.violations,
            time.time() - self.t0))
        return 1 if self.violations else 0


def main_guard(fn):
    """run a check's main(); machinery failures -> exit 2 with traceback (never a VIOLATION)"""
    try:
        rc = fn()
    except SystemExit:
        raise
    except KeyboardInterrupt:
        traceback.print_exc()
        print("MACHINERY-FAILURE (exit 2)")
        sys.exit(2)
    except BaseException as ex:
        text = "".join(traceback.format_exception(type(ex), ex, ex.__traceback__))
        sys.stderr.write(text)
        # Safety net: an exception that was RAISED INSIDE mystic (innermost frame of the traceback -- also of a pool
        # worker's remote traceback -- lies in the implementation under test) and that no check caught is the
        # implementation refusing an input the specification calls legal: on the unchanged tree every check runs
        # through without it.  That is a violation of the property being checked, not a failure of the machinery.
        import re
        frames = re.findall(r'File "([^"]+)", line (\d+), in (\S+)', text)
        root = os.path.realpath(REPO) + os.sep
        if frames and os.path.realpath(frames[-1][0]).startswith(root) and not isinstance(ex, (MemoryError, ImportError, SyntaxError)):
            main = getattr(sys.modules.get("__main__"), "__file__", "") or ""
            m = re.search(r"check_(C\d\d)", main)
            prop = m.group(1) if m else "C00"
            outdir = os.path.join(OUT_DIR, prop)
            os.makedirs(outdir, exist_ok=True)
            where = "%s:%s in %s" % (os.path.relpath(frames[-1][0], root), frames[-1][1], frames[-1][2])
            path = os.path.join(outdir, "replay_raise_%s.json" % hashlib.sha1(text.encode()).hexdigest()[:10])
            with open(path, "w") as f:
                json.dump({"property": prop, "key": "raises:uncaught:%s:%s" % (type(ex).__name__, where),
                           "what": "mystic raised %s at %s while the check drove it with inputs the specification calls legal"
                                   % (type(ex).__name__, where), "detail": {"traceback": text[-6000:]}}, f, indent=1)
            print("VIOLATION property=%s replay=%s" % (prop, path))
            print("  violation class raises:uncaught:%s:%s: 1" % (type(ex).__name__, where))
            sys.exit(1)
        # Second net: TLC could not EVALUATE a recorded trace against a Trace_* specification (a logged field has a value
        # of a kind the specification cannot compare).  On the unchanged tree every recorded trace is evaluable, so
        # this too is a property of the recorded run.
        if type(ex).__name__ == "TLCError" and re.search(r"on \S*Trace_\S*", str(ex)) and \
                re.search(r"evaluating|[Aa]ttempted to", str(ex)) and "Parsing or semantic analysis failed" not in str(ex):
            main = getattr(sys.modules.get("__main__"), "__file__", "") or ""
            m = re.search(r"check_(C\d\d)", main)
            prop = m.group(1) if m else "C00"
            outdir = os.path.join(OUT_DIR, prop)
            os.makedirs(outdir, exist_ok=True)
            path = os.path.join(outdir, "replay_noteval_%s.json" % hashlib.sha1(text.encode()).hexdigest()[:10])
            with open(path, "w") as f:
                json.dump({"property": prop, "key": "trace-not-evaluable", "what": "TLC could not evaluate a recorded "
                           "execution against the trace specification", "detail": {"tlc": str(ex)[-6000:]}}, f, indent=1)
            print("VIOLATION property=%s replay=%s" % (prop, path))
            print("  violation class trace-not-evaluable: 1")
            sys.exit(1)
        print("MACHINERY-FAILURE (exit 2)")
        sys.exit(2)
    sys.exit(rc or 0)
