"""C11: embedding of the specification's parameters 0..N-1 into a real solver / monitor of a larger dimension.

The specifications number their parameters 0..N-1 (N = 2..4).  Real index sets of that size are all below 8,
where a Python set of small ints iterates in ascending order -- so code that (wrongly) relies on the iteration
order of a collapse set (indices and their per-parameter targets walked in different orders, ...) cannot show.
`Emb(pm, dim)` places abstract parameter i at real position pm[i] of a `dim`-dimensional vector (pm injective,
not necessarily monotone, e.g. [1, 8], [9, 2, 11]: {1, 8} iterates as (8, 1)); the other positions are FILLER
parameters.  Histories, best points, masks, per-parameter target lists are translated to the real positions,
reported collapses, masks and constrained points are translated back; TLC's expectations stay as they are.

Fillers never collapse where the detector's test can tell: filler f has the value 1000(f+1) + 50(f+1)t in the t-th
recorded point (it moves by >= 50 per record, the distance between two fillers and between a filler and an
embedded parameter changes by >= 50 per record, every per-parameter target of a filler is -1000).  Only the
"spread over the window" tests (collapse_at with target=None, collapse_as with offset=True) on a window of a
SINGLE record report every parameter / pair, fillers included (the spread of one value is 0); reported elements
that involve a filler are projected away, and a filler reported by any other test is a violation.
In recorded solver runs the fillers are named in the initial masks of the collapse conditions instead.
"""

DIM = 12

# position maps by number of embedded parameters; the first is the identity (no embedding)
MAPS = {
    2: [[0, 1], [1, 8], [8, 1], [9, 2], [3, 8], [10, 9]],
    3: [[0, 1, 2], [1, 8, 3], [9, 2, 11], [3, 8, 1], [8, 9, 10], [2, 0, 8]],
    4: [[0, 1, 2, 3], [1, 8, 3, 9], [9, 2, 11, 0], [8, 3, 1, 10]],
}


def filler_value(f, t):
    return float(1000 * (f + 1) + 50 * (f + 1) * t)


class Emb(object):
    def __init__(self, pm, dim=None):
        self.pm = [int(p) for p in pm]
        self.n = len(self.pm)
        self.identity = dim is None and self.pm == list(range(self.n))
        self.dim = self.n if self.identity else (dim or DIM)
        assert len(set(self.pm)) == self.n and all(0 <= p < self.dim for p in self.pm)
        self.inv = dict((p, i) for i, p in enumerate(self.pm))
        self.fillers = [f for f in range(self.dim) if f not in self.inv]

    def __repr__(self):
        return "identity" if self.identity else "positions %s of %d" % (self.pm, self.dim)

    # ---- abstract -> real ---------------------------------------------------------------------------
    def point(self, p, t=0, fill=None):
        """abstract point -> real vector (fillers: their value at record t, or fill(f))"""
        x = [filler_value(f, t) if fill is None else float(fill(f)) for f in range(self.dim)]
        for i, v in enumerate(p):
            x[self.pm[i]] = float(v)
        return x

    def history(self, h):
        return [self.point(p, t) for t, p in enumerate(h)]

    def target_list(self, v):
        x = [-1000.0] * self.dim
        for i, t in enumerate(v):
            x[self.pm[i]] = float(t)
        return x

    def idx(self, s):
        return set(self.pm[int(i)] for i in s)

    def pairs(self, s):
        return set((self.pm[int(a)], self.pm[int(b)]) for a, b in s)

    # ---- real -> abstract ---------------------------------------------------------------------------
    def back_idx(self, s):
        """(embedded indices, fillers) of a set of real indices"""
        s = set(int(i) for i in s)
        return set(self.inv[i] for i in s if i in self.inv), set(i for i in s if i not in self.inv)

    def back_pairs(self, s, keep_orientation=False):
        """(embedded pairs, pairs involving a filler); embedded pairs as (i, j) with i < j unless keep_orientation"""
        emb, fil = set(), set()
        for a, b in s:
            a, b = int(a), int(b)
            if a in self.inv and b in self.inv:
                q = (self.inv[a], self.inv[b])
                emb.add(q if keep_orientation else tuple(sorted(q)))
            else:
                fil.add((a, b))
        return emb, fil

    def back_point(self, x):
        return [x[p] for p in self.pm]


def maps_for(n):
    return [Emb(pm) if k == 0 else Emb(pm, DIM) for k, pm in enumerate(MAPS[n])]
