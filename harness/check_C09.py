"""C09 -- ensembles return the best member and account for all work.

Specifications: specs/solver/Ensemble.tla (members, a map completing work items one at a time in any
order, the reduction to the last minimal member, state hand-back, _total_evals), specs/solver/Grid.tla
(gridpts order, lattice cell centres, post-conditions of randomly_bin / samplepts / fillpts),
specs/solver/Trace_Ensemble.tla (recorded ensemble runs), specs/solver/Obs_Grid.tla (recorded generator
outputs judged by the Grid post-conditions).

design      TLC model-checks Ensemble (<= 4 members, energies with ties, solve and step mode, every
            completion order of every map call): best = min, best is that member's solution, tie rule,
            total = sum = real calls, member count, ScheduleIndependence (post-state = the serial
            schedule's); the design that reduces in completion order is rejected; Grid invariants
            (count = product, full Cartesian product, row-major order, every point the centre of its
            own cell) over all layouts.
spec->code  (a) every complete behaviour TLC emits (member programs x mode x completion orders) is
            replayed on a REAL LatticeSolver/BuckshotSolver whose members are scripted solvers following
            the programs, under a map that executes exactly the emitted completion orders; after every
            ensemble call bestEnergy, bestSolution, the selected member, _all_bestEnergy, _all_evals,
            _total_evals and the real call count must be what the specification says;
            (b) every Grid case (dims 1-3(4), 1..3 bins per dimension, bounds incl. negative and
            degenerate) against the real gridpts and LatticeSolver._InitialPoints, exactly.
code->spec  real lattice/buckshot/sparsity solves (class API and the wrapper functions) with nested
            Nelder-Mead / Powell / DE members, with and without strict ranges, constraints, penalty,
            limits, terminations, under serial / python_map / reversed / shuffled / thread-pool maps,
            Solve vs Solve(step=True) vs repeated Step; the harness owns the cost (counts real calls
            per member), records one event per completed work item and per ensemble call; TLC validates
            every trace against Trace_Ensemble (named clauses) with the Ensemble invariants in every
            state.  Outputs of randomly_bin / samplepts / fillpts / random_samples are judged by TLC
            against the Grid post-conditions.

spellings   (H09) the specifications enumerate ABSTRACT inputs; harness/c09_spell.py writes each of them in one of its
and         legal concrete spellings, chosen by a deterministic rotation over the case number, so that every run replays
boundary    every spelling many times (counts: evidence `extra.spellings`): bounds as list / tuple / ndarray / python ints /
values      int64 array / float32 array / -0.0 / numpy scalars; bin layouts as list / tuple / numpy integers / keyword /
            (one dimension) the scalar; counts as int / numpy.int64 / numpy.int32; positional vs keyword vs setter
            (SetStrictRanges, SetEvaluationLimits, termination / constraints / penalty by setter or by Solve / Step
            keywords, SetObjective + Step() vs Step(cost)); None given vs omitted; wrapper bounds as list of tuples /
            lists / int pairs / 2-d arrays.  A failure that only a rotated spelling shows is keyed `...[spelling:<tag>]`.
            The catalogues TLC enumerates were grown to the boundary values: Grid.tla got `BinChoices` (4, 5, 7, 10, 12
            bins: primes, composites, two-digit counts) and `Scales` (one unit = 2^sc/16: 5e-324, 1e-300, 1e-9, 1e10,
            1e299, and boxes 1.4e-6 wide at 0.75 that need > 8 decimals), GridGen.tla is the catalogue of the calls of
            the randomised generators (randomly_bin for N up to 1024 incl. primes, ndim not given, ones/exact flags with
            the documented N-1 rule; samplepts / random_samples / fillpts for 0, 1, 10, 12, 100 points on boxes down to
            one denormal wide, fillpts radii None / 0 / 0.0 / negative / tiny / huge, with and without legacy data),
            and the recorded runs include ensembles of 10, 11, 12 members and layouts such as (2, 5), (12,), (1, 12).
"""
import sys, os, json, random, io, contextlib, shutil, time, itertools, warnings
import numpy as np
from harness.core import Check, tier_seed, assert_repo, main_guard
from harness.tlc import run_tlc, scratch_dir, TLCError
from harness import ensemble_support as S
from harness import c09_sampler as C9S     # samplers + Searcher (built on the ensembles): Sampler.tla / Searcher.tla
from harness import c09_spell as SP       # one abstract input, several concrete spellings (rotation)

INF = 1000000
NONE = -1
OFFGRID = 999999

RULE = ("design: TLC explores every completion order of every map call for <=4 members with tied energies; "
        "cases: (i) every complete behaviour emitted by TLC from MC_Ensemble (member programs x solve/step x "
        "completion orders) replayed on a real ensemble with scripted members, compared after every call; "
        "(ii) every Grid case (dimension x bin layout x bounds) against gridpts and LatticeSolver._InitialPoints; "
        "(iii) recorded real lattice/buckshot/sparsity runs (class API + wrappers, NM/Powell/DE members, maps, "
        "step vs solve) validated by TLC against Trace_Ensemble; (iv) generator outputs judged by the Grid "
        "post-conditions. non-trivial = a replayed behaviour / recorded run in which two members tie for the "
        "minimum or the map completed out of index order or members terminated in different rounds; a Grid case "
        "with >= 2 dimensions and >= 2 points (order matters); (v) the GridGen catalogue of generator calls (boundary "
        "values of N / ndim / flags / npts / boxes / radii) executed with TLC's expected length, product and count; every "
        "abstract input of (ii), (iii), (v) and of the sampler / searcher scripts is written in a rotating concrete spelling")


def new_check(a):
    ck = Check("C09", "model_checking", a.tier, a.seed, rule=RULE)
    ck.dry = bool(getattr(a, "dry", False))
    return ck


def quiet():
    return contextlib.redirect_stdout(io.StringIO())


# =========================================================================================
# design: model checking
# =========================================================================================
def tlc_jobs(a):
    """every TLC run whose output does not depend on mystic: (key, module, cfg, workers, expect)
    expect = None: must pass; otherwise the invariant(s) TLC must refute (vacuity / rejected designs)"""
    thorough = a.tier == "thorough"
    w = min(a.jobs, 8)
    jobs = [("emit", "solver/MC_Ensemble", "MC_Ensemble_emit2.cfg", 1, None),
            ("emit", "solver/MC_Ensemble", "MC_Ensemble_emit3.cfg", 1, None),
            ("emit", "solver/MC_Ensemble", "MC_Ensemble_emit4.cfg", 1, None),
            ("grid", "solver/MC_Grid", "MC_Grid_%s.cfg" % a.tier, 1, None),
            ("grid", "solver/MC_Grid", "MC_Grid_wide.cfg" if thorough else "MC_Grid_wideq.cfg", 1, None),   # 4..12 bins
            ("grid", "solver/MC_Grid", "MC_Grid_int.cfg", 1, None),          # boxes and centres that are whole numbers
            ("grid", "solver/MC_Grid", "MC_Grid_scaled.cfg", 1, None),       # units of 5e-324 .. 1e299
            ("grid", "solver/MC_Grid", "MC_Grid_fine.cfg", 1, None),         # coordinates needing > 8 decimals
            ("gen", "solver/MC_GridGen", "MC_GridGen_%s.cfg" % a.tier, 1, None),
            ("design", "solver/MC_Ensemble", "MC_Ensemble_completion.cfg", 1, "TieRule|ScheduleIndependence|BestIsThatMember"),
            ("design", "solver/MC_Grid", "MC_Grid_vacuity.cfg", 1, "ColMajorNeverDiffers")]
    if thorough:
        jobs += [("emit", "solver/MC_Ensemble", "MC_Ensemble_emit3k.cfg", 1, None),
                 ("emit", "solver/MC_Ensemble", "MC_Ensemble_emit4s.cfg", 1, None),
                 ("grid", "solver/MC_Grid", "MC_Grid_d4.cfg", 1, None),
                 ("grid", "solver/MC_Grid", "MC_Grid_wide3.cfg", 1, None),
                 ("design", "solver/MC_GridGen", "MC_GridGen_vac_NeverPrimeReplaced.cfg", 1, "NeverPrimeReplaced"),
                 ("design", "solver/MC_GridGen", "MC_GridGen_vac_NeverDegenerateBox.cfg", 1, "NeverDegenerateBox"),
                 ("design", "solver/MC_Ensemble", "MC_Ensemble_quick.cfg", 2, None),
                 ("design", "solver/MC_Ensemble", "MC_Ensemble_thorough.cfg", w, None),
                 ("design", "solver/MC_Ensemble", "MC_Ensemble_thorough4.cfg", w, None),
                 ("design", "solver/MC_Ensemble", "MC_Ensemble_vac_NoTieEver.cfg", 1, "NoTieEver"),
                 ("design", "solver/MC_Ensemble", "MC_Ensemble_vac_NeverNonSerialOrder.cfg", 1, "NeverNonSerialOrder"),
                 ("design", "solver/MC_Ensemble", "MC_Ensemble_vac_BestNeverChanges.cfg", 1, "BestNeverChanges")]
    return jobs


def run_jobs(a, kinds=("emit", "grid", "gen", "design")):
    """run the TLC jobs concurrently (they are independent processes); returns {kind: [(name, result, expect)]}"""
    from concurrent.futures import ThreadPoolExecutor
    jobs = [j for j in tlc_jobs(a) if j[0] in kinds]

    def one(j):
        kind, module, cfg, workers, expect = j
        return kind, cfg[:-4], run_tlc(module, cfg=cfg, workers=workers, timeout=3000, heap="6g"), expect
    out = {"emit": [], "grid": [], "gen": [], "design": []}
    with ThreadPoolExecutor(max(1, min(len(jobs), max(2, a.jobs // 2)))) as ex:
        for kind, name, r, expect in ex.map(one, jobs):
            out[kind].append((name, r, expect))
    return out


def design(ck, results):
    for name, r, expect in results:
        ck.mc(r, name)
        if expect is None:
            if r.violated:
                ck.violation("spec:" + r.violated, {"cfg": name, "tlc": r.out[-3000:]},
                             "design invariant %s violated (%s)" % (r.violated, name))
        else:
            ck.extra.setdefault("designs_tlc_must_refute", {})[name] = r.violated
            if not r.violated or r.violated not in expect.split("|"):
                ck.violation("spec:vacuous:" + name, {"cfg": name, "violated": r.violated},
                             "%s: TLC was expected to refute %s but reported %s" % (name, expect, r.violated))


# =========================================================================================
# spec -> code (a): scripted members replay TLC behaviours on the real ensemble
# =========================================================================================
def snap_ensemble(s):
    try:
        bi = s._allSolvers.index(s._bestSolver) + 1
    except ValueError:
        bi = 0
    return {"bestE": s.bestEnergy, "bestX": list(np.asarray(s.bestSolution, dtype=float)),
            "total": s._total_evals, "E": list(s._all_bestEnergy), "evals": list(s._all_evals),
            "real": len(S.LOG), "best": bi, "n": len(s._allSolvers)}


def replay_behaviour(b, kind, sp=0):
    """run one TLC behaviour on a real ensemble; returns (list of per-call snapshots, stopped flag, starts ok).
    `sp` rotates the spelling of the layout / number of points (list, tuple, numpy integers, keyword) and of the
    ensemble's id (not set / 0: the falsy id)"""
    from mystic.solvers import LatticeSolver, BuckshotSolver
    S.reset()
    S.PROGRAMS.clear()
    n = b["n"]
    for i, t in enumerate(b["traj"]):
        S.PROGRAMS[i] = [tuple(st) for st in t]
    if kind == "lattice":
        pos, akw = spell_count("lattice", [n, 1], sp)
        s = LatticeSolver(2, *pos, **akw)
    elif kind == "lattice-int":
        pos, akw = spell_count("lattice", [1, n], sp)
        s = LatticeSolver(2, *pos, **akw)
    else:
        pos, akw = spell_count("buckshot", n, sp)
        s = BuckshotSolver(2, *pos, **akw)
    if sp % 4 == 3:
        s.id = 0
    s.SetNestedSolver(S.ScriptedSolver())
    s.SetTermination(S.script_term())
    s.SetMapper(S.ScheduledMap(b["hist"]))
    snaps = []
    with quiet():
        for c in range(len(b["hist"])):
            if b["mode"] == "solve":
                s.Solve(S.cost_script, disp=0)
            else:
                s.Step(S.cost_script, disp=0)
            snaps.append(snap_ensemble(s))
        stopped = bool(s.Terminated())
    return snaps, stopped, s


def behaviour_nontrivial(b):
    last = b["obs"][-1]
    tie = sum(1 for e in last["E"] if e == last["ens"]["bestE"]) > 1
    nonserial = any(list(o) != sorted(o) for o in b["hist"])
    lens = set(len(t) for t in b["traj"])
    return tie or nonserial or (b["mode"] == "step" and len(lens) > 1)


def scripted_replay(ck, emitted, corrupt=False):
    kinds = ["lattice", "buckshot", "lattice-int"]
    nb = 0
    for name, r, _ in emitted:
        ck.mc(r, name)
        if r.violated:
            ck.violation("spec:" + r.violated, {"cfg": name, "tlc": r.out[-3000:]},
                         "design invariant %s violated in Ensemble.tla (%s)" % (r.violated, name))
            continue
        for b in r.printed:
            if not isinstance(b, dict) or "traj" not in b:
                continue
            nb += 1
            if corrupt and nb == 7:
                b = json.loads(json.dumps(b))
                b["obs"][-1]["ens"]["total"] += 1
            kind = kinds[nb % 3]
            try:
                snaps, stopped, s = replay_behaviour(b, kind, nb // 3)
            except Exception as ex:
                ck.case(nontrivial=behaviour_nontrivial(b), key=("b", name, nb))
                ck.violation("replay:raised", {"behaviour": b, "kind": kind, "error": repr(ex)},
                             "replaying a TLC behaviour on a real %s raised %r" % (kind, ex))
                continue
            bad = []
            for c, (got, exp) in enumerate(zip(snaps, b["obs"])):
                e = exp["ens"]
                expE = [float("inf") if v == INF else float(v) for v in exp["E"]]
                if got["n"] != b["n"]:
                    bad.append(("member-count", c, b["n"], got["n"]))
                if got["bestE"] != (float("inf") if e["bestE"] == INF else float(e["bestE"])):
                    bad.append(("best-energy", c, e["bestE"], got["bestE"]))
                if got["bestX"][0] != float(e["bestX"]):
                    bad.append(("best-solution", c, e["bestX"], got["bestX"]))
                if got["best"] != exp["best"]:
                    bad.append(("selected-member", c, exp["best"], got["best"]))
                if got["total"] != e["total"]:
                    bad.append(("total-evals", c, e["total"], got["total"]))
                if got["E"] != expE:
                    bad.append(("member-energies", c, exp["E"], got["E"]))
                if got["evals"] != exp["evals"]:
                    bad.append(("member-evals", c, exp["evals"], got["evals"]))
            if snaps and snaps[-1]["real"] != b["real"]:
                bad.append(("real-calls", len(snaps) - 1, b["real"], snaps[-1]["real"]))
            if not stopped:
                bad.append(("not-stopped", len(snaps) - 1, True, stopped))
            ck.case(nontrivial=behaviour_nontrivial(b), key=("b", name, nb))
            ck.trace()
            if bad:
                fields = sorted(set(x[0] for x in bad))
                ck.violation("replay:" + "+".join(fields),
                             {"behaviour": b, "ensemble": kind, "differences(field,call#,spec,mystic)": bad[:12]},
                             "%s with scripted members %s, mode %s, completion orders %s: spec and mystic differ: %s" % (
                                 kind, b["traj"], b["mode"], b["hist"], bad[:3]))
            elif nb in (5, 1203):
                ck.sample({"tlc_behaviour": b, "replayed_on": kind, "mystic_after_last_call": snaps[-1]})
    ck.extra["behaviours_replayed"] = ck.extra.get("behaviours_replayed", 0) + nb


# =========================================================================================
# spec -> code (b): Grid case tables
# =========================================================================================
def _canon_fails(fn):
    """a rotated spelling failed: does the canonical spelling of the same case fail too?"""
    try:
        return not fn()
    except Exception:
        return True


def grid_tables(ck, emitted, obs, corrupt=False):
    """every Grid case against gridpts and LatticeSolver._InitialPoints, exactly.  A coordinate of u units is the double
    u * 2^sc / 16 (Grid.tla); the bins, the layout and the bounds are handed over in a spelling chosen by rotation over
    the case number (harness/c09_spell.py); a failure under a rotated spelling that the canonical spelling (lists of
    python floats, positional) does not show is keyed `...[spelling:<tag>]`."""
    from mystic.math.grid import gridpts, samplepts
    from mystic.solvers import LatticeSolver
    nc = 0
    for name, r, _ in emitted:
        ck.mc(r, name)
        if r.violated:
            ck.violation("spec:" + r.violated, {"cfg": name, "tlc": r.out[-3000:]},
                         "design invariant %s violated in Grid.tla (%s)" % (r.violated, name))
            continue
        for c in r.printed:
            if not isinstance(c, dict) or "pts" not in c:
                continue
            nc += 1
            sc = c.get("sc", 0)
            exp = [[SP.val(v, sc) for v in p] for p in c["pts"]]
            if corrupt and nc == 11:
                exp[-1][-1] += SP.val(1, sc)
            bins = [[SP.val(v, sc) for v in b] for b in c["bins"]]
            lo = [SP.val(v, sc) for v in c["lo"]]
            hi = [SP.val(v, sc) for v in c["hi"]]
            nt = c["dim"] >= 2 and len(exp) >= 2
            key = ("g", tuple(c["nbins"]), tuple(c["lo"]), tuple(c["hi"]), sc)
            ck.case(nontrivial=nt, key=key)
            # gridpts on the per-dimension centre lists of the specification
            qobj, qtag = SP.bins(bins, SP.rot(nc, SP.GRID))

            def run_gridpts(q):
                return [[float(v) for v in p] for p in (gridpts(q) if nc % 2 else gridpts(q, None))]
            try:
                got = run_gridpts(qobj)
            except Exception as ex:
                got = "raised %r" % (ex,)
            if got != exp:
                what = "count" if (isinstance(got, list) and len(got) != len(exp)) else \
                       "order" if (isinstance(got, list) and sorted(got) == sorted(exp)) else "points"
                sfx = "" if qtag == "lists" or _canon_fails(lambda: run_gridpts(bins) == exp) else "[spelling:%s]" % qtag
                ck.violation("grid:gridpts-" + what + sfx, {"case": c, "bins": bins, "spelling": qtag, "expected": exp, "got": got},
                             "gridpts(%s) [bins written as %s]: spec %s, mystic %s" % (
                                 bins, qtag, exp[:6], got[:6] if isinstance(got, list) else got))
            # the lattice solver's starting points
            loobj, hiobj, ltag = SP.pair_rot(lo, hi, "bounds")
            tags = [None, ltag, None]

            def run_lattice(canon=False):
                if canon:
                    s = LatticeSolver(c["dim"], list(c["nbins"]))
                    s.SetStrictRanges(list(lo), list(hi))
                else:
                    tags[0] = SP.nbins_tag(c["dim"], nc // 3)
                    s, _t = SP.lattice(LatticeSolver, c["dim"], c["nbins"], tags[0])
                    tags[2] = SP.set_ranges(s, loobj, hiobj, SP.rot(nc, SP.RANGES, 5))
                return [[float(v) for v in p] for p in s._InitialPoints()], len(s._allSolvers)
            try:
                got, nmem = run_lattice()
            except Exception as ex:
                got, nmem = "raised %r" % (ex,), len(exp)
            if got != exp or nmem != len(exp):
                what = "count" if (nmem != len(exp) or (isinstance(got, list) and len(got) != len(exp))) else \
                       "order" if (isinstance(got, list) and sorted(got) == sorted(exp)) else "centres"
                canon = tags[0] == "list" and tags[1] == "list" and tags[2] in ("positional", None)
                sfx = "" if canon or _canon_fails(lambda: run_lattice(True) == (exp, len(exp))) else \
                    "[spelling:%s]" % "+".join("%s=%s" % kv for kv in zip(("nbins", "bounds", "ranges"), tags)
                                               if kv[1] not in ("list", "positional", None))
                ck.violation("grid:lattice-" + what + sfx,
                             {"case": c, "spelling": dict(zip(("nbins", "bounds", "SetStrictRanges"), tags)), "expected": exp,
                              "got": got, "members": nmem},
                             "LatticeSolver(%d, %s) on [%s, %s] (nbins %s, bounds %s, SetStrictRanges %s): spec %s, mystic %s" % (
                                 c["dim"], c["nbins"], lo, hi, tags[0], tags[1], tags[2], exp[:6],
                                 got[:6] if isinstance(got, list) else got))
            # sampled points for the same box -- the SAME caller-owned bounds objects the lattice was given: judged by the
            # Grid post-condition (see generator_obs)
            if nc % 7 == 0:
                try:
                    pts = samplepts(loobj, hiobj, len(exp))
                except Exception as ex:
                    pts = None
                    ck.violation("gen:samplepts-raised", {"lo": lo, "hi": hi, "npts": len(exp), "spelling": ltag, "error": repr(ex)},
                                 "samplepts(%s, %s, %d) [bounds written as %s] raised %r" % (lo, hi, len(exp), ltag, ex))
                if pts is not None:
                    obs.append(pts_obs("samplepts", len(exp), c["dim"], lo, hi, pts))
            if nc in (40, 500, 1000, 1700):
                ck.sample({"grid_case": {k: c[k] for k in ("dim", "nbins", "lo", "hi")}, "units": "2^%d/16" % sc,
                           "spelling": {"gridpts": qtag, "nbins": tags[0], "bounds": tags[1], "SetStrictRanges": tags[2]},
                           "spec_points": c["pts"][:8]})
    ck.extra["grid_cases"] = nc


# =========================================================================================
# generator post-conditions: observations judged by TLC (Obs_Grid.tla)
# =========================================================================================
def ranks(values):
    vs = sorted(set(values))
    return {v: i for i, v in enumerate(vs)}


def pts_obs(fn, npts, dim, lo, hi, pts):
    pts = [[float(v) for v in p] for p in pts]
    flat = [float(v) for v in lo] + [float(v) for v in hi] + [v for p in pts for v in p]
    if any(v != v for v in flat):
        rk = {v: (2000000 if v != v else 0) for v in flat}       # nan: out of every range
        rk.update(ranks([v for v in flat if v == v]))
    else:
        rk = ranks(flat)
    return {"kind": "pts", "fn": fn, "npts": npts, "dim": dim, "lo": [rk[float(v)] for v in lo],
            "hi": [rk[float(v)] for v in hi], "pts": [[rk[v] for v in p] for p in pts],
            "raw": {"lo": lo, "hi": hi, "pts": pts[:8]}}


def generator_obs(ck, a, obs):
    from mystic.math.grid import samplepts, fillpts, randomly_bin
    from mystic.math.samples import random_samples
    thorough = a.tier == "thorough"
    rng = random.Random(a.seed + 77)
    # randomly_bin
    for N in range(1, 49 if thorough else 25):
        for ndim in (1, 2, 3, 4):
            for rep in range(3 if thorough else 1):
                sd = rng.randrange(10 ** 6)
                random.seed(sd)
                np.random.seed(sd)
                try:
                    r = [int(v) for v in randomly_bin(N, ndim, ones=True, exact=True)]
                except Exception as ex:
                    ck.violation("gen:randomly_bin-raised", {"N": N, "ndim": ndim, "seed": sd, "error": repr(ex)},
                                 "randomly_bin(%d, %d) raised %r" % (N, ndim, ex))
                    continue
                obs.append({"kind": "rbin", "fn": "randomly_bin", "N": N, "ndim": ndim, "r": r, "raw": {"seed": sd}})
    # samplepts / random_samples / fillpts on random boxes (also degenerate and negative ones)
    boxes = [([0.0], [1.0]), ([-2.0, 3.0], [-1.0, 3.0]), ([-1.5, -1.5, 0.0], [1.5, 0.0, 4.0]), ([1e-3, -1e3], [2e-3, 1e3])]
    for _ in range(40 if thorough else 10):
        d = rng.choice([1, 2, 3])
        lo = [rng.choice([-3.0, -1.5, 0.0, 0.25, 2.0]) for _ in range(d)]
        hi = [l + rng.choice([0.0, 0.5, 1.0, 3.0]) for l in lo]
        boxes.append((lo, hi))
    for k, (lo, hi) in enumerate(boxes):
        npts = 1 + k % 5
        sd = rng.randrange(10 ** 6)
        random.seed(sd)
        np.random.seed(sd)
        # ... drawn uniformly (dist=None) and from a caller's distribution whose tails reach far beyond the box (a
        # normal around the box's centre, three box widths wide; one Distribution for all coordinates or a list of them)
        from mystic.math import Distribution
        mid = [(l + h) / 2.0 for l, h in zip(lo, hi)]
        wid = [3.0 * (h - l) + 1e-3 for l, h in zip(lo, hi)]
        dist1 = Distribution(np.random.normal, mid[0], wid[0])
        distn = [Distribution(np.random.normal, m, w) for m, w in zip(mid, wid)]
        npd = 5 * npts
        for fn, call in (("samplepts", lambda: samplepts(lo, hi, npts)),
                         ("random_samples", lambda: random_samples(lo, hi, npts).T.tolist()),
                         ("samplepts[dist=list]", lambda: samplepts(lo, hi, npd, dist=distn)),
                         ("random_samples[dist=list]", lambda: random_samples(lo, hi, npd, dist=distn).T.tolist()),
                         ("random_samples[dist]", lambda: random_samples(lo, hi, npd, dist=dist1).T.tolist())):
            if "dist" in fn and any(h == l for l, h in zip(lo, hi)):
                continue        # a continuous distribution cannot hit a zero-width side: random_samples refuses (raises)
            try:
                obs.append(pts_obs(fn, npd if "dist" in fn else npts, len(lo), lo, hi, call()))
            except Exception as ex:
                ck.violation("gen:%s-raised" % fn, {"lo": lo, "hi": hi, "npts": npts, "error": repr(ex)},
                             "%s(%s, %s, %d) raised %r" % (fn, lo, hi, npts, ex))
    nfill = 8 if thorough else 3
    for k, (lo, hi) in enumerate(boxes[:nfill]):
        npts = 1 + k % 3
        data = [[(l + h) / 2.0 for l, h in zip(lo, hi)]] if k % 2 else None
        sd = rng.randrange(10 ** 6)
        random.seed(sd)
        np.random.seed(sd)
        try:
            with quiet():
                pts = fillpts(lo, hi, npts, data, None if k % 3 else 0.25)
            obs.append(pts_obs("fillpts", npts, len(lo), lo, hi, pts))
        except Exception as ex:
            ck.violation("gen:fillpts-raised", {"lo": lo, "hi": hi, "npts": npts, "error": repr(ex)},
                         "fillpts(%s, %s, %d) raised %r" % (lo, hi, npts, ex))


RTOL = {"none": [None], "zero": [0, 0.0, -0.0], "pos": [0.25], "neg": [-0.25, -1], "tiny": [1e-300, 5e-324], "huge": [1e10, 1e300]}


def generator_cases(ck, a, emitted, obs, corrupt=False):
    """the GridGen catalogue (TLC enumerates the calls and what is demanded of the result) executed on the real
    randomly_bin / samplepts / random_samples / fillpts, every argument in a rotated spelling; the TLC-emitted length,
    product and count are compared here, the ranges are judged by TLC (Obs_Grid) with the other observations"""
    from mystic.math.grid import samplepts, fillpts, randomly_bin
    from mystic.math.samples import random_samples
    rng = random.Random(a.seed + 4099)
    ng = 0
    stats = {}
    for name, r, _ in emitted:
        ck.mc(r, name)
        if r.violated:
            ck.violation("spec:" + r.violated, {"cfg": name, "tlc": r.out[-3000:]},
                         "design invariant %s violated in GridGen.tla (%s)" % (r.violated, name))
            continue
        for c in r.printed:
            if not isinstance(c, dict) or "gen" not in c:
                continue
            ng += 1
            sd = rng.randrange(10 ** 6)
            random.seed(sd)
            np.random.seed(sd)
            stats[c["fn"]] = stats.get(c["fn"], 0) + 1
            if c["gen"] == "rbin":
                N, _t = SP.count(c["N"], SP.rot(ng, SP.INT), "N")
                args, kw = [N], {}
                how = ng % 4                                   # positional / keywords / defaults omitted / mixed
                if c["ndim"] == 0:
                    if how == 1:
                        kw["ndim"] = None
                    elif how == 3 or not (c["ones"] and c["exact"]):
                        args.append(None)
                else:
                    nd, _t = SP.count(c["ndim"], SP.rot(ng, SP.INT, 3), "ndim")
                    if how == 1:
                        kw["ndim"] = nd
                    else:
                        args.append(nd)
                if how == 0 and len(args) == 2:
                    args += [c["ones"], c["exact"]]
                elif how == 2 and c["ones"] and c["exact"]:
                    pass                                       # both at their documented defaults: omitted
                else:
                    kw["ones"], kw["exact"] = c["ones"], c["exact"]
                SP.TALLY.hit("randomly_bin", ["positional", "keywords", "defaults-omitted", "mixed"][how])
                exp_prod = c["prod"] + (1 if corrupt and ng == 9 else 0)
                ck.case(nontrivial=c["N"] > 1 and c["ndim"] != 1, key=("gc", json.dumps(c, sort_keys=True)))
                try:
                    res = [int(v) for v in randomly_bin(*args, **kw)]
                except Exception as ex:
                    ck.violation("gen:randomly_bin-raised", {"case": c, "args": repr(args), "kwds": repr(kw), "seed": sd, "error": repr(ex)},
                                 "randomly_bin(*%r, **%r) raised %r" % (args, kw, ex))
                    continue
                prod = 1
                for v in res:
                    prod *= v
                bad = []
                if c["len"] and len(res) != c["len"]:
                    bad.append("length")
                if prod != exp_prod:
                    bad.append("product")
                if bad:
                    ck.violation("gen:randomly_bin:%s%s" % ("+".join(bad), "" if c["exact"] else "[exact=False]"),
                                 {"case": c, "args": repr(args), "kwds": repr(kw), "seed": sd, "result": res,
                                  "spec": {"len": c["len"], "prod": exp_prod}},
                                 "randomly_bin(*%r, **%r) = %s: the specification demands length %s and product %s" % (
                                     args, kw, res, c["len"] or "free", exp_prod))
                obs.append({"kind": "rbinx", "fn": "randomly_bin", "N": c["N"], "ndim": c["ndim"], "exact": c["exact"], "r": res,
                            "raw": {"seed": sd, "args": repr(args), "kwds": repr(kw)}})
                continue
            # ------------------------------------------------------------------ points in a box
            lo = [SP.val(u, c["sc"]) for u in c["lo"]]
            hi = [SP.val(u, c["sc"]) for u in c["hi"]]
            loobj, hiobj, ltag = SP.pair_rot(lo, hi, "lb/ub")
            npts, ntag = SP.count(c["npts"], SP.rot(ng, SP.INT, 2), "npts")
            fn = c["fn"]
            args, kw = [loobj, hiobj, npts], {}
            if fn == "fillpts":
                rt = SP.rot(ng, RTOL[c["rtol"]], 2)
                data = None
                if c["data"]:
                    mid = [(l + h) / 2.0 for l, h in zip(lo, hi)]
                    data = [[mid, lo], (tuple(mid), tuple(hi)), np.array([mid])][ng % 3]
                if ng % 2 and not c["data"] and rt is None:
                    pass                                       # data and rtol omitted
                elif ng % 4 == 0:
                    kw.update(data=data, rtol=rt)
                else:
                    args += [data, rt]
                call = lambda: fillpts(*args, **kw)
            else:
                if ng % 3 == 0:
                    kw["dist"] = None                          # None given vs. omitted
                if ng % 5 == 0:
                    args, kw = [loobj, hiobj], dict(kw, npts=npts)
                call = (lambda: samplepts(*args, **kw)) if fn == "samplepts" else (lambda: random_samples(*args, **kw).T.tolist())
            ck.case(nontrivial=c["npts"] > 1, key=("gc", json.dumps(c, sort_keys=True)))
            try:
                with quiet():
                    pts = call()
            except Exception as ex:
                ck.violation("gen:%s-raised" % fn, {"case": c, "lo": lo, "hi": hi, "spelling": ltag, "kwds": repr(kw), "seed": sd,
                                                    "error": repr(ex)},
                             "%s(%s, %s, %s%s) [bounds written as %s] raised %r" % (fn, lo, hi, c["npts"], ", ..." if len(args) > 3 or kw else "",
                                                                                  ltag, ex))
                continue
            exp_count = c["count"] + (1 if corrupt and ng == 9 else 0)
            if len(pts) != exp_count:
                ck.violation("gen:%s:count" % fn, {"case": c, "lo": lo, "hi": hi, "spelling": ltag, "seed": sd, "points": pts[:8],
                                                   "spec": {"count": exp_count}},
                             "%s(%s, %s, %s) returned %d points, the specification demands %d" % (fn, lo, hi, c["npts"], len(pts), exp_count))
            if not (SP.same_reals(loobj, lo) and SP.same_reals(hiobj, hi)):
                ck.violation("gen:%s:bounds-argument-modified" % fn, {"case": c, "lo": lo, "hi": hi, "spelling": ltag,
                                                                       "after": [repr(loobj), repr(hiobj)]},
                             "%s wrote into the caller's bounds (%s): a second call with the same objects samples another box" % (fn, ltag))
            o = pts_obs(fn, c["npts"], c["dim"], lo, hi, pts)
            o["raw"].update(seed=sd, spelling=ltag, sc=c["sc"])
            obs.append(o)
    ck.extra["generator_catalogue_cases"] = stats


def judge_obs(ck, obs, corrupt=False):
    if not obs:
        return
    if corrupt:
        obs = list(obs) + [{"kind": "rbin", "fn": "randomly_bin(corrupted)", "N": 12, "ndim": 2, "r": [3, 5], "raw": {}}]
    d = scratch_dir()
    try:
        path = os.path.join(d, "obs.json")
        with open(path, "w") as f:
            json.dump([{k: v for k, v in o.items() if k != "raw"} for o in obs], f)
        r = run_tlc("solver/Obs_Grid", cfg="Obs_Grid.cfg", env={"OBS_FILE": path}, workers=1, timeout=1200, heap="4g")
    finally:
        shutil.rmtree(d, ignore_errors=True)
    verdicts = [p for p in r.printed if isinstance(p, dict) and "verdicts" in p]
    if not verdicts or len(verdicts[-1]["verdicts"]) != len(obs):
        raise TLCError("no verdicts from Obs_Grid:\n" + r.out[-3000:])
    for o, failing in zip(obs, verdicts[-1]["verdicts"]):
        nt = (o["kind"] in ("rbin", "rbinx") and o["N"] > 1 and o["ndim"] != 1) or (o["kind"] == "pts" and o["npts"] > 1)
        ck.case(nontrivial=nt, key=("o", o["fn"], json.dumps({k: v for k, v in o.items() if k != "raw"}, sort_keys=True)))
        if failing:
            ck.violation("gen:%s:%s" % (o["fn"], "+".join(sorted(failing))), {"observation": o, "failing_clauses": failing},
                         "%s output violates the Grid post-condition: %s; %s" % (o["fn"], ", ".join(sorted(failing)),
                                                                                json.dumps(o.get("raw"))[:300]))
    ck.extra["generator_observations"] = len(obs)
    ck.sample({"generator_observation": {k: v for k, v in obs[len(obs) // 2].items()}})


# =========================================================================================
# code -> spec: recorded real runs
# =========================================================================================
BOXES = [(-1.5, 1.5), (0.0, 3.0), (-3.0, 0.0), (-1.5, 0.0), (0.0, 1.5)]


class Run(object):
    """records one real ensemble run (see Trace_Ensemble.tla for the events)"""
    def __init__(self, cfg):
        self.cfg = cfg
        self.events = []
        self.starts = {}
        self.solvers = {}
        self.seen = {}
        self.lo = [b[0] for b in cfg["bounds"]] if cfg["strict"] else [-1e3] * cfg["dim"]
        self.hi = [b[1] for b in cfg["bounds"]] if cfg["strict"] else [1e3] * cfg["dim"]
        self.cons = S.cons_grid if cfg["cons"] else None
        self.pen = S.pen_half if cfg["pen"] else None
        self.term = None
        self.orders = []
        self._order = []

    # --- called by the harness maps, under S.LOCK, when a work item completes
    def item_done(self, member, args, r):
        solver = r[0]
        x0 = args[1]
        if x0 is not None:
            self.starts[member] = S.tup(x0)
        self.solvers[member] = solver
        mine = [e for e in S.LOG if e[0] == member]
        calls = len(mine) - self.seen.get(member, 0)
        self.seen[member] = len(mine)
        self._order.append(member)
        self.events.append({"ev": "Item", "i": member, "m": self.summary(member, solver, mine), "calls": calls})

    def begin(self, items):
        self._order = []
        self.orders.append(self._order)
        self.events.append({"ev": "Begin", "items": items})

    def summary(self, member, solver, mine=None):
        cfg = self.cfg
        if mine is None:
            mine = [e for e in S.LOG if e[0] == member]
        start = self.starts.get(member)
        lo, hi = self.lo, self.hi
        with quiet():
            fin = bool(solver.Terminated())
        scls, s16 = [], []
        if start is not None:
            for v, l, h in zip(start, lo, hi):
                scls.append(0 if v < l else 1 if v == l else 2 if v < h else 3 if v == h else 4)
                s16.append(int(v * 16) if float(v * 16).is_integer() and abs(v * 16) < OFFGRID else OFFGRID)
        first = -1
        if mine and start is not None:
            want = S.cons_grid_pure(start) if self.cons else tuple(start)
            first = 1 if tuple(mine[0][1]) == tuple(want) else 0
        oob = sum(1 for (_, x, _) in mine if any(v < l or v > h for v, l, h in zip(x, lo, hi))) if cfg["strict"] else 0
        cviol = sum(1 for (_, x, _) in mine if S.cons_grid_pure(x) != tuple(x)) if self.cons else 0
        bestE = float(solver.bestEnergy)
        if self.pen:
            penok = any(v + S.pen_half_pure(x) == bestE for (_, x, v) in mine) or not mine
        else:
            penok = True
        gens = len(solver.energy_history)       # steps taken (Powell keeps its history apart from the step monitor)
        limG, limE = cfg["limG"], cfg["limE"]
        cfgS = bool(solver._useStrictRange) == bool(cfg["strict"]) and (
            not cfg["strict"] or (list(np.asarray(solver._strictMin, dtype=float)) == [float(v) for v in lo]
                                  and list(np.asarray(solver._strictMax, dtype=float)) == [float(v) for v in hi]))
        cfgL = (limG is None or solver._maxiter == limG) and (limE is None or solver._maxfun == limE)
        tdoc = getattr(self.term, "__doc__", None)
        cfgT = getattr(solver._termination, "__doc__", None) == tdoc
        cfgC = (solver._constraints is self.cons) if self.cons else True
        cfgP = (solver._penalty is self.pen) if self.pen else True
        term_true = bool(self.term(solver)) if self.term is not None else False
        stopok = term_true or (solver._maxiter is not None and solver._maxiter != "*" and solver.generations >= solver._maxiter) \
            or (solver._maxfun is not None and solver._maxfun != "*" and solver.evaluations >= solver._maxfun)
        return {"start": start, "scls": scls, "s16": s16, "first": first, "bestE": bestE,
                "bestX": S.tup(solver.bestSolution), "evals": int(solver.evaluations), "real": len(mine),
                "gens": gens, "fin": fin, "oob": oob, "cviol": cviol, "penok": bool(penok),
                "cfgS": bool(cfgS), "cfgL": bool(cfgL), "cfgT": bool(cfgT), "cfgC": bool(cfgC), "cfgP": bool(cfgP),
                "stopok": bool(stopok)}

    def collect(self, ens):
        members = [self.summary(i, self.solvers[i]) for i in sorted(self.solvers)]
        self.events.append({"ev": "Collect", "ens": ens, "members": members})

    # --- projection to integers
    def trace(self):
        cfg = self.cfg
        energies = set()
        for e in self.events:
            if e["ev"] == "Item":
                energies.add(e["m"]["bestE"])
            elif e["ev"] == "Collect":
                energies.add(e["ens"]["bestE"])
                energies.update(m["bestE"] for m in e["members"])
                energies.update(e["ens"]["allE"])
        fin = sorted(v for v in energies if v == v and v != float("inf"))
        eid = {v: i for i, v in enumerate(fin)}
        eid[float("inf")] = INF

        def E(v):
            return 2000000 if v != v else eid[v]
        pids = {}

        def P(x):
            if x is None:
                return 0
            x = tuple(x)
            if x not in pids:
                pids[x] = len(pids) + 1
            return pids[x]

        def M(m):
            m = dict(m)
            m["start"], m["bestX"], m["bestE"] = P(m["start"]), P(m["bestX"]), E(m["bestE"])
            return m
        layout, lo16, hi16, exact = [], [], [], False
        if cfg["kind"] == "lattice":
            first_round = [e for e in self.events if e["ev"] == "Item" and e["m"]["start"] is not None]
            starts = {e["i"]: e["m"]["start"] for e in first_round}
            pts = [starts[i] for i in sorted(starts)]
            if isinstance(cfg["nbins"], int):
                layout = [len(set(p[d] for p in pts)) for d in range(cfg["dim"])] if pts else []
            else:
                layout = list(cfg["nbins"])
            lo16 = [int(v * 16) for v in self.lo]
            hi16 = [int(v * 16) for v in self.hi]
            exact = all(float(v * 16).is_integer() for v in self.lo + self.hi) and \
                all(nb > 0 and abs(h - l) % (2 * nb) == 0 for l, h, nb in zip(lo16, hi16, layout)) and len(layout) == cfg["dim"]
        new = {"ev": "New", "kind": cfg["kind"], "api": cfg["api"], "mode": "solve" if cfg["mode"] == "solve" else "step",
               "n": cfg["n"], "dim": cfg["dim"], "strict": bool(cfg["strict"]), "exact": bool(exact),
               "layout": layout, "lo16": lo16, "hi16": hi16,
               "limG": NONE if cfg["limG"] is None else cfg["limG"], "limE": NONE if cfg["limE"] is None else cfg["limE"],
               "termG": cfg["termG"] if cfg["termG"] is not None else NONE, "inst": bool(cfg.get("inst"))}
        out = [new]
        for e in self.events:
            if e["ev"] == "Begin":
                out.append(e)
            elif e["ev"] == "Item":
                out.append({"ev": "Item", "i": e["i"], "m": M(e["m"]), "calls": e["calls"]})
            else:
                r = dict(e["ens"])
                r["bestE"], r["bestX"] = E(r["bestE"]), P(r["bestX"])
                r["allE"] = [E(v) for v in r["allE"]]
                out.append({"ev": "Collect", "ens": r, "members": [M(m) for m in e["members"]]})
        return out


def make_map(name, rng, n, run):
    """a map that notifies `run` at the beginning of every map call"""
    if name == "serial":
        base = S.serial_map
    elif name == "python_map":
        from mystic.python_map import python_map

        def base(f, *seqs, **kwds):
            items = list(zip(*seqs))
            return python_map(lambda i: S._run_item(f, i, items[i]), range(len(items)), **kwds)
    elif name == "reversed":
        base = S.reversed_map
    elif name == "shuffled":
        base = S.ShuffledMap(rng.randrange(10 ** 6))
    elif name == "threads":
        base = S.ThreadMap(workers=3)
    elif name == "threads-forced":
        order = list(range(1, n + 1))
        rng.shuffle(order)
        base = S.ThreadMap(order=order)
    elif isinstance(name, list):
        base = S.ScheduledMap(name)
    else:
        raise ValueError(name)

    def mapper(f, *seqs, **kwds):
        seqs = [list(q) for q in seqs]
        run.begin(min(len(q) for q in seqs) if seqs else 0)
        return base(f, *seqs, **kwds)
    mapper.__name__ = "harness_" + (name if isinstance(name, str) else "scheduled")
    return mapper


def nested_class(name):
    import mystic.solvers as ms
    return {"NM": ms.NelderMeadSimplexSolver, "PW": ms.PowellDirectionalSolver, "DE": ms.DifferentialEvolutionSolver}[name]


def spell_count(kind, arg, sp):
    """the number of points / the bin layout of an ensemble (class or wrapper) in a rotated spelling:
    (positional arguments, keyword arguments)"""
    name = "nbins" if kind == "lattice" else "npts"
    v = sp % 5
    if isinstance(arg, (list, tuple)):
        arg = [int(x) for x in arg]
        val, tag = [(list(arg), "list"), (tuple(arg), "tuple"), ([np.int64(x) for x in arg], "np.int64-list"),
                    (tuple(arg), "kw-tuple"), (list(arg), "kw-list")][v]
    else:
        val, tag = [(int(arg), "int"), (np.int64(arg), "np.int64"), (np.int32(arg), "np.int32"), (int(arg), "kw-int"),
                    (np.int64(arg), "kw-np.int64")][v]
    SP.TALLY.hit("ensemble-" + name, tag)
    return ([], {name: val}) if tag.startswith("kw") else ([val], {})


def spell_bounds(bounds, sp):
    """wrapper `bounds`: documented as a list of (min, max) pairs"""
    b = [(float(l), float(h)) for l, h in bounds]
    integral = all(v.is_integer() for p in b for v in p)
    v = sp % 6
    if v == 1:
        out, tag = [list(p) for p in b], "list-of-lists"
    elif v == 2:
        out, tag = tuple(b), "tuple-of-tuples"
    elif v == 3 and integral:
        out, tag = [(int(l), int(h)) for l, h in b], "int-pairs"
    elif v == 4:
        out, tag = np.array(b, dtype=float), "2d-array"
    elif v == 5 and integral:
        out, tag = np.array(b, dtype=np.int64), "2d-int-array"
    else:
        out, tag = list(b), "list-of-tuples"
    SP.TALLY.hit("wrapper-bounds", tag)
    return out


def run_config(cfg, rng):
    """execute one configuration on the real code; returns the Run (events recorded) or raises"""
    import mystic.solvers as ms
    import mystic.termination as mt
    S.reset()
    random.seed(cfg["seed"])
    np.random.seed(cfg["seed"] % (2 ** 32))
    sp = cfg.get("sp", 0)
    run = Run(cfg)
    S.SINK[0] = run
    cost = S.COSTS[cfg["cost"]]
    mapper = make_map(cfg["map"], rng, cfg["n"], run)
    nested = nested_class(cfg["nested"])
    limG, limE = cfg["limG"], cfg["limE"]
    with quiet(), warnings.catch_warnings():
        warnings.simplefilter("ignore")
        if cfg["api"] == "wrapper":
            fn = {"lattice": ms.lattice, "buckshot": ms.buckshot, "sparsity": ms.sparsity}[cfg["kind"]]
            run.term = mt.NormalizedChangeOverGeneration(cfg["ftol"], cfg["gtol"])
            kw = {"solver": nested, "map": mapper}
            if cfg["cons"]:
                kw["constraints"] = S.cons_grid
            if cfg["pen"]:
                kw["penalty"] = S.pen_half
            arg = cfg["nbins"] if cfg["kind"] == "lattice" else cfg["n"]
            # spelling rotation (cfg["sp"]): the count / layout, the bounds, None vs omitted, 1/0 vs True/False
            pos, akw = spell_count(cfg["kind"], arg, sp)
            if cfg["strict"]:
                kw["bounds"] = spell_bounds(cfg["bounds"], [3, 5, 1, 3, 5, 4][sp % 6] if cfg.get("boundary") else sp // 2)
            elif sp % 2:
                kw["bounds"] = None
            if limG is not None or sp % 3 == 0:
                kw["maxiter"] = limG
            if limE is not None or sp % 3 == 1:
                kw["maxfun"] = limE
            kw.update(akw)
            ret = fn(cost, cfg["dim"], *pos, ftol=cfg["ftol"], gtol=cfg["gtol"], full_output=(1 if sp % 2 else True),
                     disp=(0 if sp % 4 < 2 else False), **kw)
            x, fval, iters, fcalls, warnflag, allfcalls = ret[:6]
            with S.LOCK:
                run.collect({"bestE": float(fval), "bestX": S.tup(x), "evals": int(fcalls), "total": int(allfcalls),
                             "nmem": len(run.solvers), "bestidx": 0, "allE": [], "allEv": [],
                             "stopped": all(bool(s.Terminated()) for s in run.solvers.values()), "real": len(S.LOG)})
            return run
        cls = {"lattice": ms.LatticeSolver, "buckshot": ms.BuckshotSolver, "sparsity": ms.SparsitySolver}[cfg["kind"]]
        pos, akw = spell_count(cfg["kind"], cfg["nbins"] if cfg["kind"] == "lattice" else cfg["n"], sp)
        if cfg["kind"] == "sparsity" and sp % 5:
            akw["rtol"] = [None, None, 0, 0.0, -0.5][sp % 5]      # the default written out, a falsy radius, the quick method
            SP.TALLY.hit("sparsity-rtol", repr(akw["rtol"]))
        s = cls(cfg["dim"], *pos, **akw)
        run.term = S.gen_term(cfg["termG"]) if cfg["termG"] is not None else mt.VTR(1e-3)
        if cfg.get("inst"):
            # a configured solver INSTANCE without an objective: it keeps its own limits and termination, and the
            # ensemble's bounds, constraints and penalty reach it through the objective the ensemble hands it
            proto = nested(cfg["dim"], 4) if cfg["nested"] == "DE" else nested(cfg["dim"])
            if limG is not None or limE is not None:
                proto.SetEvaluationLimits(limG, limE)
            proto.SetTermination(run.term)
            s.SetNestedSolver(proto)
        elif cfg["nested"] == "DE":
            s.SetNestedSolver(nested, NP=4)
        else:
            s.SetNestedSolver(nested)
        if cfg["strict"]:
            lo_, hi_ = [b[0] for b in cfg["bounds"]], [b[1] for b in cfg["bounds"]]
            if cfg.get("boundary"):       # whole-number boxes: mostly written as integers (members get integer-dtype ranges)
                loobj, hiobj, _t = SP.pair(lo_, hi_, ["ints", "int64-array", "ints", "tuple", "int64-array", "ndarray"][sp % 6], "ens-ranges")
            else:
                loobj, hiobj, _t = SP.pair_rot(lo_, hi_, "ens-ranges")
            SP.set_ranges(s, loobj, hiobj, SP.rot(sp, SP.RANGES, 2))
        # settings by setter, or (a plain class-API Solve / first Step) by the documented keywords of Solve / Step
        bykw = sp % 3 == 1 and not cfg.get("inst") and not cfg.get("again")
        callkw = {}
        if cfg["cons"]:
            if bykw:
                callkw["constraints"] = S.cons_grid
            else:
                s.SetConstraints(S.cons_grid)
        if cfg["pen"]:
            if bykw:
                callkw["penalty"] = S.pen_half
            else:
                s.SetPenalty(S.pen_half)
        if (limG is not None or limE is not None) and not cfg.get("inst"):
            lim = sp % 4
            if lim == 1:
                s.SetEvaluationLimits(generations=limG, evaluations=limE)
            elif lim == 2 and limE is None:
                s.SetEvaluationLimits(limG)                        # None vs omitted
            elif lim == 2 and limG is None:
                s.SetEvaluationLimits(evaluations=limE)
            elif lim == 3:
                s.SetEvaluationLimits(evaluations=limE, generations=limG)
            else:
                s.SetEvaluationLimits(limG, limE)
            SP.TALLY.hit("SetEvaluationLimits", ["positional", "keywords", "one-omitted", "keywords-swapped"][lim])
        if bykw:
            callkw["termination"] = run.term
        else:
            s.SetTermination(run.term)
        SP.TALLY.hit("settings", "Solve/Step-keywords" if bykw else "setters")
        s.SetMapper(mapper)
        disp = 0 if sp % 4 < 2 else False

        def report():
            try:
                bi = s._allSolvers.index(s._bestSolver) + 1
            except ValueError:
                bi = 0
            with S.LOCK:
                run.solvers = {i + 1: m for i, m in enumerate(s._allSolvers) if m is not None}
                run.collect({"bestE": float(s.bestEnergy), "bestX": S.tup(s.bestSolution), "evals": int(s.evaluations),
                             "total": int(s._total_evals), "nmem": len(s._allSolvers), "bestidx": bi,
                             "allE": [float(v) for v in s._all_bestEnergy], "allEv": [int(v) for v in s._all_evals],
                             "stopped": bool(s.Terminated()), "real": len(S.LOG)})
        if cfg["mode"] == "solve":
            s.Solve(cost, disp=disp, **callkw)
            report()
            for _ in range(cfg.get("again", 0)):
                s.Solve(disp=disp)
                report()
        elif cfg["mode"] == "stepsolve":
            # Solve(step=True): the ensemble loops over Step itself; one Collect at the end would hide the
            # rounds, so every round is reported from the callback-free hook below
            orig = s._Step

            def stepped(*args, **kwds):
                orig(*args, **kwds)
                report()
            s._Step = stepped
            s.Solve(cost, disp=disp, step=True, **callkw)
            s._Step = orig
        else:
            k = 0
            objset = sp % 2 == 1                  # the objective by SetObjective, then Step() -- or Step(cost) every time
            if objset:
                s.SetObjective(cost)
            SP.TALLY.hit("Step", "SetObjective+Step()" if objset else "Step(cost)")
            while True:
                if objset:
                    msg = s.Step(disp=disp, **(callkw if k == 0 else {}))
                else:
                    msg = s.Step(cost, disp=disp, **(callkw if k == 0 else {}))
                report()
                k += 1
                if msg or k > 400:
                    break
        run.ensemble = s
    return run


def gen_configs(a, count, rng):
    cfgs = []
    thorough = a.tier == "thorough"
    maps = ["serial", "python_map", "reversed", "shuffled", "threads", "threads-forced"]
    for k in range(count):
        kind = ["lattice", "buckshot", "lattice", "buckshot", "lattice", "sparsity"][k % 6]
        if kind == "sparsity" and not thorough and k % 12 != 5:
            kind = "buckshot"
        api = "wrapper" if k % 5 == 4 else "class"
        dim = rng.choice([1, 2, 2, 3])
        nested = rng.choice(["NM", "NM", "PW", "DE"])
        if dim == 1 and nested == "DE":
            nested = "NM"
        strict = rng.random() < 0.7
        bounds = [rng.choice(BOXES) for _ in range(dim)]
        if kind == "lattice":
            if rng.random() < 0.25 or k % 24 in (2, 14):
                # an integer number of members: the lattice chooses the layout itself (randomly_bin); primes included,
                # and every 12th lattice configuration is a prime in 2 or 3 dimensions (layouts 1 x .. x N only)
                nbins = rng.choice([2, 3, 4, 5, 6, 7]) if k % 24 not in (2, 14) else (5 if k % 24 == 2 else 7)
                if k % 24 in (2, 14) and dim == 1:
                    dim = 2 if k % 24 == 2 else 3
                    bounds = [rng.choice(BOXES) for _ in range(dim)]
                n = nbins
            else:
                while True:
                    nbins = [rng.choice([1, 2, 3]) for _ in range(dim)]
                    n = int(np.prod(nbins))
                    if n <= 6:
                        break
        else:
            nbins = None
            n = rng.choice([1, 2, 3, 4, 5, 6]) if kind == "buckshot" else rng.choice([1, 2, 3])
        mode = "solve" if api == "wrapper" else rng.choice(["solve", "solve", "step", "stepsolve"])
        cost = rng.choice(["bowl", "plateau", "plateau", "far", "steps"])
        termG = rng.choice([None, 2, 3, 4]) if api == "class" else None
        limG = rng.choice([None, 1, 2, 3, 5])
        limE = rng.choice([None, None, 6, 15, 40])
        if termG is None and limG is None and limE is None:
            limG = 3
        if nested == "PW" and limG is None and termG is None:
            limG = 2
        cfg = {"kind": kind, "api": api, "dim": dim, "nested": nested, "strict": strict, "bounds": bounds,
               "nbins": nbins, "n": n, "mode": mode, "cost": cost, "termG": termG, "limG": limG, "limE": limE,
               "cons": rng.random() < 0.3, "pen": rng.random() < 0.3, "map": rng.choice(maps),
               "seed": rng.randrange(10 ** 6), "ftol": 1e-4, "gtol": rng.choice([2, 3]),
               "again": 1 if (mode == "solve" and api == "class" and rng.random() < 0.15) else 0}
        # every fourth class-API Solve hands the ensemble a configured solver instance instead of a class
        if api == "class" and mode == "solve" and k % 4 == 1:
            cfg["inst"], cfg["again"] = True, 0
            if not (cfg["strict"] or cfg["cons"] or cfg["pen"]):
                cfg[rng.choice(["strict", "cons", "pen"])] = True
        cfg["sp"] = k
        cfgs.append(cfg)
    # boundary configurations (their own generator, so the ones above stay what they were): two-digit numbers of members,
    # layouts with 4..12 bins (primes, composites), a prime / composite INTEGER nbins, on whole-number boxes 15 wide (every
    # centre for 1..6, 10, 12 bins is a multiple of 1/16) under tiny limits
    rng2 = random.Random(a.seed * 104729 + 7)
    wide = [(-6.0, 9.0), (0.0, 15.0), (-15.0, 0.0)]             # whole numbers: can be written as python ints / integer arrays
    shapes = [("buckshot", 2, None, 10), ("lattice", 2, [2, 5], 10), ("lattice", 1, [12], 12), ("buckshot", 1, None, 12),
              ("lattice", 2, [3, 4], 12), ("lattice", 2, 10, 10), ("lattice", 1, [10], 10), ("lattice", 2, [4, 3], 12),
              ("lattice", 3, 12, 12), ("buckshot", 3, None, 11), ("lattice", 2, 11, 11), ("lattice", 2, [1, 12], 12),
              ("sparsity", 2, None, 10), ("lattice", 2, [5, 2], 10), ("lattice", 1, 7, 7), ("lattice", 2, [6, 2], 12),
              ("sparsity", 1, None, 3), ("buckshot", 2, None, 100 if thorough else 24)]
    nb = max(6, count // 6)
    for j in range(nb):
        kind, dim, nbins, n = shapes[j % len(shapes)]
        if kind == "sparsity" and not thorough and j >= len(shapes):
            kind = "buckshot"
        api = "wrapper" if j % 4 == 3 else "class"
        mode = "solve" if api == "wrapper" else ["solve", "step", "stepsolve"][j % 3]
        nested = "NM" if dim == 1 or j % 5 else "PW"
        cfg = {"kind": kind, "api": api, "dim": dim, "nested": nested, "strict": True, "bounds": [rng2.choice(wide) for _ in range(dim)],
               "nbins": nbins, "n": n, "mode": mode, "cost": rng2.choice(["bowl", "plateau", "steps"]),
               "termG": (2 if api == "class" and j % 2 else None), "limG": rng2.choice([1, 2]), "limE": rng2.choice([None, None, 6]),
               "cons": j % 7 == 3, "pen": j % 7 == 5, "map": rng2.choice(maps), "seed": rng2.randrange(10 ** 6), "ftol": 1e-4,
               "gtol": 2, "again": 0, "sp": count + j, "boundary": True}
        cfgs.append(cfg)
    return cfgs


TRACE_CFG = """SPECIFICATION TraceSpec
CONSTANTS
  N = 1
  Energies = {}
  Ks = {}
  MaxSteps = 0
  Modes = {}
  Scan = "index"
  MaxCalls = 1000000
CONSTRAINT Accept
INVARIANT BestIsMin
INVARIANT BestIsThatMember
INVARIANT TieRule
INVARIANT TotalIsSum
INVARIANT TotalIsReal
INVARIANT SolveCompletes
INVARIANT StepContinues
POSTCONDITION AllAccepted
CHECK_DEADLOCK FALSE
"""


def _validate_batch(traces, diag=False):
    d = scratch_dir()
    try:
        path = os.path.join(d, "traces.json")
        with open(path, "w") as f:
            json.dump(traces, f)
        cfgp = os.path.join(d, "Trace_Ensemble.cfg")
        with open(cfgp, "w") as f:
            f.write(TRACE_CFG)
        env = {"TRACE_FILE": path}
        if diag:
            env["DIAG"] = "1"
        return run_tlc("solver/Trace_Ensemble", cfg=cfgp, env=env, workers=1, timeout=1800, heap="4g")
    finally:
        shutil.rmtree(d, ignore_errors=True)


def diagnose(trace):
    r = _validate_batch([trace], diag=True)
    if r.violated and r.kind in ("invariant", "action-property"):
        import re
        nstates = len(re.findall(r"^State \d+:", r.out, re.M))
        at = nstates
        return {"failing": ["invariant:" + r.violated], "at": at, "event": trace[at] if at < len(trace) else None}
    summ = [p for p in r.printed if isinstance(p, dict) and "accepted" in p]
    if summ and not summ[-1]["rejected"]:
        return None
    pre = max(summ[-1]["prefix"][0] if summ and summ[-1]["prefix"] else 0, 2)
    probes = [p for p in r.printed if isinstance(p, dict) and "probe" in p and p["at"] == pre]
    failing = sorted(set(x for p in probes for x in p["failing"]))
    at = pre - 1
    ev = trace[at] if at < len(trace) else None
    if not failing:
        failing = ["event-not-enabled:%s" % (ev or {}).get("ev", "end-of-trace")]
    return {"failing": failing, "at": at, "event": ev}


def _bisect(traces, idxs):
    if not idxs:
        return []
    r = _validate_batch([traces[i] for i in idxs])
    summ = [p for p in r.printed if isinstance(p, dict) and "accepted" in p]
    if not r.violated:
        return [idxs[j - 1] for j in summ[-1]["rejected"]] if summ else idxs
    if len(idxs) == 1:
        return idxs
    m = len(idxs) // 2
    return _bisect(traces, idxs[:m]) + _bisect(traces, idxs[m:])


def validate(traces, ck, name):
    verdicts = [None] * len(traces)
    if not traces:
        return verdicts
    r = _validate_batch(traces)
    ck.mc(r, name)
    if r.violated and r.kind in ("invariant", "action-property"):
        rejected = _bisect(traces, list(range(len(traces))))
    else:
        summ = [p for p in r.printed if isinstance(p, dict) and "accepted" in p]
        if not summ:
            raise TLCError("no acceptance summary from trace validation:\n" + r.out[-3000:])
        rejected = [i - 1 for i in summ[-1]["rejected"]]
    for i, v in zip(rejected, diagnose_many([traces[i] for i in rejected])):
        verdicts[i] = v
    return verdicts


def diagnose_many(traces):
    """ONE diagnosis run over all rejected traces (a thorough run rejects about a hundred traces of the known
    configured-instance finding: each must be named, not merely counted); single runs only if an invariant stops TLC"""
    if not traces:
        return []
    if len(traces) <= 2:
        return [diagnose(t) for t in traces]
    r = _validate_batch(traces, diag=True)
    summ = [p for p in r.printed if isinstance(p, dict) and "accepted" in p]
    if (r.violated and r.kind in ("invariant", "action-property")) or not summ or len(summ[-1]["prefix"]) != len(traces):
        return [diagnose(t) if k < 16 else {"failing": ["rejected-not-diagnosed"], "at": None, "event": None}
                for k, t in enumerate(traces)]
    out = []
    for k, t in enumerate(traces):
        if (k + 1) not in summ[-1]["rejected"]:
            out.append(diagnose(t))
            continue
        pre = max(summ[-1]["prefix"][k], 2)
        probes = [p for p in r.printed if isinstance(p, dict) and p.get("probe") == k + 1 and p["at"] == pre]
        failing = sorted(set(x for p in probes for x in p["failing"]))
        at = pre - 1
        ev = t[at] if at < len(t) else None
        if not failing:
            failing = ["event-not-enabled:%s" % (ev or {}).get("ev", "end-of-trace")]
        out.append({"failing": failing, "at": at, "event": ev})
    return out


def trace_nontrivial(run):
    last = [e for e in run.events if e["ev"] == "Collect"][-1]
    es = [m["bestE"] for m in last["members"]]
    tie = len(es) > 1 and es.count(min(es)) > 1
    nonserial = any(list(o) != sorted(o) for o in run.orders)
    rounds = set()
    for e in run.events:
        if e["ev"] == "Item" and e["m"]["fin"]:
            rounds.add(e["m"]["gens"])
    return tie or nonserial or (run.cfg["mode"] != "solve" and len(rounds) > 1)


def real_runs(ck, a, count, corrupt=False):
    rng = random.Random(a.seed * 7919 + 13)
    cfgs = gen_configs(a, count, rng)
    # make DE constructible by the wrappers too (SetNestedSolver(..., NP=) stores NP on the class)
    import mystic.solvers as ms
    ms.LatticeSolver(2, 1).SetNestedSolver(ms.DifferentialEvolutionSolver, NP=4)
    runs, traces = [], []
    t0 = time.time()
    for cfg in cfgs:
        try:
            run = run_config(cfg, rng)
        except Exception as ex:
            import traceback
            ck.case(nontrivial=False, key=("r", json.dumps(cfg, sort_keys=True)))
            ck.violation("run:%s:%s:raised:%s" % (cfg["kind"], cfg["api"], type(ex).__name__),
                         {"config": cfg, "error": repr(ex), "traceback": traceback.format_exc()[-1500:]},
                         "%s run raised %r (config %s)" % (cfg["kind"], ex, cfg))
            continue
        finally:
            S.SINK[0] = None
        runs.append(run)
        traces.append(run.trace())
    ck.extra["record_wall_s"] = round(time.time() - t0, 1)
    if corrupt and traces:
        # corrupt one recorded field of an otherwise valid trace: the reported total of the last call
        t = traces[0] = json.loads(json.dumps(traces[0]))
        t[-1]["ens"]["total"] += 1
    verdicts = []
    chunk = 1500
    for i in range(0, len(traces), chunk):
        verdicts += validate(traces[i:i + chunk], ck, "Trace_Ensemble[%d..]" % i)
    stats = {}
    for run, tr, v in zip(runs, traces, verdicts):
        cfg = run.cfg
        k = "%s/%s/%s/%s" % (cfg["kind"], cfg["api"], cfg["nested"], cfg["mode"])
        stats[k] = stats.get(k, 0) + 1
        ck.case(nontrivial=trace_nontrivial(run), key=("r", json.dumps(cfg, sort_keys=True)))
        if v is None:
            ck.trace()
            continue
        key = "ens:%s:%s" % (cfg["kind"], "+".join(v["failing"]))
        ck.violation(key, {"config": cfg, "failing_clauses": v["failing"], "at_event": v["at"], "event": v["event"], "trace": tr},
                     "%s %s run (%s members, nested %s, mode %s, map %s): event #%s %s not explainable by Ensemble.tla; "
                     "false clauses: %s" % (cfg["kind"], cfg["api"], cfg["n"], cfg["nested"], cfg["mode"], cfg["map"],
                                            v["at"], (v["event"] or {}).get("ev"), ", ".join(v["failing"])))
    ck.extra["real_runs_by_kind"] = stats
    if traces:
        j = min(3, len(traces) - 1)
        ck.sample({"real_run_config": runs[j].cfg, "trace_head": traces[j][:3]})


# =========================================================================================
def explore(ck, a, cache=None, light=False, corrupt=None):
    thorough = a.tier == "thorough"
    SP.reset_turns()                           # the spelling rotation starts afresh: a run is reproducible
    if not light:
        C9S.prefetch(a)                        # its TLC jobs run in the background meanwhile
    res = cache if cache else run_jobs(a)
    if not light:
        design(ck, res["design"])
    scripted_replay(ck, res["emit"], corrupt=(corrupt == "behaviour"))
    obs = []
    grid_tables(ck, res["grid"], obs, corrupt=(corrupt == "grid"))
    generator_obs(ck, a, obs)
    generator_cases(ck, a, res.get("gen", []), obs, corrupt=(corrupt == "gencat"))
    judge_obs(ck, obs, corrupt=(corrupt == "obs"))
    real_runs(ck, a, getattr(a, "nruns", None) or (2500 if thorough else 220), corrupt=(corrupt == "trace"))
    ck.exhaustive = False
    ck.assumptions = [
        "members are observed through the harness maps (work items, their start points and returned solvers) and "
        "through the cost function the harness owns; the call is attributed to the member whose work item the calling "
        "thread is executing",
        "energies are compared as order-preserving ranks, points as interned ids; lattice bounds are multiples of 1.5 "
        "(grid tables: of 0.75) so that cell centres are exact binary fractions",
        "the nested solver is given as a CLASS (as the wrappers and examples do) or, in every fourth class-API Solve, as a "
        "configured solver INSTANCE without an objective: the instance keeps its own limits and termination (the run's "
        "limits are set on it), while the ensemble's bounds, constraints and penalty must reach it through the objective",
        "ties between members are resolved as the specification transcribes __update_bestSolver (last minimal member)",
        "process-based maps (pathos/multiprocess) are not installed; thread pools and re-ordering maps stand in",
        "settings changed on the ensemble AFTER its members exist are outside the runs (they are not propagated)",
        "spellings: only spellings the unchanged implementation accepts are rotated (an ndarray as `nbins`, numpy.all as "
        "`if_terminated` of sample(), a limit of 0 generations / evaluations on an ensemble raise and are outside the domain); "
        "float32 bounds are used only where every value and every centre is a float32 (the arithmetic then happens in "
        "float32); scaled boxes are powers of two times the basic boxes, so the IEEE arithmetic stays exact; zero points / "
        "zero members are not requested from fillpts and the ensembles"]
    if not light:
        C9S.sampler_part(ck, a)
        C9S.searcher_part(ck, a)
    ck.extra["spellings"] = dict(sorted(SP.TALLY.items()))


# =========================================================================================
# self-test: in-memory mutants of mystic that the check must catch
# =========================================================================================
def mutants():
    import mystic.abstract_ensemble_solver as AE
    import mystic.ensemble as EN
    import mystic.math.grid as GR
    import mystic.math as MM
    import mystic.math.samples as SA
    from harness.srcpatch import patch
    A = AE.AbstractEnsembleSolver
    m = []
    m.append(("reduce with max instead of min",
              lambda: patch(A, "_AbstractEnsembleSolver__update_bestSolver", "if solver.bestEnergy <= energy:", "if solver.bestEnergy >= energy:")))
    m.append(("tie rule: <= becomes < in the reduction",
              lambda: patch(A, "_AbstractEnsembleSolver__update_bestSolver", "if solver.bestEnergy <= energy:", "if solver.bestEnergy < energy:")))
    m.append(("_total_evals skips the best member",
              lambda: patch(A, "_total_evals", "return sum(self._all_evals)",
                            "return sum(self._all_evals) - getattr(self._bestSolver, 'evaluations', 0)")))
    m.append(("lattice bins start at the cell edge: (j+0.5) -> j",
              lambda: patch(EN.LatticeSolver, "_InitialPoints", "(j+0.5)*step", "(j)*step")))
    m.append(("members are not given the ensemble's evaluation limits",
              lambda: patch(A, "_AbstractEnsembleSolver__get_solver_instance",
                            "solver.SetEvaluationLimits(self._maxiter, self._maxfun) #XXX: new?", "pass")))
    m.append(("members are not given the strict ranges",
              lambda: patch(A, "_AbstractEnsembleSolver__get_solver_instance",
                            "if self._useStrictRange: #XXX: always, settable, or sync'd ?", "if False:")))
    m.append(("members are not given the constraints",
              lambda: patch(A, "_AbstractEnsembleSolver__get_solver_instance", "solver.SetConstraints(self._constraints)", "pass")))
    m.append(("members are not given the penalty",
              lambda: patch(A, "_AbstractEnsembleSolver__get_solver_instance", "solver.SetPenalty(self._penalty)", "pass")))
    m.append(("members are not given the termination",
              lambda: patch(A, "_AbstractEnsembleSolver__get_solver_instance", "solver.SetTermination(self._termination)", "pass")))

    def colmajor():
        orig = GR.gridpts

        def gridpts(q, dist=None):
            pts = orig(q, dist)
            idx = orig([list(range(len(b))) for b in q])
            order = sorted(range(len(idx)), key=lambda n: tuple(reversed(idx[n])))
            return [pts[n] for n in order]
        GR.gridpts = gridpts
        MM.gridpts = gridpts

        def undo():
            GR.gridpts = orig
            MM.gridpts = orig
        return undo
    m.append(("gridpts enumerates column-major", colmajor))
    m.append(("one member too few is created",
              lambda: patch(A, "__init__", "self._allSolvers      = [None for j in range(self._npts)]",
                            "self._allSolvers      = [None for j in range(max(1, self._npts - 1))]")))
    m.append(("sampled points are offset from the upper bound",
              lambda: patch(SA, "_random_samples", "pts[i] = (pts[i] * abs(ubi - lbi)) + lbi", "pts[i] = (pts[i] * abs(ubi - lbi)) + ubi")))
    m.append(("results are stored in reverse work-item order",
              lambda: patch(A, "_AbstractEnsembleSolver__update_allSolvers", "self._allSolvers[lr] = _solver #XXX: update not replace?",
                            "self._allSolvers[len(self._allSolvers) - 1 - lr] = _solver")))
    m.append(("randomly_bin drops a factor",
              lambda: patch(GR, "randomly_bin", "result = [product(result[i::dim]) for i in range(dim)]",
                            "result = [product(result[i::dim][:1]) for i in range(dim)]")))
    # ---- mutants that only the rotated SPELLINGS / the BOUNDARY values of the catalogues can show (H09)
    m.append(("[spelling/boundary] lattice bin width rounded to 8 decimals",
              lambda: patch(EN.LatticeSolver, "_InitialPoints", "step = 1. * abs(upper[i] - lower[i])/nbins[i]",
                            "step = round(1. * abs(upper[i] - lower[i])/nbins[i], 8)")))
    m.append(("[spelling/boundary] lattice centres are stored in an array of the bounds' dtype (integer bounds truncate them)",
              lambda: patch(EN.LatticeSolver, "_InitialPoints", "bins.append( [lower[i] + (j+0.5)*step for j in range(nbins[i])] )",
                            "bins.append( __import__('numpy').array([lower[i] + (j+0.5)*step for j in range(nbins[i])])"
                            ".astype(__import__('numpy').asarray(lower[i]).dtype).tolist() )")))
    m.append(("[spelling/boundary] an integer nbins is recognised only if it is a python int (numpy integers fall through)",
              lambda: patch(A, "__init__", "if isinstance(nbins, Integral):", "if type(nbins) is int:")))
    m.append(("[spelling/boundary] randomly_bin multiplies at most 4 factors per dimension",
              lambda: patch(GR, "randomly_bin", "result = [product(result[i::dim]) for i in range(dim)]",
                            "result = [product(result[i::dim][:4]) for i in range(dim)]")))
    m.append(("[spelling/boundary] randomly_bin(exact=False): the threshold 'N > 3' becomes 'N > 5'",
              lambda: patch(GR, "randomly_bin", "if not exact and N > 3 and prime:", "if not exact and N > 5 and prime:")))

    def typed_gridpts():
        return patch(GR, "gridpts", "pts = [list(reversed(w[i])) for i in range(len(w))]",
                     "pts = __import__('numpy').array([list(reversed(w[i])) for i in range(len(w))], dtype=type(q[0][0])).tolist()")
    m.append(("[spelling/boundary] gridpts collects the points in an array typed like the first bin (an integer first dimension "
              "truncates the others)", typed_gridpts))
    return m


def selftest(a):
    import types
    a2 = types.SimpleNamespace(tier="quick", seed=a.seed, jobs=a.jobs, dry=True, nruns=90)
    cache = run_jobs(a2, kinds=("emit", "grid", "gen"))
    missed = 0

    def attempt(name, corrupt=None):
        ck = new_check(a2)
        buf = io.StringIO()
        with contextlib.redirect_stdout(buf):
            try:
                explore(ck, a2, cache=cache, light=True, corrupt=corrupt)
                ck.finish()
            except Exception as ex:
                print("raised", repr(ex))
                ck.viol_keys["raised:%s" % type(ex).__name__] = 1
                ck.violations += 1
        classes = sorted(ck.viol_keys)
        caught = ck.violations > 0
        print("SELFTEST %s: %s   [%d violations: %s]" % (name, "caught" if caught else "MISSED", ck.violations,
                                                           "; ".join(classes)[:400]))
        sys.stdout.flush()
        return caught
    # the unchanged tree must be clean under the self-test's own (reduced) workload
    ck = new_check(a2)
    with contextlib.redirect_stdout(io.StringIO()):
        explore(ck, a2, cache=cache, light=True)
    print("SELFTEST baseline (unchanged tree): %s" % ("clean" if ck.violations == 0 else "NOT CLEAN %s" % sorted(ck.viol_keys)))
    missed += 0 if ck.violations == 0 else 1
    for name, mk in mutants():
        undo = mk()
        try:
            missed += 0 if attempt(name) else 1
        finally:
            if callable(undo):
                undo()
    for what in ("behaviour", "grid", "obs", "trace", "gencat"):
        missed += 0 if attempt("corrupted expected value from TLC / recorded field (%s)" % what, corrupt=what) else 1
    missed += C9S.selftest_sampler(a2)
    return 1 if missed else 0


def main():
    a = tier_seed()
    assert_repo()
    if a.selftest:
        return selftest(a)
    ck = new_check(a)
    explore(ck, a)
    return ck.finish()


if __name__ == "__main__":
    main_guard(main)
